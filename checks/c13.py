"""C13 - voxel encodings are interchangeable, run-length codecs lossless.

Reference semantics: spec/RunLength.tla
  part 1  denotation of RLE / BRLE sequences (canonical runs), reference effect of every function
          of trimesh.voxel.runlength on the denotation, well-formedness w.r.t. the count maximum;
  part 2  expression trees of trimesh.voxel.encoding (base encoding + lazy flip / transpose /
          reshape / flat views) whose denotation is a dense N-d array, every read of the Encoding
          API judged against the same read of the denotation;
  part 3  VoxelGrid index <-> point maps, volume, binvox export / reload.

Pure-function pattern (like c06): this harness enumerates the inputs exhaustively in small scope,
calls the real code, records (abstract input, options, projected result or exception name) and TLC
validates every record in batch against the TLA+ reference (code -> spec).  No expected value is
computed here.  Long runs (at / below / above the count maximum of uint8, int8, uint16) are sent to
TLC as run descriptions, never as 500-element sequences; dense results of such calls are
re-described losslessly as maximal runs by `to_runs` (a projection: order, values and lengths kept).

Rejections are attributed to a deviation id (root cause, table DEVIATIONS) by attribute_fn /
attribute_enc / attribute_grid: a predicate on the input (kind of base encoding, classes in the
expression tree, data pattern) and the method, plus the outcome the root cause predicts where that
is cheap (exception name / empty result).  Rejections matching no predicate stay plain violations.
At most REPORT_CAP observations per (clause, deviation) are handed to the Verdict; the evidence
carries the full counts.  Every observed call runs under a time limit, so code that stops
terminating is recorded (exception name CallTimeout) instead of hanging the check.
"""
import contextlib
import io
import itertools
import os
import signal
import sys

import numpy as np

from harness import tlc
from harness.common import (MachineryError, Verdict, import_trimesh, pmap, seed,
                            tier_from_args)

PROP = "C13"
CFG = "INIT Init\nNEXT Next\nINVARIANT Report\nINVARIANT RefSane\nCHECK_DEADLOCK FALSE\n"

DT = {"uint8": np.uint8, "int8": np.int8, "uint16": np.uint16, "int32": np.int32, "int64": np.int64}
DTMAX = {"uint8": 255, "int8": 127, "uint16": 65535, "int64": 0}     # 0 = unbounded in the spec
LONG = {"uint8": [1, 2, 254, 255, 256, 510, 511],
        "int8": [1, 2, 126, 127, 128, 254, 255],
        "uint16": [1, 65534, 65535, 65536, 131070, 131071]}
LIT_MAX = 16      # dense values longer than this travel as runs
NEG_N = 4         # sequences up to this length are also gathered with negative indices


# ------------------------------------------------------------------ projections
def ints(x):
    """flat list of python ints; refuses anything that is not integral"""
    a = np.asarray(x)
    if a.dtype == object:
        raise ValueError("object array")
    out = []
    for v in a.ravel().tolist():
        if isinstance(v, bool):
            out.append(int(v))
        elif isinstance(v, int):
            if abs(v) >= 2 ** 31:
                raise ValueError("integer beyond TLC range")
            out.append(v)
        elif isinstance(v, float) and v == int(v):
            out.append(int(v))
        else:
            raise ValueError(f"non-integral value {v!r}")
    return out


def to_runs(seq):
    """maximal runs [[value, count], ...] of a flat integer list (lossless)"""
    return [[v, len(list(g))] for v, g in itertools.groupby(seq)]


def proj_dense(x):
    a = np.asarray(x)
    if a.ndim != 1:
        raise ValueError(f"dense result of rank {a.ndim}")
    if len(a) <= LIT_MAX:
        return {"n": int(len(a)), "lit": ints(a)}
    # run description of a long result: vectorised, equivalent to to_runs(ints(a))
    ai = a.astype(np.int64)
    if not np.array_equal(ai, a):
        raise ValueError("non-integral dense result")
    starts = np.r_[0, np.flatnonzero(ai[1:] != ai[:-1]) + 1]
    counts = np.diff(np.r_[starts, len(ai)])
    return {"n": int(len(a)), "runs": [[int(v), int(c)] for v, c in zip(ai[starts], counts)]}


def compress_sparse(indices, values):
    """(index, value) list -> maximal [start, count, value] stretches of consecutive indices"""
    tri = []
    for k, v in zip(indices, values):
        if tri and tri[-1][2] == v and tri[-1][0] + tri[-1][1] == k:
            tri[-1][1] += 1
        else:
            tri.append([k, 1, v])
    return tri


def expand_runs(runs, dtype):
    vals = np.array([r[0] for r in runs], dtype=np.int64)
    cnts = np.array([r[1] for r in runs], dtype=np.int64)
    return np.repeat(vals, cnts).astype(dtype)


def canonical_brle(seq):
    """harness-made BRLE of a 0/1 sequence (input construction only; TLC re-derives the denotation
    from the literal encoding that is recorded)"""
    out = []
    cur = 0
    n = 0
    for v in seq:
        if v == cur:
            n += 1
        else:
            out.append(n)
            cur = v
            n = 1
    out.append(n)
    return out


def canonical_rle(seq):
    return [x for v, c in to_runs(list(seq)) for x in (v, c)]


CALL_LIMIT_S = 20     # CPU seconds: a call on an input of a few hundred elements that burnt this much never returns


class CallTimeout(Exception):
    pass


TIMEOUTS = {}         # per worker process: function / read name -> number of calls that timed out


class SkipCall(Exception):
    pass


@contextlib.contextmanager
def time_limit(key, seconds=CALL_LIMIT_S):
    """the observed call must return: a call that loops forever is recorded as raising CallTimeout
    (an observation of the real code) instead of hanging the check; after three such observations
    of one function a worker stops calling it (nothing is recorded for the skipped calls).
    The limit is on CPU time consumed by this process (ITIMER_PROF), not on wall time, so a worker
    starved by other jobs on the machine cannot produce a timeout."""
    if TIMEOUTS.get(key, 0) >= 3:
        raise SkipCall()

    def on_alarm(signum, frame):
        TIMEOUTS[key] = TIMEOUTS.get(key, 0) + 1
        raise CallTimeout()
    old = signal.signal(signal.SIGPROF, on_alarm)
    signal.setitimer(signal.ITIMER_PROF, seconds)
    try:
        yield
    finally:
        signal.setitimer(signal.ITIMER_PROF, 0)
        signal.signal(signal.SIGPROF, old)


class Recorder:
    def __init__(self):
        self.cases = []

    def call(self, fn, rec, f):
        rec = dict(rec)
        rec["fn"] = fn
        try:
            with time_limit(fn):
                rec["res"] = f()
            rec["exc"] = ""
        except SkipCall:
            return
        except Exception as e:  # noqa
            rec["res"] = 0
            rec["exc"] = type(e).__name__
        self.cases.append(rec)


# ------------------------------------------------------------------ part 1: runlength functions
THIN = False      # quick tier: every third (rotating) of the index lists of length 3 in exhaustive enumerations


def thin_triples(lists, phase):
    if not THIN:
        return lists
    return [l for k, l in enumerate(lists) if len(l) < 3 or k % 3 == phase]


def index_lists(n, rs, exhaustive):
    """index lists into a sequence of length n: (list, kind)"""
    if n == 0:
        return []
    if exhaustive:
        out = []
        for m in (1, 2, 3):
            out += [list(t) for t in itertools.product(range(n), repeat=m)]
        return thin_triples(out, int(rs.randint(3)))
    pts = sorted({0, n - 1, n // 2, max(0, n - 2), min(1, n - 1)})
    s3 = sorted(rs.choice(n, size=min(3, n), replace=False).tolist())
    return [s3, s3[::-1], [pts[-1], pts[0], pts[-1]], [int(rs.randint(n))], pts]


def mask_lists(n, rs, exhaustive):
    if exhaustive:
        return [list(m) for m in itertools.product((0, 1), repeat=n)]
    return [[1] * n, [int(x) for x in rs.randint(0, 2, size=n)], [(k + 1) % 2 for k in range(n)]]


def gen_brle_cases(chunk):
    trimesh = import_trimesh()
    rl = trimesh.voxel.runlength
    R = Recorder()
    rs = np.random.RandomState(seed() + 131)
    for e, opts in chunk:
        dts = opts["dtypes"]
        store = opts.get("store", "int64")          # dtype the encoding is STORED in
        narrow = store != "int64"
        b = np.array(e, dtype=DT[store])
        n = int(sum(e))
        base = {"e": e, "store": store} if narrow else {"e": e}
        R.call("brle_to_dense", base, lambda: proj_dense(rl.brle_to_dense(b)))
        if opts.get("vals"):
            R.call("brle_to_dense", dict(base, vals=[7, 9]), lambda: proj_dense(rl.brle_to_dense(b, [7, 9])))
        R.call("brle_length", base, lambda: int(rl.brle_length(b)))
        R.call("brle_reverse", base, lambda: ints(rl.brle_reverse(b)))
        R.call("brle_logical_not", base, lambda: ints(rl.brle_logical_not(b)))

        def sparse():
            idx = ints(rl.brle_to_sparse(b))
            return {"ni": len(idx), "tri": compress_sparse(idx, [1] * len(idx))}
        R.call("brle_to_sparse", base, sparse)
        R.call("merge_brle_lengths", dict(base, max=0), lambda: ints(rl.merge_brle_lengths(b if narrow else list(e))))

        def strip():
            enc, (s, t) = rl.brle_strip(b)
            return {"enc": ints(enc), "start": int(s), "end": int(t)}
        R.call("brle_strip", base, strip)
        for dn in dts:
            dt = DT[dn]
            R.call("brle_to_rle", dict(base, max=DTMAX[dn], dtype=dn), lambda: ints(rl.brle_to_rle(b, dtype=dt)))
            R.call("brle_to_brle", dict(base, max=DTMAX[dn], dtype=dn), lambda: ints(rl.brle_to_brle(b, dtype=dt)))
            R.call("split_long_brle_lengths", dict(base, max=DTMAX[dn], dtype=dn),
                   lambda: ints(rl.split_long_brle_lengths(b if narrow else list(e), dtype=dt)))
        if opts.get("elementwise") and n > 0:
            exh = n <= opts.get("exh_n", 0)
            for k, idx in enumerate(index_lists(n, rs, exh) if not opts.get("long") else opts["idx"]):
                form = "list" if k % 2 == 0 else "array"
                arg = list(idx) if form == "list" else np.array(idx, dtype=np.int64)
                R.call("brle_gather_1d", dict(base, idx=list(idx), form=form), lambda: ints(rl.brle_gather_1d(b, arg)))
                if list(idx) == sorted(idx):
                    R.call("sorted_brle_gather_1d", dict(base, idx=list(idx), form=form),
                           lambda: ints(tuple(rl.sorted_brle_gather_1d(b, arg))))
            R.call("brle_gather_1d", dict(base, idx=[n], form="array"), lambda: ints(rl.brle_gather_1d(b, np.array([n]))))
            if not opts.get("long") and n <= NEG_N:
                # negative indices (numpy counts from the end) and indices below -length
                for idx in ([-1], [-n], [-n - 1], [0, -1], [-1, n - 1, -n]):
                    R.call("brle_gather_1d", dict(base, idx=idx, form="array"), lambda: ints(rl.brle_gather_1d(b, np.array(idx))))
                R.call("sorted_brle_gather_1d", dict(base, idx=[-1], form="list"), lambda: ints(tuple(rl.sorted_brle_gather_1d(b, [-1]))))
            if opts.get("long"):
                for mr in opts["masks"]:
                    m = expand_runs(mr, bool)
                    R.call("brle_mask", dict(base, mr=mr), lambda: proj_dense(np.array(tuple(rl.brle_mask(b, m)), dtype=np.int64)))
            else:
                for ml in mask_lists(n, rs, exh):
                    m = np.array(ml, dtype=bool)
                    R.call("brle_mask", dict(base, m=ml), lambda: proj_dense(np.array(tuple(rl.brle_mask(b, m)), dtype=np.int64)))
    return R.cases


def gen_rle_cases(chunk):
    trimesh = import_trimesh()
    rl = trimesh.voxel.runlength
    R = Recorder()
    rs = np.random.RandomState(seed() + 137)
    for e, opts in chunk:
        dts = opts["dtypes"]
        store = opts.get("store", "int64")          # dtype the encoding is STORED in
        narrow = store != "int64"
        r = np.array(e, dtype=DT[store])
        vals, cnts = e[::2], e[1::2]
        n = int(sum(cnts))
        base = {"e": e, "store": store} if narrow else {"e": e}
        R.call("rle_to_dense", base, lambda: proj_dense(rl.rle_to_dense(r)))
        R.call("rle_length", base, lambda: int(rl.rle_length(r)))
        R.call("rle_reverse", base, lambda: ints(rl.rle_reverse(r)))

        def sparse():
            idx, v = rl.rle_to_sparse(r)
            idx, v = ints(idx), ints(v)
            return {"ni": len(idx), "nv": len(v), "tri": compress_sparse(idx, v)}
        R.call("rle_to_sparse", base, sparse)

        def merge():
            v, c = rl.merge_rle_lengths(r[::2] if narrow else list(vals), r[1::2] if narrow else list(cnts))
            v, c = ints(v), ints(c)
            if len(v) != len(c):
                raise ValueError("values and lengths differ in length")
            return [x for p in zip(v, c) for x in p]
        R.call("merge_rle_lengths", dict(base, max=0), merge)

        def strip():
            enc, (s, t) = rl.rle_strip(r)
            return {"enc": ints(enc), "start": int(s), "end": int(t)}
        R.call("rle_strip", base, strip)
        for dn in dts:
            dt = DT[dn]
            R.call("rle_to_rle", dict(base, max=DTMAX[dn], dtype=dn), lambda: ints(rl.rle_to_rle(r, dtype=dt)))

            def split():
                v, c = rl.split_long_rle_lengths(r[::2] if narrow else np.array(vals, dtype=np.int64),
                                                 r[1::2] if narrow else list(cnts), dtype=dt)
                v, c = ints(v), ints(c)
                if len(v) != len(c):
                    raise ValueError("values and lengths differ in length")
                return [x for p in zip(v, c) for x in p]
            R.call("split_long_rle_lengths", dict(base, max=DTMAX[dn], dtype=dn), split)
            if max(vals, default=0) <= 1:
                R.call("rle_to_brle", dict(base, max=DTMAX[dn], dtype=dn), lambda: ints(rl.rle_to_brle(r, dtype=dt)))
        if max(vals, default=0) <= 1:
            R.call("rle_to_brle", dict(base, max=0, dtype="None"), lambda: ints(rl.rle_to_brle(r)))
        if opts.get("elementwise") and n > 0:
            exh = n <= opts.get("exh_n", 0)
            for k, idx in enumerate(index_lists(n, rs, exh) if not opts.get("long") else opts["idx"]):
                form = "list" if k % 2 == 0 else "array"
                arg = list(idx) if form == "list" else np.array(idx, dtype=np.int64)
                R.call("rle_gather_1d", dict(base, idx=list(idx), form=form), lambda: ints(rl.rle_gather_1d(r, arg)))
                if list(idx) == sorted(idx):
                    R.call("sorted_rle_gather_1d", dict(base, idx=list(idx), form=form),
                           lambda: ints(tuple(rl.sorted_rle_gather_1d(r, arg))))
            R.call("rle_gather_1d", dict(base, idx=[n], form="array"), lambda: ints(rl.rle_gather_1d(r, np.array([n]))))
            if not opts.get("long") and n <= NEG_N:
                for idx in ([-1], [-n], [-n - 1], [0, -1], [-1, n - 1, -n]):
                    R.call("rle_gather_1d", dict(base, idx=idx, form="array"), lambda: ints(rl.rle_gather_1d(r, np.array(idx))))
                R.call("sorted_rle_gather_1d", dict(base, idx=[-1], form="list"), lambda: ints(tuple(rl.sorted_rle_gather_1d(r, [-1]))))
            if opts.get("long"):
                for mr in opts["masks"]:
                    m = expand_runs(mr, bool)
                    R.call("rle_mask", dict(base, mr=mr), lambda: proj_dense(np.array(tuple(rl.rle_mask(r, m)), dtype=np.int64)))
            else:
                for ml in mask_lists(n, rs, exh):
                    m = np.array(ml, dtype=bool)
                    R.call("rle_mask", dict(base, m=ml), lambda: proj_dense(np.array(tuple(rl.rle_mask(r, m)), dtype=np.int64)))
    return R.cases


def gen_dense_cases(chunk):
    """dense_to_rle / dense_to_brle on literal short sequences ('d') or run descriptions ('dr')"""
    trimesh = import_trimesh()
    rl = trimesh.voxel.runlength
    R = Recorder()
    for item in chunk:
        key, val, dts = item
        if key == "d":
            seq = np.array(val, dtype=np.int64)
        else:
            seq = expand_runs(val, np.int64)
        binary = int(seq.max(initial=0)) <= 1
        for dn in dts:
            dt = DT[dn]
            base = {key: val, "max": DTMAX[dn], "dtype": dn}
            if binary:
                bseq = seq.astype(bool)
                R.call("dense_to_brle", base, lambda: ints(rl.dense_to_brle(bseq, dtype=dt)))
                R.call("dense_to_rle", dict(base, of="bool"), lambda: ints(rl.dense_to_rle(bseq, dtype=dt)))
            if not binary or key == "dr":
                R.call("dense_to_rle", dict(base, of="int64"), lambda: ints(rl.dense_to_rle(seq, dtype=dt)))
    return R.cases


def long_points(runs):
    """index positions at, just below and just above every run boundary"""
    n = sum(c for _, c in runs)
    pts = {0, n - 1}
    acc = 0
    for _, c in runs:
        acc += c
        pts |= {acc - 1, acc}
    return sorted(p for p in pts if 0 <= p < n)


def long_opts(runs, dn, elementwise, rs):
    n = sum(c for _, c in runs)
    o = {"dtypes": [dn], "long": True, "elementwise": elementwise and n > 0}
    if o["elementwise"]:
        pts = long_points(runs)
        pick = lambda k: [pts[j] for j in rs.randint(0, len(pts), size=k)]  # noqa
        o["idx"] = [pts, pts[::-1], pick(3), pick(3), pick(2), [pts[-1]]]
        mx = DTMAX[dn]
        m1 = [[1, 1], [0, max(n - 2, 0)], [1, 1]] if n >= 2 else [[1, n]]
        m2, left, v = [], n, 1
        while left > 0:
            c = min(mx, left)
            m2.append([v, c])
            left -= c
            v = 1 - v
        m3 = [[0, 1], [1, n - 1]] if n >= 1 else []
        o["masks"] = [m1, m2, m3]
    return o


def runlength_work(tier):
    """returns (brle items, rle items, dense items)"""
    big = tier == "thorough"
    rs = np.random.RandomState(seed() + 5)
    small_dt = ["uint8", "int64"] if big else ["uint8"]
    wide_dt = ["uint8", "int8", "uint16", "int64"] if big else ["uint8", "int64"]
    exh_n = 4 if big else 3
    brle, rle, dense = [], [], []
    # --- every boolean sequence of length <= 10
    for n in range(1, 11):
        for bits in itertools.product((0, 1), repeat=n):
            bits = list(bits)
            dense.append(("d", bits, wide_dt))
            e = canonical_brle(bits)
            # quick: the element-wise calls (gathers, masks) meet every second sequence of 9 - 10 elements
            ew = big or n <= 8 or (len(dense) + seed()) % 2 == 0
            brle.append((e, {"dtypes": small_dt, "elementwise": ew, "exh_n": exh_n}))
            if n <= 6:
                brle.append((e + [0], {"dtypes": small_dt, "elementwise": n <= 4, "exh_n": exh_n}))
    # --- every sequence over {0,1,2} of length <= 7
    for n in range(1, 8):
        for seq in itertools.product((0, 1, 2), repeat=n):
            seq = list(seq)
            if max(seq) == 2:
                dense.append(("d", seq, wide_dt))
            ew = big or n <= 6 or (len(rle) + seed()) % 2 == 0
            rle.append((canonical_rle(seq), {"dtypes": small_dt, "elementwise": ew, "exh_n": exh_n}))
    # --- every short encoding, canonical or not (zero counts, repeated values)
    for k in range(1, 6):
        for e in itertools.product((0, 1, 2, 3), repeat=k):
            ew = big or k <= 4 or (len(brle) + seed()) % 2 == 0
            brle.append((list(e), {"dtypes": small_dt, "elementwise": ew, "vals": k <= 3, "exh_n": 3}))
    for k in range(1, 4):
        for vals in itertools.product((0, 1, 2), repeat=k):
            for cnts in itertools.product((0, 1, 2), repeat=k):
                ew = big or k <= 2 or (len(rle) + seed()) % 2 == 0
                rle.append(([x for p in zip(vals, cnts) for x in p], {"dtypes": small_dt, "elementwise": ew, "exh_n": 3}))
    # --- run-level descriptions around the count maximum of every dtype
    for dn, L in LONG.items():
        kmax = 2 if dn == "uint16" else 3
        elementwise = dn != "uint16"
        L0 = [0] + L
        for k in range(1, kmax + 1):
            for ls in itertools.product(L, repeat=k):
                for first in (0, 1):
                    dense.append(("dr", [[(first + j) % 2, ls[j]] for j in range(k)], [dn, "int64"] if big else [dn]))
            if k <= 2:
                for ls in itertools.product(L, repeat=k):
                    for vs in itertools.product((0, 1, 2), repeat=k):
                        if 2 in vs and all(vs[j] != vs[j + 1] for j in range(k - 1)):
                            dense.append(("dr", [[vs[j], ls[j]] for j in range(k)], [dn]))
            for e in itertools.product(L0, repeat=k):
                e = list(e)
                runs = [[j % 2, e[j]] for j in range(k)]
                ew = elementwise and (big or k <= 2 or rs.randint(4) == 0)
                brle.append((e, long_opts(runs, dn, ew, rs)))
        mx = DTMAX[dn]
        for e in itertools.product((0, 1, mx, mx + 1), repeat=4):
            e = list(e)
            brle.append((e, long_opts([[j % 2, e[j]] for j in range(4)], dn, False, rs)))
        for k in range(1, 3):
            for vals in itertools.product((0, 1, 2), repeat=k):
                for cnts in itertools.product(L0, repeat=k):
                    runs = [[vals[j], cnts[j]] for j in range(k)]
                    ew = elementwise and (big or k == 1 or rs.randint(4) == 0)
                    rle.append(([x for p in runs for x in p], long_opts(runs, dn, ew, rs)))
        for vals in itertools.product((0, 1), repeat=3):
            for cnts in itertools.product((0, mx, mx + 1), repeat=3):
                runs = [[vals[j], cnts[j]] for j in range(3)]
                rle.append(([x for p in runs for x in p], long_opts(runs, dn, elementwise and big, rs)))
    nb, nr = narrow_work(tier, rs)
    return brle + nb, rle + nr, dense


NARROW = {"uint8": 255, "int8": 127, "uint16": 65535, "int32": 255}     # stored dtype -> largest count used
TARGETS = ["uint8", "int8", "uint16", "int64"]


def narrow_work(tier, rs):
    """encodings STORED in a narrow integer dtype (what loading a binvox file produces), with counts
    up to the stored maximum so that merged runs (255 + 45 of one value, 255, 0, 45 with a zero-length
    separator) and the total length exceed what the stored dtype can hold.  int32 cannot be
    overflowed with arrays that fit in memory and is exercised with the uint8 counts."""
    big = tier == "thorough"
    brle, rle = [], []
    k = 0
    for store, mx in NARROW.items():
        # a 65535-run split for int8 is a 1000-count encoding: keep the targets of uint16 data wide
        TG = ["uint16", "int64"] if store == "uint16" else TARGETS
        C = [0, 1, 2, 45, mx - 1, mx]
        elementwise = store != "uint16"
        encs = [list(e) for n in (1, 2, 3) for e in itertools.product(C, repeat=n)]
        encs += [list(e) for e in itertools.product((0, 45, mx), repeat=4)]
        if store == "int32" and not big:
            encs = encs[::3]
        for e in encs:
            k += 1
            runs = [[j % 2, e[j]] for j in range(len(e))]
            o = long_opts(runs, "uint8" if mx < 65535 else "uint16", elementwise and (big or len(e) <= 3), rs)
            o.update(store=store, dtypes=TG if big else sorted({TG[k % len(TG)], TG[(k + 1 + k // 4) % len(TG)]}))
            brle.append((e, o))
        pairs = [[[v, c] for v, c in zip(vs, cs)] for n in (1, 2) for vs in itertools.product((0, 1, 2), repeat=n)
                 for cs in itertools.product(C, repeat=n)]
        pairs += [[[v, c] for v, c in zip(vs, cs)] for vs in itertools.product((0, 1), repeat=3)
                  for cs in itertools.product((0, 45, mx), repeat=3)]
        if store == "int32" and not big:
            pairs = pairs[::3]
        for runs in pairs:
            k += 1
            o = long_opts(runs, "uint8" if mx < 65535 else "uint16", elementwise and (big or len(runs) <= 2 or k % 2 == 0), rs)
            o.update(store=store, dtypes=TG if big else sorted({TG[k % len(TG)], TG[(k + 1 + k // 4) % len(TG)]}))
            rle.append(([x for p in runs for x in p], o))
    return brle, rle


# ------------------------------------------------------------------ part 2: encoding trees
SHAPES = [(3,), (4,), (2, 2), (2, 3), (2, 2, 2), (1, 2, 3)]
RESHAPES = {1: [(1,), (1, 1), (1, 1, 1)], 3: [(3,)], 4: [(4,), (2, 2), (-1, 2)], 6: [(6,), (2, 3), (3, 2), (-1, 2), (1, 2, 3)],
            8: [(8,), (2, 4), (4, 2), (2, 2, 2), (-1, 2)]}
BASES = ["dense", "sparse", "rle", "brle"]


def ops_for(shape, reduced=False):
    """view operations applicable to an encoding of this shape; `reduced` keeps one representative
    of every kind (each single-axis flip, the all-axes flip, an involution and both 3-cycles,
    two reshapes, flat)"""
    nd = len(shape)
    size = int(np.prod(shape))
    ops = []
    for k in range(1, nd + 1):
        for ax in itertools.combinations(range(nd), k):
            if reduced and 1 < k < nd:
                continue
            ops.append({"op": "flip", "axes": list(ax), "form": "int" if k == 1 else "tuple"})
    if nd >= 2 and not reduced:
        ops.append({"op": "flip", "axes": [-1], "form": "int"})
    for p in itertools.permutations(range(nd)):
        if nd >= 2 and p != tuple(range(nd)):
            if reduced and p in ((1, 0, 2), (2, 1, 0)):
                continue
            ops.append({"op": "transpose", "perm": list(p)})
    targets = [t for t in RESHAPES[size] if t != tuple(shape)]
    for t in targets[:2] if reduced else targets:
        ops.append({"op": "reshape", "shape": list(t)})
    ops.append({"op": "flat"})
    return ops


def shape_after(shape, op):
    """shape of the view (input generation only: used to enumerate further ops and index arguments)"""
    z = np.zeros(shape, dtype=bool)
    if op["op"] == "flip":
        return tuple(shape)
    if op["op"] == "transpose":
        return z.transpose(op["perm"]).shape
    if op["op"] == "reshape":
        return z.reshape(op["shape"]).shape
    return (z.size,)


def chains_for(shape, depth, full_depth):
    """all chains up to `depth`; levels beyond `full_depth` use the reduced operation set throughout"""
    out = [((), tuple(shape))]
    for d in range(1, depth + 1):
        frontier = [((), tuple(shape))]
        for _ in range(d):
            nxt = []
            for ch, s in frontier:
                for o in ops_for(s, reduced=d > full_depth):
                    nxt.append((ch + (o,), shape_after(s, o)))
            frontier = nxt
        out += frontier
    return out


def apply_op(e, o):
    """`form` says how the argument is handed over (python int / tuple / list, numpy integer, numpy
    array); TLC never looks at it"""
    form = o.get("form", "tuple")
    if o["op"] == "flip":
        ax = o["axes"]
        if form == "int":
            return e.flip(ax[0])
        if form == "npint":
            return e.flip(np.int64(ax[0]))
        if form == "list":
            return e.flip(list(ax))
        if form == "array":
            return e.flip(np.array(ax, dtype=np.int64))
        return e.flip(tuple(ax))
    if o["op"] == "transpose":
        if form == "list":
            return e.transpose(list(o["perm"]))
        if form == "array":
            return e.transpose(np.array(o["perm"], dtype=np.int64))
        return e.transpose(tuple(o["perm"]))
    if o["op"] == "reshape":
        return e.reshape(list(o["shape"]) if form == "list" else tuple(o["shape"]))
    return e.flat


def vary_forms(chain, salt):
    """the same chain with other argument forms (numpy integer axis, list / array of axes, list /
    array permutation, negative axes), chosen by `salt`"""
    out = []
    for k, o in enumerate(chain):
        o = dict(o)
        r = (salt + 3 * k) % 6
        if o["op"] == "flip":
            if len(o["axes"]) == 1:
                o["form"] = ("npint", "list", "array", "int", "npint", "tuple")[r]
            else:
                o["form"] = ("list", "array", "tuple")[r % 3]
        elif o["op"] == "transpose":
            o["form"] = ("list", "array", "tuple")[r % 3]
            if r >= 3:
                o["perm"] = [a - len(o["perm"]) for a in o["perm"]]
        elif o["op"] == "reshape":
            o["form"] = ("list", "tuple")[r % 2]
        out.append(o)
    return tuple(out)


def make_base(enc, kind, arr):
    """calling conventions of tests/test_encoding.py"""
    if kind == "dense":
        return enc.DenseEncoding(arr.copy())
    if kind == "sparse":
        if arr.dtype == bool:
            return enc.SparseBinaryEncoding(np.column_stack(np.where(arr)), shape=arr.shape)
        return enc.SparseEncoding.from_dense(arr)
    flat = arr.reshape((-1,))
    if kind == "rle":
        e = enc.RunLengthEncoding.from_dense(flat, dtype=arr.dtype)
    else:
        e = enc.BinaryRunLengthEncoding.from_dense(flat)
    return e if arr.ndim == 1 else e.reshape(arr.shape)


def tree_of(e, Encoding):
    """class names of the expression tree, outermost first, and the permutations of its transposed
    nodes (used only to attribute rejections to a root cause, never for the verdict)"""
    out, perms = [], []
    for _ in range(12):
        out.append(type(e).__name__)
        if type(e).__name__ == "TransposedEncoding":
            perms.append([int(p) for p in e.perm])
        d = getattr(e, "_data", None)
        if not isinstance(d, Encoding):
            break
        e = d
    return out, perms


def do_read(reads, name, extra, f):
    q = dict(extra)
    q["r"] = name
    try:
        with time_limit("read." + name):
            q.update(f())
        q["exc"] = ""
    except SkipCall:
        return
    except Exception as ex:  # noqa
        q["exc"] = type(ex).__name__
    reads.append(q)


def idx_rows(x, nd):
    """sparse index array -> list of index tuples; a rank-1 result is read as 1-D indices"""
    a = np.asarray(x)
    if a.ndim == 1:
        if nd != 1 and a.size:
            raise ValueError("rank-1 index array for an N-d encoding")
        a = a.reshape((-1, 1)) if nd == 1 else a.reshape((0, nd))
    if a.ndim != 2:
        raise ValueError("index array rank")
    return [ints(row) for row in a]


DT_ARR = {"int64": np.int64, "int32": np.int32, "int8": np.int8, "uint8": np.uint8, "int16": np.int16}
INDEX_FORMS = ("list", "uint8", "int32", "uint64", "readonly", "fortran", "int8")


def index_arg(rows, nd, form):
    """the index rows handed to gather_nd in another container / dtype / memory layout"""
    a = np.array(rows, dtype=np.int64).reshape((-1, nd))
    if form == "list":
        return a.tolist()
    if form in ("uint8", "int32", "uint64", "int8"):
        return a.astype(form)
    if form == "readonly":
        a.flags.writeable = False
        return a
    if form == "fortran":
        return np.asfortranarray(a)
    return a


def arg_reads(R, e, vshape, allidx, rs):
    """index sets in other forms: python lists, other integer dtypes, read-only and Fortran-ordered
    arrays, unsorted with repetitions; rows outside the array; negative indices"""
    nd = len(vshape)
    size = len(allidx)
    for form in INDEX_FORMS:
        gl = [allidx[j] for j in rs.randint(0, size, size=4)] + [allidx[-1], allidx[0], allidx[-1]]
        do_read(R, "gather_nd", {"arg": gl, "form": form},
                lambda: {"v": ints(e.gather_nd(index_arg(gl, nd, form)))})
    # the argument must not be changed by the call
    gl = [allidx[j] for j in rs.randint(0, size, size=4)]
    keep = np.array(gl, dtype=np.int64).reshape((-1, nd))

    def unchanged():
        arg = keep.copy()
        v = ints(e.gather_nd(arg))
        if not np.array_equal(arg, keep):
            raise IndexArgumentChanged()
        return {"v": v}
    do_read(R, "gather_nd", {"arg": gl, "form": "kept"}, unchanged)
    ix = allidx[int(rs.randint(size))]
    do_read(R, "get_value", {"arg": [ix], "form": "list"}, lambda: {"v": [ints([e.get_value(list(ix))])[0]]})
    do_read(R, "get_value", {"arg": [ix], "form": "tuple"}, lambda: {"v": [ints([e.get_value(tuple(ix))])[0]]})
    if nd == 1 and hasattr(e, "gather"):
        fl = [allidx[j][0] for j in rs.randint(0, size, size=5)]
        do_read(R, "gather", {"arg": [[x] for x in fl], "form": "list"}, lambda: {"v": ints(e.gather(list(fl)))})
        do_read(R, "gather", {"arg": [[x] for x in fl], "form": "uint8"}, lambda: {"v": ints(e.gather(np.array(fl, dtype=np.uint8)))})
    # one row outside the array (on one axis: exactly the length, or beyond), among rows inside
    for a in range(nd):
        for beyond in (0, 3):
            rows = [list(allidx[j]) for j in rs.randint(0, size, size=3)]
            rows[int(rs.randint(3))][a] = vshape[a] + beyond
            do_read(R, "gather_oob", {"arg": rows},
                    lambda: {"v": ints(e.gather_nd(np.array(rows, dtype=np.int64).reshape((-1, nd))))})
    row = list(allidx[0])
    row[int(rs.randint(nd))] = -vshape[0] - 1 if nd == 1 else -max(vshape) - 1
    do_read(R, "gather_oob", {"arg": [row]}, lambda: {"v": ints(e.gather_nd(np.array([row], dtype=np.int64)))})
    # negative indices inside the range: numpy counts from the end
    for _ in range(2):
        rows = [list(allidx[j]) for j in rs.randint(0, size, size=3)]
        for r_ in rows:
            a = int(rs.randint(nd))
            r_[a] -= vshape[a]
        do_read(R, "gather_neg", {"arg": rows},
                lambda: {"v": ints(e.gather_nd(np.array(rows, dtype=np.int64).reshape((-1, nd))))})


class IndexArgumentChanged(Exception):
    pass


def gen_enc_cases(chunk):
    trimesh = import_trimesh()
    enc = trimesh.voxel.encoding
    out = []
    for item in chunk:
        kind, shape, data, chain, vshape, exh, salt = item[:7]
        mode = item[7] if len(item) > 7 else {}
        rs = np.random.RandomState((seed() * 7919 + salt) % (2 ** 31))
        arr = np.array(data, dtype=np.int64).reshape(shape)
        if max(data) <= 1 and min(data) >= 0:
            arr = arr.astype(bool)
        elif mode.get("adt"):
            arr = arr.astype(DT_ARR[mode["adt"]])      # the dtype the integer array is stored in
        rec = {"fn": "enc", "base": kind, "shape": list(shape), "data": list(data), "chain": list(chain),
               "vshape": list(vshape), "reads": [], "classes": [], "tree": [], "tperms": []}
        if mode:
            rec["mode"] = dict(mode)
        try:
            with time_limit("enc.build"):
                e = make_base(enc, kind, arr)
                rec["classes"].append(type(e).__name__)
                for o in chain:
                    e = apply_op(e, o)
                    rec["classes"].append(type(e).__name__)
            rec["exc"] = ""
            rec["tree"], rec["tperms"] = tree_of(e, enc.Encoding)
        except SkipCall:
            continue
        except Exception as ex:  # noqa
            rec["exc"] = type(ex).__name__
            out.append(rec)
            continue
        nd = len(vshape)
        size = int(np.prod(vshape))
        allidx = [list(t) for t in np.ndindex(*vshape)]
        R = rec["reads"]
        do_read(R, "dense", {}, lambda: (lambda d: {"shape": [int(s) for s in d.shape], "flat": ints(d)})(np.asarray(e.dense)))
        do_read(R, "shape", {}, lambda: {"v": [int(s) for s in e.shape]})
        if mode.get("args"):
            arg_reads(R, e, vshape, allidx, rs)
            out.append(rec)
            continue
        do_read(R, "ndims", {}, lambda: {"v": int(e.ndims)})
        do_read(R, "size", {}, lambda: {"v": ints([e.size])[0]})
        do_read(R, "sum", {}, lambda: {"v": ints([e.sum])[0]})
        do_read(R, "is_empty", {}, lambda: {"v": int(bool(e.is_empty))})
        do_read(R, "sparse_indices", {}, lambda: {"idx": idx_rows(e.sparse_indices, nd)})

        def sv():
            v = np.asarray(e.sparse_values)
            return {"v": ints(v), "vshape": [int(s) for s in v.shape]}
        do_read(R, "sparse_values", {}, sv)
        try:
            with time_limit("read.sparse_pairs"):
                pairs = {"r": "sparse_pairs", "idx": idx_rows(e.sparse_indices, nd), "v": ints(e.sparse_values), "exc": ""}
            R.append(pairs)
        except Exception:  # noqa  (each of the two reads reports its own exception above)
            pass
        # gathers: all positions in order / reversed, a repeated unsorted triple, a single index
        glists = [allidx, allidx[::-1], [allidx[j] for j in rs.randint(0, size, size=3)], [allidx[-1]]]
        if exh:
            glists = thin_triples([list(t) for m in (1, 2, 3) for t in itertools.product(allidx, repeat=m)], salt % 3)
        for gl in glists:
            do_read(R, "gather_nd", {"arg": gl},
                    lambda: {"v": ints(e.gather_nd(np.array(gl, dtype=np.int64).reshape((-1, nd))))})
        if nd == 1 and hasattr(e, "gather"):
            for k, gl in enumerate(glists if not exh else glists[::3]):
                flat = [g[0] for g in gl]
                form = "list" if k % 2 else "array"
                do_read(R, "gather", {"arg": gl, "form": form},
                        lambda: {"v": ints(e.gather(flat if form == "list" else np.array(flat, dtype=np.int64)))})
        do_read(R, "get_value", {"arg": allidx},
                lambda: {"v": [ints([e.get_value(np.array(ix, dtype=np.int64))])[0] for ix in allidx]})
        masks = [[1] * size, [int(x) for x in rs.randint(0, 2, size=size)], [(k + 1) % 2 for k in range(size)]]
        if exh and size <= 4:
            masks = [list(m) for m in itertools.product((0, 1), repeat=size)]
        for ml in masks:
            def mk():
                v = np.asarray(e.mask(np.array(ml, dtype=bool).reshape(vshape)))
                if v.ndim != 1:
                    raise ValueError("mask result rank")
                return {"v": ints(v)}
            do_read(R, "mask", {"arg": ml}, mk)

        def st():
            s, pad = e.stripped
            d = np.asarray(s.dense)
            pad = np.asarray(pad)
            if pad.ndim != 2 or pad.shape[1] != 2:
                raise ValueError("padding shape")
            return {"shape": [int(x) for x in d.shape], "flat": ints(d), "pad": [ints(p) for p in pad]}
        do_read(R, "stripped", {}, st)
        if nd == 1:
            for dn in ("uint8", "int64"):
                do_read(R, "rld", {"max": DTMAX[dn], "dtype": dn}, lambda: {"v": ints(e.run_length_data(dtype=DT[dn]))})
                if max(data) <= 1 and min(data) >= 0:
                    do_read(R, "brld", {"max": DTMAX[dn], "dtype": dn}, lambda: {"v": ints(e.binary_run_length_data(dtype=DT[dn]))})
        out.append(rec)
    return out


def random_chain(shape, depth, rs):
    """a random walk through the view operations (full operation set at every step)"""
    ch, cur = [], tuple(shape)
    for _ in range(depth):
        ops = ops_for(cur)
        o = ops[int(rs.randint(len(ops)))]
        ch.append(o)
        cur = shape_after(cur, o)
    return tuple(ch), cur


INT_VALUES = {"012": (0, 1, 2), "neg": (0, -1, 3), "negonly": (0, -1, -2)}


def encoding_work(tier):
    """quick: every chain of length <= 1 (all operations) over every array of up to 4 elements (every
    second / fourth array of the 6- / 8-element shapes at length 1), chains of length 2 over the
    reduced operation set with a rotating share of the arrays.  thorough: every chain of length <= 2
    over every array (every fourth array of the 8-element shape at length 2), length 3 reduced /
    rotating.  All-empty and all-full arrays meet every chain.
    Added by the audit: random chains of length 3 - 4 (thorough 4 - 5) over the full operation set,
    integer-valued arrays (values {0,1,2} and {0,-1,3}, stored as int64 / int32 / int8 / uint8) through
    chains of length <= 2 (thorough 3), the 1x1x1 array, and trees whose index arguments come in other
    forms (mode `args`)."""
    big = tier == "thorough"
    depth = 3 if big else 2
    full = 2 if big else 1
    sd = seed()
    work = []
    salt = 0
    for shape in SHAPES:
        size = int(np.prod(shape))
        chains = chains_for(shape, depth, full)
        arrays = list(itertools.product((0, 1), repeat=size))
        for ci, (chain, vshape) in enumerate(chains):
            # rotation: every chain meets >= 1/stride of the arrays, every array meets 1/stride of the chains
            if len(chain) <= full:
                if big:
                    stride = 4 if size == 8 and len(chain) == full else 1
                else:
                    stride = {8: 8, 6: 4 if len(shape) == 3 else 3}.get(size, 1) if len(chain) == full else (2 if size == 8 else 1)
            else:
                stride = {3: 2, 4: 5, 6: 10, 8: 40}[size] if big else {3: 1, 4: 5, 6: 12, 8: 48}[size]
            exh = len(chain) <= 1 and size <= 4
            for ai, data in enumerate(arrays):
                if (ai + ci + sd) % stride and 0 < sum(data) < size:
                    continue
                for kind in BASES:
                    salt += 1
                    work.append((kind, shape, data, chain, vshape, exh, salt))
    # the 1x1x1 array (and its views): both arrays, chains of length <= 1
    for chain, vshape in chains_for((1, 1, 1), 1, 1):
        for data in ((0,), (1,)):
            for kind in BASES:
                salt += 1
                work.append((kind, (1, 1, 1), data, chain, vshape, False, salt))
    # integer-valued arrays: dense / sparse / rle
    idepth = 3 if big else 2
    adts = ("int64", "int32", "int8", "uint8")
    for shape in [(3,), (2, 2), (1, 2, 2), (2, 3)]:
        size = int(np.prod(shape))
        arrays = [d for d in itertools.product((0, 1, 2), repeat=size) if max(d) == 2]
        for ci, (chain, vshape) in enumerate(chains_for(shape, idepth, 1)):
            if len(chain) <= 1:
                stride = (1 if size <= 4 else 6) if big else (1 if size <= 3 else 4 if size == 4 else 24)
            else:
                base = {3: 1, 4: 24, 6: 360}[size]
                stride = base if not big else (base // 2 or 1) if len(chain) == 2 else base * 2
            for ai, data in enumerate(arrays):
                if (ai + ci + sd) % stride:
                    continue
                vals = INT_VALUES["neg" if (ai + ci) % 3 == 0 else "negonly" if (ai + ci) % 6 == 1 else "012"]
                data = tuple(vals[x] for x in data)
                adt = adts[(ai + 2 * ci) % 4]
                if adt == "uint8" and min(data) < 0:
                    adt = "int8"
                for kind in ("dense", "sparse", "rle"):
                    salt += 1
                    work.append((kind, shape, data, vary_forms(chain, salt) if len(chain) > 1 else chain, vshape, False, salt,
                                 {"adt": adt}))
    # random deep chains over the full operation set
    rs = np.random.RandomState(sd + 4242)
    deep = [(3, 160), (4, 60)] if not big else [(3, 300), (4, 600), (5, 200)]
    dshapes = [(2, 2, 2), (1, 2, 3), (2, 3), (2, 2), (4,)]
    for d, n in deep:
        for k in range(n):
            shape = dshapes[k % len(dshapes)]
            size = int(np.prod(shape))
            chain, vshape = random_chain(shape, d, rs)
            for j in range(2):
                data = tuple(int(x) for x in rs.randint(0, 2, size=size))
                for kind in BASES:
                    salt += 1
                    work.append((kind, shape, data, vary_forms(chain, salt), vshape, False, salt))
            data = tuple(INT_VALUES["neg" if k % 2 else "012"][int(x)] for x in rs.randint(0, 3, size=size))
            if max(data) > 1 or min(data) < 0:
                for kind in ("dense", "sparse", "rle"):
                    salt += 1
                    work.append((kind, shape, data, chain, vshape, False, salt, {"adt": adts[k % 3]}))
    # index arguments in other forms, rows outside the array, negative indices
    for shape in SHAPES + [(1, 1, 1)]:
        size = int(np.prod(shape))
        chains = chains_for(shape, 1, 1)
        more = 16 if not big else 60
        chains += [random_chain(shape, 2 + (k % 2), rs) for k in range(more if len(shape) > 1 else more // 4)]
        for ci, (chain, vshape) in enumerate(chains):
            arrs = [tuple(int(x) for x in rs.randint(0, 2, size=size)) for _ in range(2 if not big else 4)]
            if ci % 4 == 0:
                arrs.append(tuple(INT_VALUES["012"][int(x)] for x in rs.randint(0, 3, size=size)))
            for data in arrs:
                for kind in BASES:
                    if kind == "brle" and max(data) > 1:
                        continue
                    salt += 1
                    work.append((kind, shape, data, vary_forms(chain, salt), vshape, False, salt, {"args": True}))
    return work


# ------------------------------------------------------------------ part 2b: 1-D encodings on stored data
def gen_enc1d_cases(chunk):
    """RunLengthEncoding / BinaryRunLengthEncoding built directly on run-length data stored in a given
    integer dtype (as binvox loading does), viewed through flip / reshape / flat; everything is
    recorded at run level (dense results as maximal runs)."""
    trimesh = import_trimesh()
    enc = trimesh.voxel.encoding
    out = []
    for kind, e, store, view, opts in chunk:
        data = np.array(e, dtype=DT[store])
        binary = kind == "brle" or max(e[::2], default=0) <= 1
        rec = {"fn": "enc1d", "kind": kind, "e": list(e), "store": store, "view": list(view), "reads": [],
               "classes": [], "tree": []}
        try:
            with time_limit("enc1d.build"):
                if kind == "rle":
                    x = enc.RunLengthEncoding(data, dtype=bool if binary else np.int64)
                else:
                    x = enc.BinaryRunLengthEncoding(data)
                rec["classes"].append(type(x).__name__)
                for o in view:
                    x = apply_op(x, o)
                    rec["classes"].append(type(x).__name__)
            rec["exc"] = ""
            rec["tree"], _ = tree_of(x, enc.Encoding)
        except SkipCall:
            continue
        except Exception as ex:  # noqa
            rec["exc"] = type(ex).__name__
            out.append(rec)
            continue
        shape = opts["shape"]
        nd = len(shape)
        R = rec["reads"]
        do_read(R, "dense", {}, lambda: (lambda d: {"shape": [int(v) for v in d.shape], "res": proj_dense(d.reshape(-1))})(np.asarray(x.dense)))
        do_read(R, "shape", {}, lambda: {"v": [int(v) for v in x.shape]})
        do_read(R, "size", {}, lambda: {"v": ints([x.size])[0]})
        do_read(R, "sum", {}, lambda: {"v": ints([x.sum])[0]})
        do_read(R, "is_empty", {}, lambda: {"v": int(bool(x.is_empty))})
        for gl in opts["idx"]:
            do_read(R, "gather_nd", {"arg": gl},
                    lambda: {"v": ints(x.gather_nd(np.array(gl, dtype=np.int64).reshape((-1, nd))))})
        do_read(R, "get_value", {"arg": opts["idx"][0][:4]},
                lambda: {"v": [ints([x.get_value(np.array(ix, dtype=np.int64))])[0] for ix in opts["idx"][0][:4]]})
        if nd == 1:
            if hasattr(x, "gather"):
                gl = opts["idx"][1]
                do_read(R, "gather", {"arg": gl, "form": "array"},
                        lambda: {"v": ints(x.gather(np.array([g[0] for g in gl], dtype=np.int64)))})

            def sp():
                idx = ints(x.sparse_indices)
                v = ints(x.sparse_values)
                return {"ni": len(idx), "nv": len(v), "tri": compress_sparse(idx, v)}
            do_read(R, "sparse", {}, sp)
            for mr in opts["masks"]:
                do_read(R, "mask", {"mr": mr}, lambda: {"res": proj_dense(np.asarray(x.mask(expand_runs(mr, bool))).astype(np.int64))})

            def st():
                t, pad = x.stripped
                return {"res": proj_dense(np.asarray(t.dense).reshape(-1)), "pad": [ints(p) for p in np.asarray(pad)]}
            do_read(R, "stripped", {}, st)
            for dn in opts["targets"]:
                do_read(R, "rld", {"max": DTMAX[dn], "dtype": dn}, lambda: {"v": ints(x.run_length_data(dtype=DT[dn]))})
                if binary:
                    do_read(R, "brld", {"max": DTMAX[dn], "dtype": dn}, lambda: {"v": ints(x.binary_run_length_data(dtype=DT[dn]))})
        out.append(rec)
    return out


def enc1d_work(tier):
    big = tier == "thorough"
    rs = np.random.RandomState(seed() + 211)
    work = []
    k = 0
    for store, mx in NARROW.items():
        C = [0, 2, 45, mx]
        TG = ["uint16", "int64"] if store == "uint16" else TARGETS
        kmax = 2 if store == "uint16" else 3
        items = []
        for n in range(1, kmax + 1):
            for e in itertools.product(C, repeat=n):
                items.append(("brle", list(e), [[j % 2, e[j]] for j in range(n)]))
        if kmax == 3:
            for e in itertools.product((0, 45, mx), repeat=4):
                items.append(("brle", list(e), [[j % 2, e[j]] for j in range(4)]))
        for n in (1, 2):
            for vs in itertools.product((0, 1, 2), repeat=n):
                for cs in itertools.product(C, repeat=n):
                    runs = [[v, c] for v, c in zip(vs, cs)]
                    items.append(("rle", [x for p in runs for x in p], runs))
        if kmax == 3:
            for vs in itertools.product((0, 1), repeat=3):
                for cs in itertools.product((0, 45, mx), repeat=3):
                    runs = [[v, c] for v, c in zip(vs, cs)]
                    items.append(("rle", [x for p in runs for x in p], runs))
        if store == "int32" and not big:
            items = items[::3]
        for kind, e, runs in items:
            n = sum(c for _, c in runs)
            if n == 0:
                continue                      # zero-length arrays are left unconstrained
            k += 1
            two = [2, n // 2] if n % 2 == 0 else [1, n]
            views = [[], [{"op": "flip", "axes": [0], "form": "int"}], [{"op": "flat"}],
                     [{"op": "reshape", "shape": two}], [{"op": "reshape", "shape": two}, {"op": "flat"}],
                     [{"op": "flip", "axes": [0], "form": "int"}, {"op": "reshape", "shape": two}]]
            pick = views if big else [views[0], views[1 + k % 5]]
            lo = long_opts(runs, "uint8" if mx < 65535 else "uint16", store != "uint16", rs)
            pts = long_points(runs)
            for view in pick:
                shape = [n]
                for o in view:
                    if o["op"] == "reshape":
                        shape = o["shape"]
                    elif o["op"] == "flat":
                        shape = [n]
                unr = lambda p: [p] if len(shape) == 1 else [p // shape[1], p % shape[1]]  # noqa
                sel = [pts[j] for j in rs.randint(0, len(pts), size=3)]
                opts = {"shape": shape, "idx": [[unr(p) for p in pts], [unr(p) for p in pts[::-1]], [unr(p) for p in sel], [unr(pts[-1])]],
                        "masks": lo.get("masks", [])[:2], "targets": TG if big else sorted({TG[k % len(TG)], "uint8" if store != "uint16" else "int64"})}
                work.append((kind, e, store, view, opts))
    return work


# ------------------------------------------------------------------ part 3: VoxelGrid
def snap(x, scale):
    """float array * scale -> python ints, residual test (machinery error if not on the lattice)"""
    a = np.asarray(x, dtype=np.float64) * scale
    r = np.round(a)
    if not np.all(np.abs(a - r) <= 1e-9 * np.maximum(1.0, np.abs(r))):
        raise ValueError("value off the quarter-integer lattice")
    return r.astype(np.int64)


def grid_transforms():
    """(name, 3x3 quarter-integer matrix * 4, translation * 4); all invertible"""
    out = []
    I = np.eye(3, dtype=np.int64)
    for s in (4, 2, 8, 1):
        out.append((f"uniform{s}", I * s, [0, 0, 0]))
        out.append((f"uniform{s}_t", I * s, [1, -6, 10]))
    out.append(("scale_xyz", np.diag([2, 4, 8]), [3, 0, -5]))
    out.append(("mirror_x", np.diag([-4, 4, 4]), [4, 0, 0]))
    out.append(("mirror_xyz", np.diag([-2, -4, -8]), [1, 2, 3]))
    out.append(("mirror_xy", np.diag([-4, -4, 4]), [0, 2, 0]))
    for perm in itertools.permutations(range(3)):
        for signs in ((1, 1, 1), (-1, 1, 1), (1, -1, -1)):
            M = np.zeros((3, 3), dtype=np.int64)
            for r, c in enumerate(perm):
                M[r, c] = 4 * signs[r]
            out.append((f"sperm{perm}{signs}", M, [2, -3, 1]))
    out.append(("shear", np.array([[4, 4, 0], [0, 4, 8], [0, 0, 4]]), [0, 1, 0]))
    out.append(("shear_scale", np.array([[2, 1, 0], [0, 4, -2], [3, 0, 8]]), [5, 5, 5]))
    out.append(("general", np.array([[4, -4, 2], [2, 4, 0], [0, 1, 4]]), [-1, 0, 7]))
    # rotations by the 3-4-5 angle (times 5/4, so that 4 M is an integer matrix), alone, composed,
    # combined with a non-uniform scale and with a mirror; strongly non-uniform scales
    RZ, RX = np.array(ROT_Z5), np.array(ROT_X5)
    out.append(("rot345z", RZ, [0, 0, 0]))
    out.append(("rot345x_t", RX, [3, -2, 9]))
    out.append(("rot345zx", RZ @ RX, [1, 1, -4]))
    out.append(("rot345z_scale124", RZ @ np.diag([1, 2, 4]), [0, 6, 1]))
    out.append(("scale124_rot345z", np.diag([1, 2, 4]) @ RZ, [2, 0, 0]))
    out.append(("rot345z_mirror_x", RZ @ np.diag([-1, 1, 1]), [-5, 0, 2]))
    out.append(("scale_1_4_28", np.diag([1, 4, 28]), [0, 0, 0]))
    out.append(("scale_1_m4_28", np.diag([1, -4, 28]), [7, 7, 7]))
    return out


ROT_Z5 = [[3, -4, 0], [4, 3, 0], [0, 0, 5]]          # 5 x rotation about z by atan2(4, 3)
ROT_X5 = [[5, 0, 0], [0, 3, -4], [0, 4, 3]]
# steps that edit the transform of an existing grid in place: integer matrices, quarter translations
HIST_STEPS = [
    {"op": "apply_transform", "Mi": [[0, -1, 0], [1, 0, 0], [0, 0, 1]], "t4": [0, 0, 0]},
    {"op": "apply_transform", "Mi": ROT_Z5, "t4": [4, -8, 2]},
    {"op": "apply_transform", "Mi": [[-1, 0, 0], [0, 1, 0], [0, 0, 1]], "t4": [1, 0, 0]},
    {"op": "apply_transform", "Mi": [[1, 0, 0], [0, 2, 0], [0, 0, 3]], "t4": [0, 2, -6]},
    {"op": "apply_transform", "Mi": [[1, 1, 0], [0, 1, 0], [0, 0, 1]], "t4": [0, 0, 5]},
    {"op": "apply_scale", "s": 2},
    {"op": "apply_scale", "s": 3},
    {"op": "apply_translation", "t4": [6, -1, 3]},
    {"op": "set", "M4": [[8, 0, 0], [0, 8, 0], [0, 0, 8]], "t4": [4, 4, 4]},
    {"op": "set", "M4": ROT_X5, "t4": [0, -3, 0]},
]
AXIS_STEPS = [HIST_STEPS[2], HIST_STEPS[5], HIST_STEPS[6], HIST_STEPS[7],
              {"op": "apply_transform", "Mi": [[1, 0, 0], [0, -1, 0], [0, 0, -1]], "t4": [0, 8, 0]}]
HIST_READS = ["points", "volume", "points_to_indices", "is_filled", "bounds", "element_volume", "scale",
              "filled_count", "sparse_indices"]


def effective(M4, t4, hist):
    """input selection only (keeps the numbers inside TLC's integers); the specification composes
    the history itself"""
    M, t = np.array(M4, dtype=np.int64), np.array(t4, dtype=np.int64)
    for h in hist:
        if h["op"] == "set":
            M, t = np.array(h["M4"], dtype=np.int64), np.array(h["t4"], dtype=np.int64)
            continue
        Mi = np.array(h["Mi"]) if h["op"] == "apply_transform" else np.eye(3, dtype=np.int64) * h.get("s", 1)
        M = Mi @ M
        t = Mi @ t + (np.array(h["t4"]) if "t4" in h else 0)
    return M, t


def pick_hist(rs, M4, t4):
    for _ in range(20):
        hist = [dict(HIST_STEPS[j]) for j in rs.randint(0, len(HIST_STEPS), size=int(rs.randint(1, 4)))]
        M, t = effective(M4, t4, hist)
        if np.abs(M).max() <= 300 and np.abs(t).max() <= 3000 and abs(round(np.linalg.det(M))) * 12 < 10 ** 8:
            return hist
    return [dict(HIST_STEPS[5])]


def touch(g, name):
    """read something (fills the caches of the grid and of its Transform) before the next edit"""
    try:
        if name == "points_to_indices":
            g.points_to_indices(np.zeros((2, 3)))
        elif name == "is_filled":
            g.is_filled(np.zeros((2, 3)))
        else:
            getattr(g, name)
    except Exception:  # noqa  (scale raises for rotated grids, bounds for empty ones)
        pass


def run_hist(g, hist, reads):
    for h in hist:
        for r in reads:
            touch(g, r)
        if h["op"] == "apply_transform":
            T = np.eye(4)
            T[:3, :3] = np.array(h["Mi"], dtype=np.float64)
            T[:3, 3] = np.array(h["t4"], dtype=np.float64) / 4.0
            g.apply_transform(T)
        elif h["op"] == "apply_scale":
            g.apply_scale(h["s"])
        elif h["op"] == "apply_translation":
            g.apply_translation(np.array(h["t4"], dtype=np.float64) / 4.0)
        else:
            g.transform = mat4(h["M4"], h["t4"])
    return g


class NonFiniteTransform(Exception):
    pass


def finite(T):
    T = np.asarray(T, dtype=np.float64)
    if not np.all(np.isfinite(T)):
        raise NonFiniteTransform()
    return T


def mat4(M4, t4):
    T = np.eye(4)
    T[:3, :3] = np.asarray(M4, dtype=np.float64) / 4.0
    T[:3, 3] = np.asarray(t4, dtype=np.float64) / 4.0
    return T


def gen_grid_cases(chunk):
    trimesh = import_trimesh()
    voxel = trimesh.voxel
    enc = voxel.encoding
    ops = voxel.ops
    out = []

    def add(rec, f):
        try:
            with time_limit(rec["fn"]):
                rec.update(f())
            rec["exc"] = ""
        except SkipCall:
            return
        except Exception as ex:  # noqa
            rec["exc"] = type(ex).__name__
        out.append(rec)

    for item in chunk:
        what = item[0]
        if what == "maps":
            _, name, M4, t4, shape, data = item[:6]
            extra = item[6] if len(item) > 6 else {}
            kind, hist, reads = extra.get("base", "dense"), extra.get("hist"), extra.get("reads", [])
            arr = np.array(data, dtype=bool).reshape(shape)
            M4l, t4l = [ints(r) for r in M4], ints(t4)
            idx = [list(t) for t in np.ndindex(*shape)] + [[-1, 0, 0], [0, shape[1], 0], [1, 1, shape[2] + 2]]
            base = {"fn": "grid_maps", "tf": name, "M4": M4l, "t4": t4l, "shape": list(shape), "data": list(data), "idx": idx,
                    "base": kind}
            if hist is not None:
                base.update(hist=hist, reads_before=reads)

            def maps():
                g = voxel.VoxelGrid(make_base(enc, kind, arr), transform=mat4(M4, t4))
                if hist is not None:
                    run_hist(g, hist, reads)
                ia = np.array(idx, dtype=np.int64)
                pts = g.indices_to_points(ia)
                back = g.points_to_indices(pts)
                filled = g.is_filled(pts)
                r = {"pts4": [ints(p) for p in snap(pts, 4)], "back": [ints(b) for b in back],
                     "filled": ints(filled), "points4": [ints(p) for p in snap(g.points, 4)], "via": "VoxelGrid"}
                return r
            add(dict(base), maps)
            diag = np.array(M4)
            if hist is None and diag[0, 0] > 0 and np.array_equal(diag, np.eye(3, dtype=np.int64) * diag[0, 0]):
                # the free functions of voxel.ops take a scalar pitch and an origin
                def opsmaps():
                    ia = np.array(idx, dtype=np.int64)
                    pitch, origin = diag[0, 0] / 4.0, np.array(t4, dtype=np.float64) / 4.0
                    pts = ops.indices_to_points(ia, pitch=pitch, origin=origin)
                    back = ops.points_to_indices(pts, pitch=pitch, origin=origin)
                    mp = ops.matrix_to_points(arr, pitch=pitch, origin=origin)
                    return {"pts4": [ints(p) for p in snap(pts, 4)], "back": [ints(b) for b in back],
                            "points4": [ints(p) for p in snap(mp, 4)], "via": "ops"}
                add(dict(base), opsmaps)
        elif what == "volume":
            _, name, M4, t4, shape, data, kind = item[:7]
            extra = item[7] if len(item) > 7 else {}
            hist, reads = extra.get("hist"), extra.get("reads", [])
            arr = np.array(data, dtype=bool).reshape(shape)
            base = {"fn": "grid_volume", "tf": name, "M4": [ints(r) for r in M4], "t4": ints(t4), "shape": list(shape),
                    "data": list(data), "base": kind}
            if hist is not None:
                base.update(hist=hist, reads_before=reads)

            def vol():
                g = voxel.VoxelGrid(make_base(enc, kind, arr), transform=mat4(M4, t4))
                if hist is not None:
                    run_hist(g, hist, reads)
                return {"count": int(g.filled_count), "vol64": int(snap([g.volume], 64)[0])}
            add(base, vol)
        elif what == "off":
            # points inside the cells (not at their centres), in the three shapes VoxelGrid accepts
            _, name, M4, t4, shape, data, kind, d16, pform, extra = item
            hist, reads = extra.get("hist"), extra.get("reads", [])
            arr = np.array(data, dtype=bool).reshape(shape)
            idx = [list(t) for t in np.ndindex(*shape)] + [[-1, 0, 0], [0, shape[1], 0], [1, 1, shape[2] + 2], [-2, -1, -1]]
            if pform == "single":
                idx = [idx[extra.get("pick", 0) % len(idx)]]
            elif pform == "block":
                idx = idx[:2 * (len(idx) // 2)]
            d16l = [list(d16[k % len(d16)]) for k in range(len(idx))]
            base = {"fn": "grid_off", "tf": name, "M4": [ints(r) for r in M4], "t4": ints(t4), "shape": list(shape),
                    "data": list(data), "base": kind, "idx": idx, "d16": d16l, "pform": pform}
            if hist is not None:
                base.update(hist=hist, reads_before=reads)

            def off():
                g = voxel.VoxelGrid(make_base(enc, kind, arr), transform=mat4(M4, t4))
                if hist is not None:
                    run_hist(g, hist, reads)
                # the point M (idx + d) + t, from the matrix the grid reports (so that the history is
                # not evaluated here); TLC checks that it is the point the specification means
                T = np.array(g.transform, dtype=np.float64)
                q = np.array(idx, dtype=np.float64) + np.array(d16l, dtype=np.float64) / 16.0
                pts = q @ T[:3, :3].T + T[:3, 3]
                if pform == "single":
                    pin = pts[0]
                elif pform == "block":
                    pin = pts.reshape((2, -1, 3))
                else:
                    pin = pts
                back = np.asarray(g.points_to_indices(pin))
                filled = np.asarray(g.is_filled(pin))
                return {"pts64": [ints(p) for p in snap(pts, 64)], "pshape": [int(v) for v in pin.shape],
                        "bshape": [int(v) for v in back.shape], "back": [ints(b) for b in back.reshape((-1, 3))],
                        "fshape": [int(v) for v in filled.shape], "filled": ints(filled.reshape(-1))}
            add(base, off)
        elif what == "strip":
            # VoxelGrid.strip(): the encoding is cut to the bounding box of the filled cells and the
            # translation moves with it, so that every filled cell stays where it was
            _, name, M4, t4, shape, data, kind = item
            arr = np.array(data, dtype=bool).reshape(shape)
            base = {"fn": "grid_strip", "tf": name, "M4": [ints(r) for r in M4], "t4": ints(t4), "shape": list(shape),
                    "data": list(data), "base": kind}

            def strip():
                g = voxel.VoxelGrid(make_base(enc, kind, arr), transform=mat4(M4, t4))
                touch(g, "points")
                g2 = g.strip()
                T = finite(g.transform)
                d = np.asarray(g.matrix)
                return {"same_object": int(g2 is g), "rshape": [int(v) for v in d.shape], "rflat": ints(d),
                        "rM4": [ints(row) for row in snap(T[:3, :3], 4)], "rt4": ints(snap(T[:3, 3], 4)),
                        "points4": [ints(q) for q in snap(g.points, 4)]}
            add(base, strip)
        elif what == "ops_maps":
            _, pitch4, origin4, shape = item
            idx = [list(t) for t in np.ndindex(*shape)] + [[-1, 0, 0], [0, shape[1], 0]]
            base = {"fn": "ops_maps", "has_pitch": int(pitch4 is not None), "has_origin": int(origin4 is not None),
                    "pitch4": pitch4 or 0, "origin4": list(origin4) if origin4 is not None else [0, 0, 0], "idx": idx}

            def opsm():
                kw = {}
                if pitch4 is not None:
                    kw["pitch"] = pitch4 / 4.0
                if origin4 is not None:
                    kw["origin"] = np.array(origin4, dtype=np.float64) / 4.0
                pts = ops.indices_to_points(np.array(idx, dtype=np.int64), **kw)
                back = ops.points_to_indices(pts, **kw)
                return {"pts4": [ints(p) for p in snap(pts, 4)], "back": [ints(b) for b in back]}
            add(base, opsm)
        elif what == "ops_strip":
            _, shape, data = item
            arr = np.array(data, dtype=bool).reshape(shape)
            base = {"fn": "ops_strip_array", "shape": list(shape), "data": list(data)}

            def opss():
                st, _pad = ops.strip_array(arr)
                st = np.asarray(st)
                return {"rshape": [int(v) for v in st.shape], "rflat": ints(st)}
            add(base, opss)
        elif what == "reload":
            _, shape, dr, L4, t4, order = item
            arr = expand_runs(dr, bool).reshape(shape)
            M4 = np.diag([L4 // (n - 1) for n in shape])
            base = {"fn": "grid_reload", "shape": list(shape), "dr": dr, "M4": [ints(r) for r in M4], "t4": list(t4),
                    "axis_order": order}

            def reload():
                g = voxel.VoxelGrid(enc.DenseEncoding(arr.copy()), transform=mat4(M4, t4))
                g2 = trimesh.exchange.binvox.load_binvox(io.BytesIO(g.export(file_type="binvox", axis_order=order)),
                                                         axis_order=order)
                centres = g.indices_to_points(np.array(list(np.ndindex(*shape)), dtype=np.int64))
                r = {"rshape2": [int(v) for v in g2.shape], "m2": proj_dense(np.asarray(g2.matrix).reshape(-1)),
                     "count2": int(g2.filled_count), "filled2": proj_dense(np.asarray(g2.is_filled(centres)).reshape(-1))}
                g3 = trimesh.exchange.binvox.load_binvox(io.BytesIO(g2.export(file_type="binvox", axis_order=order)),
                                                         axis_order=order)
                T = np.asarray(g3.transform)
                r.update({"rshape3": [int(v) for v in g3.shape], "m3": proj_dense(np.asarray(g3.matrix).reshape(-1)),
                          "rM4": [ints(row) for row in snap(T[:3, :3], 4)], "rt4": ints(snap(T[:3, 3], 4))})
                return r
            add(base, reload)
        elif what == "binvox_far":
            # a finely pitched grid far from the origin: pitch = 1 / den, origin = o / den with |o| up to
            # 2^30, i.e. an origin-to-pitch ratio (and values) no single precision number can hold; the
            # reloaded grid is judged through its own index <-> point maps at the ORIGINAL cell centres
            _, shape, data, kind, den, o, signs, order = item
            arr = np.array(data, dtype=bool).reshape(shape)
            idx = [list(t) for t in np.ndindex(*shape)]
            base = {"fn": "grid_binvox_far", "shape": list(shape), "data": list(data), "base": kind, "den": den,
                    "o": list(o), "signs": list(signs), "axis_order": order, "idx": idx}

            def far():
                pitch = 1.0 / den
                T = np.eye(4)
                T[:3, :3] = np.diag(np.array(signs, dtype=np.float64) * pitch)
                T[:3, 3] = np.array(o, dtype=np.float64) / den
                g = voxel.VoxelGrid(make_base(enc, kind, arr), transform=T)
                g2 = trimesh.exchange.binvox.load_binvox(io.BytesIO(g.export(file_type="binvox", axis_order=order)),
                                                         axis_order=order)
                finite(g2.transform)
                ia = np.array(idx, dtype=np.int64)
                centres = g.indices_to_points(ia)
                # where the reloaded grid puts the centres of the cells the original grid had there, in
                # sixteenths of a cell relative to the origin (a change of frame; o / den is exact or
                # within 1e-8 of a cell in doubles)
                i0 = np.asarray(g2.points_to_indices(centres[:1]))[0]
                back = np.asarray(g2.points_to_indices(centres))
                # (a mirrored grid is re-oriented by the exporter: its cells are looked up through `back`)
                at = back if min(signs) < 0 else ia
                rel = (np.asarray(g2.indices_to_points(at)) * den - np.array(o, dtype=np.float64)) * 16.0
                r16 = np.round(rel)
                onlat = bool(np.all(np.abs(rel - r16) <= 1e-3))
                return {"rshape": [int(v) for v in g2.shape], "rfilled": [ints(row) for row in np.argwhere(np.asarray(g2.matrix))],
                        "back": [ints(b) for b in back], "rel16": [ints(r) for r in r16], "onlat": int(onlat),
                        "filled2": ints(np.asarray(g2.is_filled(centres)).reshape(-1)), "first": ints(i0)}
            add(base, far)
        elif what == "binvox_points":
            _, shape, data, kind, M4, t4, order = item[:7]
            extra = item[7] if len(item) > 7 else {}
            hist, reads = extra.get("hist"), extra.get("reads", [])
            arr = np.array(data, dtype=bool).reshape(shape)
            base = {"fn": "grid_binvox_points", "shape": list(shape), "data": list(data), "base": kind,
                    "M4": [ints(r) for r in M4], "t4": list(t4), "axis_order": order}
            if hist is not None:
                base.update(hist=hist, reads_before=reads)

            def rtp():
                g = voxel.VoxelGrid(make_base(enc, kind, arr), transform=mat4(M4, t4))
                if hist is not None:
                    run_hist(g, hist, reads)
                g2 = trimesh.exchange.binvox.load_binvox(io.BytesIO(g.export(file_type="binvox", axis_order=order)),
                                                         axis_order=order)
                pts = g2.indices_to_points(np.argwhere(np.asarray(g2.matrix)))
                return {"rshape": [int(s) for s in g2.shape], "rpoints4": [ints(p) for p in snap(pts, 4)]}
            add(base, rtp)
        else:
            _, shape, data, kind, L4, t4, order = item
            arr = np.array(data, dtype=bool).reshape(shape)
            # binvox stores one scalar edge length: pitch_a * (n_a - 1) must be the same on every axis
            M4 = np.diag([L4 // max(s - 1, 1) for s in shape])
            base = {"fn": "grid_binvox", "shape": list(shape), "data": list(data), "base": kind,
                    "M4": [ints(r) for r in M4], "t4": list(t4), "axis_order": order}

            def rt():
                g = voxel.VoxelGrid(make_base(enc, kind, arr), transform=mat4(M4, t4))
                blob = g.export(file_type="binvox", axis_order=order)
                g2 = trimesh.exchange.binvox.load_binvox(io.BytesIO(blob), axis_order=order)
                T = finite(g2.transform)
                r = {"rshape": [int(s) for s in g2.shape],
                     "rfilled": [ints(row) for row in np.argwhere(np.asarray(g2.matrix))],
                     "rM4": [ints(row) for row in snap(T[:3, :3], 4)], "rt4": ints(snap(T[:3, 3], 4))}
                return r
            add(base, rt)

            def rt_sparse():
                g = voxel.VoxelGrid(make_base(enc, kind, arr), transform=mat4(M4, t4))
                g2 = trimesh.exchange.binvox.load_binvox(io.BytesIO(g.export(file_type="binvox", axis_order=order)),
                                                         axis_order=order)
                T = finite(g2.transform)
                return {"rshape": [int(s) for s in g2.shape], "rfilled": idx_rows(g2.sparse_indices, 3),
                        "rM4": [ints(row) for row in snap(T[:3, :3], 4)], "rt4": ints(snap(T[:3, 3], 4))}
            add(dict(base, via="sparse_indices"), rt_sparse)
    return out


D16 = [[(4, -4, 7), (-7, 7, 0), (0, 0, 0), (7, 7, 7), (-7, -7, -7)],
       [(7, 0, 0), (0, -7, 0), (0, 0, 7), (-4, 4, -4)],
       [(-7, -7, 7), (1, 0, -1), (7, -7, -7)]]
PFORMS = ("rows", "single", "block")
UNIT_AXIS_BINVOX = (((1, 1, 1), (4, 8, 2)), ((1, 2, 2), (4, 8)), ((2, 1, 2), (8,)), ((2, 2, 1), (4,)),
                    ((1, 1, 3), (8,)), ((3, 1, 1), (8,)))


def grid_work(tier):
    big = tier == "thorough"
    rs = np.random.RandomState(seed() + 77)
    work = []
    tfs = grid_transforms()
    shapes = [(2, 2, 2), (1, 2, 3), (3, 1, 2), (1, 1, 1)]
    for ti, (name, M4, t4) in enumerate(tfs):
        for si, shape in enumerate(shapes):
            size = int(np.prod(shape))
            arrays = list(itertools.product((0, 1), repeat=size))
            pick = arrays if big or size == 1 else [arrays[j] for j in sorted(set(rs.randint(0, len(arrays), size=6).tolist()) | {0, len(arrays) - 1})]
            for di, data in enumerate(pick):
                kind = BASES[(ti + di) % 4]
                work.append(("maps", name, M4, t4, shape, data, {"base": kind}))
                for vk in (BASES if big else [BASES[(ti + sum(data)) % 4]]):
                    work.append(("volume", name, M4, t4, shape, data, vk))
                # points inside the cells, not at their centres
                if di % 2 == 0 or (big and di % 8 < 4):
                    work.append(("off", name, M4, t4, shape, data, BASES[(ti + di + 1) % 4], D16[(ti + di) % len(D16)],
                                 PFORMS[(ti + di + si) % 3], {"pick": di + ti}))
                # the transform edited in place after construction (with and without reads in between)
                if di % 3 == 0 or (big and di % 8 == 1):
                    ex = {"base": kind, "hist": pick_hist(rs, M4, t4), "reads": HIST_READS if (ti + di) % 2 == 0 else []}
                    work.append(("maps", name, M4, t4, shape, data, ex))
                    work.append(("volume", name, M4, t4, shape, data, BASES[(ti + di + 2) % 4], ex))
                    work.append(("off", name, M4, t4, shape, data, BASES[(ti + di + 3) % 4], D16[(ti + di + 1) % len(D16)],
                                 PFORMS[(ti + di) % 3], dict(ex, pick=di)))
    # VoxelGrid.strip()
    for ti, (name, M4, t4) in enumerate(tfs):
        for shape in ((2, 2, 2), (3, 1, 2), (4, 3, 2)):
            size = int(np.prod(shape))
            for k in range(24 if big else 3):
                data = tuple(int(x) for x in (rs.randint(0, 3, size=size) == 0))
                if any(data):
                    work.append(("strip", name, M4, t4, shape, data, BASES[(ti + k) % 4]))
    # voxel.ops: pitch and origin are optional
    for pitch4 in (None, 4, 2, 10):
        for origin4 in (None, [0, 0, 0], [3, -6, 1]):
            for shape in ((2, 2, 2), (1, 2, 3)):
                work.append(("ops_maps", pitch4, origin4, shape))
    # ("ops_strip" items - voxel.ops.strip_array, which drops the last filled plane of every axis - are
    # not enumerated: the function works on a bare ndarray, not on an encoding, and nothing in trimesh
    # calls it; the statement does not reach it.  OkOpsStrip / the handler above are kept for probes.)
    for shape, L4s in (((2, 2, 2), (4, 8, 2)), ((2, 3, 2), (8, 4)), ((3, 2, 3), (8,)), ((3, 3, 3), (8,))) + UNIT_AXIS_BINVOX:
        size = int(np.prod(shape))
        if size <= 8:
            arrays = list(itertools.product((0, 1), repeat=size))
        else:
            arrays = [tuple(int(x) for x in rs.randint(0, 2, size=size)) for _ in range(2000 if big else 120)]
            arrays += [tuple([0] * size), tuple([1] * size)]
        for ai, data in enumerate(arrays):
            for order in ("xzy", "xyz"):
                L4 = L4s[ai % len(L4s)]
                kinds = BASES if (big or size <= 8 and ai % 4 == 0) else [BASES[ai % 4]]
                for kind in kinds:
                    work.append(("binvox", shape, data, kind, L4, [4, -2, 9] if ai % 2 else [0, 0, 0], order))
    # grids of more than 255 cells exported, loaded (uint8 run-length data, runs split at 255) and
    # exported again: runs and totals beyond the stored count dtype
    for shape in ((8, 8, 8), (7, 7, 7)) + (((3, 9, 11), (16, 8, 5)) if big else ()):
        size = int(np.prod(shape))
        slab = shape[1] * shape[2]
        descr = [[[0, size]], [[1, size]], [[0, 300], [1, size - 300]], [[1, 300], [0, size - 300]],
                 [[0, 255], [1, 45], [0, size - 300]], [[1, 255], [0, 1], [1, size - 256]],
                 [[0, 256], [1, size - 256]], [[0, slab * 4], [1, 3], [0, size - slab * 4 - 3]],
                 [[1, slab * 4 + 1], [0, size - slab * 4 - 1]], [[0, size - 1], [1, 1]], [[1, 1], [0, size - 1]],
                 [[0, 254], [1, 1], [0, 255], [1, size - 510]]]
        for di, dr in enumerate(d for d in descr if all(c >= 0 for _, c in d)):
            for order in ("xzy", "xyz"):
                L4 = 4 * int(np.lcm.reduce([n - 1 for n in shape]))
                work.append(("reload", shape, dr, L4, [4, -2, 9] if di % 2 else [0, 0, 0], order))
    # mirrored grids (negative scale on some axes): world positions of the filled cells must survive;
    # cubic and non-cubic shapes, every base encoding
    k = 0
    for shape, L4 in (((2, 2, 2), 4), ((2, 3, 2), 8), ((3, 2, 3), 8), ((1, 2, 2), 4)):
        size = int(np.prod(shape))
        if size <= 8:
            arrays = list(itertools.product((0, 1), repeat=size))
            arrays = arrays if big else arrays[seed() % 4::4]
        else:
            arrays = [tuple(int(x) for x in rs.randint(0, 2, size=size)) for _ in range(200 if big else 24)]
        for ai, data in enumerate(arrays):
            for signs in ((-1, 1, 1), (1, -1, -1), (-1, -1, -1), (1, 1, 1)):
                k += 1
                M4 = np.diag([x * (L4 // max(n - 1, 1)) for x, n in zip(signs, shape)])
                work.append(("binvox_points", shape, data, "dense" if shape == (2, 2, 2) else BASES[k % 4], M4, [4, 0, -8],
                             ("xzy", "xyz")[(ai + k // 4) % 2]))
                if k % 3 == 0:
                    # exported after the transform was edited in place (axis-aligned edits that keep
                    # pitch * (n - 1) equal on all axes), with reads in between
                    hist = [dict(AXIS_STEPS[j]) for j in rs.randint(0, len(AXIS_STEPS), size=int(rs.randint(1, 3)))]
                    work.append(("binvox_points", shape, data, BASES[(k // 3) % 4], M4, [4, 0, -8], ("xzy", "xyz")[k % 2],
                                 {"hist": hist, "reads": HIST_READS if k % 2 else []}))
    # finely pitched grids far from the origin (millimetre cells at survey-like coordinates): binary and
    # decimal pitches, origins of 2^25 .. 2^30 cells (odd multiples of the pitch on some axis)
    k = 0
    for shape in ((2, 2, 2), (3, 3, 3), (5, 5, 5)):
        size = int(np.prod(shape))
        for den in (1024, 1000, 8, 100):
            for mag in (25, 27, 30):
                for _ in range(12 if big else 2):
                    k += 1
                    data = tuple(int(x) for x in rs.randint(0, 2, size=size))
                    lo, hi = 2 ** (mag - 1), 2 ** mag - 64
                    o = [int(rs.randint(lo, hi)) | 1, -(int(rs.randint(lo, hi)) | 1), int(rs.randint(0, 2 ** 20))]
                    o = o[k % 3:] + o[:k % 3]
                    signs = ((1, 1, 1), (1, 1, 1), (-1, 1, 1), (1, -1, -1))[k % 4]
                    work.append(("binvox_far", shape, data, BASES[k % 4], den, o, signs, ("xzy", "xyz")[k % 2]))
    return work


# ------------------------------------------------------------------ attribution of rejections
# Every deviation below is a root cause found in the unchanged tree (reproducers in the builder's
# report).  A deviation is named by a predicate on the input (kind of base encoding, classes of the
# expression tree, data pattern) and the method, plus the outcome the root cause predicts where
# that is cheap to state.  The functions return the *candidate* deviations of a rejection, most
# specific first; a rejection with no candidate is a plain violation.  The verdict (reject or not)
# never depends on anything computed here.
LAZY = ("FlattenedEncoding", "ShapedEncoding", "TransposedEncoding", "FlippedEncoding")
RL = ("RunLengthEncoding", "BinaryRunLengthEncoding")
DEVIATIONS = {
    "NarrowCountMergeOverflow": "merge_rle_lengths / merge_brle_lengths add counts as numpy scalars of the stored dtype: "
                                "runs of one value split at 255 wrap around when merged (rle_to_rle, brle_to_brle, "
                                "brle_to_rle, run_length_data, re-export of a loaded binvox)",
    "NarrowCountRleToBrleOverflow": "rle_to_brle adds counts of equal neighbouring values in the stored dtype",
    "NarrowCountGatherOverflow": "sorted_rle_gather_1d / sorted_brle_gather_1d accumulate the run start in the stored dtype: "
                                 "gathers (and VoxelGrid.is_filled) past index 255 of uint8 data raise IndexError or are wrong",
    "NarrowCountStripOverflow": "rle_strip / brle_strip sum the stripped zero runs in the stored dtype (wrong padding)",
    "NarrowSplitRleFloorDiv": "split_long_rle_lengths divides narrow lengths by a maximum that does not fit their dtype "
                              "(OverflowError under numpy 2)",
    "RleSumNarrowProduct": "RunLengthEncoding.sum multiplies value and count in the stored dtype before summing",
    "BrleReverseEvenLength": "runlength.brle_reverse returns an empty encoding when the input has even length or ends "
                             "with a zero count (so BinaryRunLengthEncoding.flip empties any data ending in True)",
    "BrleToSparseNoTrueRun": "runlength.brle_to_sparse raises ValueError when the encoding has no True-run slot "
                             "(all-False data), so BinaryRunLengthEncoding.sparse_indices raises on empty data",
    "BrleToDenseIgnoresVals": "runlength.brle_to_dense ignores its documented `vals` substitution argument",
    "GatherListIndicesNumpy2": "rle/brle_gather_1d (and RunLengthEncoding.gather) with a list of indices raise "
                               "ValueError under numpy 2 (np.array(indices, copy=False))",
    "DenseSparseValues": "DenseEncoding.sparse_values gathers with the (m, ndims) index array along axis 0 "
                         "(gather instead of gather_nd): wrong shape/values or IndexError",
    "SparseNon3D": "SparseEncoding._flat_indices asserts exactly 3 index columns: dense, gather_nd, mask ... raise "
                   "AssertionError for every sparse encoding that is not 3-D",
    "SparseGetValue": "SparseEncoding.get_value calls the non-existent self._gather_nd (AttributeError, every input)",
    "SparseMask": "SparseEncoding.mask raises / returns indices instead of the masked values (every input)",
    "SparseStrippedPadRight": "SparseEncoding.stripped reports a trailing padding one too large on every axis",
    "BrleStrippedUsesRleStrip": "BinaryRunLengthEncoding.stripped calls rle_strip on BRLE data (wrong or ValueError)",
    "BrleGatherNdSqueeze": "BinaryRunLengthEncoding.gather_nd squeezes all axes, a single index row becomes 0-d (IndexError)",
    "RleFlipDropsDtype": "RunLengthEncoding._flip forgets dtype: a flipped boolean RLE reports int64 and its views "
                         "cannot produce binary_run_length_data",
    "RunLengthSparseIndicesRank1": "RunLengthEncoding / BinaryRunLengthEncoding.sparse_indices have shape (m,) not (m, 1); "
                                   "FlattenedEncoding over them raises for m != 1",
    "RleToSparseEmptyReturnsLists": "runlength.rle_to_sparse returns python lists for all-zero data; every lazy view "
                                    "(and VoxelGrid.sparse_indices of an empty loaded binvox) then raises",
    "LazyViewGetValue": "LazyIndexMap.get_value subscripts the wrapped Encoding (TypeError); TransposedEncoding.get_value "
                        "calls the non-existent _base_indices; FlippedEncoding indexes a 1-D index with [:, a] (every input)",
    "FlippedToBaseIndices": "FlippedEncoding._to_base_indices adds the whole shape tuple instead of shape[a] - 1: "
                            "gather_nd / sparse_indices raise (N-d) or are off by one (1-D)",
    "FlippedMask": "FlippedEncoding.mask hands an Encoding to the wrapped mask() and flips a 1-D result (every input)",
    "FlippedFlipAgain": "FlippedEncoding.flip re-flips itself instead of its base: RuntimeError, or the flip is ignored "
                        "when the axes cancel",
    "TransposedMask": "TransposedEncoding.mask transposes the 1-D masked values with an N-d permutation (every input)",
    "TransposedIndexMapsSwapped": "TransposedEncoding uses perm where inv_perm is needed and vice versa in "
                                  "_to_base_indices / _from_base_indices: wrong for permutations that are not involutions",
    "ShapedMaskFlatiter": "ShapedEncoding.mask passes numpy's mask.flat (a flatiter) down; only a raw run-length base accepts it",
    "VolumeSignedDeterminant": "Transform.unit_volume is the signed determinant: VoxelGrid.volume is negative for mirrored grids",
    "RunLengthDataDtypeNotHonoured": "rle_to_rle / brle_to_rle(dtype=uint8) return int64 when the stored counts are int64: "
                                     "export_binvox(axis_order='xyz') of a run-length based grid raises",
    "BinvoxNonCubicXzyAssert": "voxel_from_binvox(axis_order='xzy') overwrites `shape` with the permuted shape and then "
                               "asserts against it: AssertionError for grids with shape[1] != shape[2]",
    "BinvoxNegativeScaleTranslation": "export_binvox flips axes of negative scale but keeps the translation of the "
                                      "un-flipped grid: the reloaded cells are shifted by (n-1)*|scale|",
    # ---- found by the audit round (index forms, degenerate grids)
    "BinvoxUnitAxis": "binvox export / load turn the pitch into scale = pitch * (n - 1) and back: an axis of length 1 "
                      "gives 0 (export refuses every grid with such an axis; a 1x1x1 grid is written with scale 0 and "
                      "loads with a NaN transform)",
    "OpsPointsToIndicesDefaultPitch": "voxel.ops.points_to_indices(points) with the documented default pitch=None calls "
                                      "float(None): TypeError",
    "GatherNdListIndices": "gather_nd of DenseEncoding / SparseEncoding / ShapedEncoding / FlippedEncoding uses array "
                           "attributes of its argument (.T, .shape, .copy()): a python list of index rows raises, while "
                           "run-length, flattened and transposed encodings accept it",
    "FlippedUnsignedIndices": "FlippedEncoding._to_base_indices multiplies the caller's index array by -1 in its own dtype: "
                              "OverflowError for unsigned index arrays (numpy 2)",
    "RleGetValueSequenceIndex": "RunLengthEncoding.get_value hands (index,) to the sorted gather: a list / tuple index "
                                "(what DenseEncoding.get_value needs) raises TypeError",
    "FlippedFlipNumpyInteger": "FlippedEncoding.flip accepts int / ndarray / iterable axes but not a numpy integer "
                               "(Encoding.flip does): TypeError when a second flip is given np.int64",
    "BrleNegativeIndex": "sorted_brle_gather_1d answers a negative index with the value of the first run negated twice "
                         "(True for data starting with False) instead of raising or counting from the end; an index "
                         "below -length is answered too",
}


NARROW_MERGE = ("merge_rle_lengths", "merge_brle_lengths", "rle_to_rle", "brle_to_brle", "brle_to_rle")
NARROW_GATHER = ("rle_gather_1d", "brle_gather_1d", "sorted_rle_gather_1d", "sorted_brle_gather_1d")


def attribute_narrow_fn(c, clause):
    """run-length data stored in a narrow integer dtype: sums of counts computed in that dtype"""
    fn = c["fn"]
    out = []
    if fn == "rle_to_brle":
        out.append("NarrowCountRleToBrleOverflow")
    if fn in NARROW_MERGE or (fn == "rle_to_brle" and c.get("dtype") != "None"):
        out.append("NarrowCountMergeOverflow")
    if fn in NARROW_GATHER:
        out.append("NarrowCountGatherOverflow")
    if fn in ("rle_strip", "brle_strip") and clause.startswith("padding_"):
        out.append("NarrowCountStripOverflow")
    if fn in ("split_long_rle_lengths", "rle_to_rle", "brle_to_rle") and clause == "raised_OverflowError":
        out.insert(0 if fn == "split_long_rle_lengths" else len(out), "NarrowSplitRleFloorDiv")
    return out


def attribute_fn(c, clause):
    fn = c["fn"]
    e = c.get("e", [])
    if fn in ("brle_gather_1d", "sorted_brle_gather_1d") and min(c.get("idx", [0])) < 0:
        return ["BrleNegativeIndex"]
    if c.get("store", "int64") != "int64":
        return attribute_narrow_fn(c, clause)
    if fn == "brle_reverse" and (len(e) % 2 == 0 or e[-1] == 0) and clause == "denotes_reversed_sequence" \
            and c["res"] == []:
        return ["BrleReverseEvenLength"]       # predicted wrong value: the empty encoding
    if fn == "brle_to_sparse" and len(e) <= 1 and clause == "raised_ValueError":
        return ["BrleToSparseNoTrueRun"]
    if fn == "brle_to_dense" and "vals" in c and clause == "dense_uses_substitute_values":
        return ["BrleToDenseIgnoresVals"]
    if fn in ("rle_gather_1d", "brle_gather_1d") and c.get("form") == "list" and c["exc"] == "ValueError":
        return ["GatherListIndicesNumpy2"]     # np.array(list, copy=False) raises under numpy 2
    return []


def construction_taints(rec):
    """root causes that corrupt the object while the chain of views is being built"""
    out = []
    classes, chain = rec["classes"], rec["chain"]
    cur = list(rec["data"])          # row-major data held by the raw BinaryRunLengthEncoding
    for k, o in enumerate(chain):
        if k >= len(classes) or o["op"] != "flip":
            continue
        if classes[k] == "BinaryRunLengthEncoding" and "BrleReverseEvenLength" not in out:
            # brle_reverse: an encoding of even length (data ending in True) comes back empty
            if cur and cur[-1] == 1:
                out.append("BrleReverseEvenLength")
            cur.reverse()
        elif classes[k] == "FlippedEncoding" and "FlippedFlipAgain" not in out:
            # FlippedEncoding.flip flips itself again instead of its base
            out.append("FlippedFlipAgain")
    return out


def attribute_enc(rec, q, clause):
    tree, kind = rec["tree"], rec["base"]
    base_nd = len(rec["shape"])
    empty = not any(rec["data"])
    taints = construction_taints(rec)
    if q is None:
        classes, chain = rec["classes"], rec["chain"]
        k = len(classes) - 1            # the operation that failed
        if clause == "build_raised_TypeError" and 0 <= k < len(chain) and chain[k]["op"] == "flip" \
                and chain[k].get("form") == "npint" and classes[k] == "FlippedEncoding":
            return ["FlippedFlipNumpyInteger"] + taints
        return taints
    r = q["r"]
    raised = clause.startswith("raised_")
    c = []
    if r == "gather_nd" and q.get("form") == "list" and clause in ("raised_AttributeError", "raised_TypeError"):
        c.append("GatherNdListIndices")
    if r == "gather_nd" and q.get("form") in ("uint8", "uint64") and clause == "raised_OverflowError" and "FlippedEncoding" in tree:
        c.append("FlippedUnsignedIndices")
    if r == "get_value" and q.get("form") in ("list", "tuple") and clause == "raised_TypeError" and tree[0] in RL:
        c.append("RleGetValueSequenceIndex")
    if r in ("gather_neg", "gather_oob") and kind == "brle" and not raised:
        c.append("BrleNegativeIndex")
    involution = lambda p: all(p[p[a]] == a for a in range(len(p)))  # noqa
    if r == "get_value":
        if tree[0] in LAZY and raised:
            c.append("LazyViewGetValue")
        if tree[0] == "SparseEncoding" and clause == "raised_AttributeError":
            c.append("SparseGetValue")
    if r == "mask":
        for k, t in enumerate(tree):
            if t == "TransposedEncoding":
                c.append("TransposedMask")
            elif t == "FlippedEncoding":
                c.append("FlippedMask")
            elif t == "ShapedEncoding" and tree[k + 1] not in RL:
                c.append("ShapedMaskFlatiter")
            elif t == "SparseEncoding":
                c.append("SparseMask")
    if r in ("sparse_indices", "sparse_pairs") and raised:
        # the base encoding is evaluated first
        if kind == "brle" and empty:
            c.append("BrleToSparseNoTrueRun")
        if kind == "rle" and empty and tree[0] in LAZY:
            c.append("RleToSparseEmptyReturnsLists")
        if len(tree) >= 2 and tree[-2] == "FlattenedEncoding" and tree[-1] in RL:
            c.append("RunLengthSparseIndicesRank1")
    if r == "gather_nd" and kind == "brle" and len(q["arg"]) == 1 and raised:
        c.append("BrleGatherNdSqueeze")
    if r in ("gather_nd", "sparse_indices", "sparse_pairs"):
        if "FlippedEncoding" in tree:
            c.append("FlippedToBaseIndices")
        if any(not involution(p) for p in rec["tperms"]):
            c.append("TransposedIndexMapsSwapped")
    if r == "gather" and q.get("form") == "list" and tree[0] in RL and clause == "raised_ValueError":
        c.append("GatherListIndicesNumpy2")
    if r in ("sparse_values", "sparse_pairs") and kind == "dense":
        c.append("DenseSparseValues")
    if r == "stripped":
        if tree[0] == "SparseEncoding" and not empty and clause == "stripped_padding":
            c.append("SparseStrippedPadRight")
        if tree[0] == "BinaryRunLengthEncoding" and not empty:
            c.append("BrleStrippedUsesRleStrip")
    if r == "brld" and kind == "rle" and tree[0] in LAZY and clause == "raised_ValueError" and \
            any(o["op"] == "flip" and rec["classes"][k] == "RunLengthEncoding" for k, o in enumerate(rec["chain"])):
        c.append("RleFlipDropsDtype")
    if kind == "sparse" and base_nd != 3 and clause == "raised_AssertionError":
        c.append("SparseNon3D")
    return c + taints


def attribute_enc1d(rec, q, clause):
    """1-D run-length encodings built on narrowly stored data (every record of this kind is)"""
    if q is None:
        return []
    r, top = q["r"], rec["tree"][0]
    out = []
    if r in ("gather_nd", "gather", "get_value"):
        out.append("NarrowCountGatherOverflow")
    if r == "stripped" and top in RL and clause == "stripped_padding":
        out.append("NarrowCountStripOverflow")
    if r == "brld" and top == "RunLengthEncoding":
        out.append("NarrowCountRleToBrleOverflow")
    if r in ("rld", "brld") and top in RL:
        out.append("NarrowCountMergeOverflow")
        if clause == "raised_OverflowError":
            out.append("NarrowSplitRleFloorDiv")
    if r == "sum" and rec["kind"] == "rle":
        out.append("RleSumNarrowProduct")
    return out


def attribute_grid(c, clause):
    if c["fn"] in ("grid_binvox", "grid_binvox_points") and 1 in c["shape"] and \
            clause in ("raised_ValueError", "raised_NonFiniteTransform", "binvox_transform"):
        return ["BinvoxUnitAxis"]
    if c["fn"] == "ops_maps" and c["has_pitch"] == 0 and clause == "raised_TypeError":
        return ["OpsPointsToIndicesDefaultPitch"]
    if c["fn"] == "grid_volume" and clause == "volume_is_filled_count_times_cell_volume":
        M = np.array(c["M4"], dtype=np.int64)
        if round(np.linalg.det(M)) < 0 and c.get("vol64", 0) < 0:
            return ["VolumeSignedDeterminant"]      # predicted: the negated volume
    if c["fn"] == "grid_binvox":
        if c["axis_order"] == "xzy" and c["shape"][1] != c["shape"][2] and clause == "raised_AssertionError":
            return ["BinvoxNonCubicXzyAssert"]
        if c.get("via") == "sparse_indices" and not any(c["data"]) and clause == "raised_TypeError":
            return ["RleToSparseEmptyReturnsLists"]
        if c["base"] in ("rle", "brle") and c["axis_order"] == "xyz" and clause == "raised_ValueError":
            return ["RunLengthDataDtypeNotHonoured"]   # run_length_data(dtype=uint8) comes back int64
    if c["fn"] == "grid_reload":
        # the loaded grid holds uint8 run-length data
        if clause == "raised_IndexError" or clause == "loaded_grid_is_filled_equals_dense_at_cell":
            return ["NarrowCountGatherOverflow"]
        if clause == "binvox_reexport_of_loaded_grid_keeps_filled_cells":
            return ["NarrowCountMergeOverflow"]
    if c["fn"] == "grid_binvox_points" and clause == "binvox_filled_cells_keep_their_position" and \
            any(c["M4"][a][a] < 0 for a in range(3)):
        return ["BinvoxNegativeScaleTranslation"]
    return []


def choose(V, cands):
    """the first candidate that is a listed known finding, else the first candidate, else None"""
    for d in cands:
        if d in V.known:
            return d
    return cands[0] if cands else None


# ------------------------------------------------------------------ main
ROUND_TREES = 45000        # expression trees validated per TLC round (bounds memory in the thorough tier)
REPORT_CAP = 40            # V.violation calls per (clause, deviation); the full counts are in the evidence


def main(argv):
    import time
    global THIN
    tier = tier_from_args(argv)
    THIN = tier == "quick"
    V = Verdict(PROP, tier)
    import_trimesh()
    # 16 TLC shards run side by side; a shard needs < 1 GB (measured 0.5 - 0.7 GB resident) but the JVM
    # would by default let each heap grow to a quarter of the machine's memory
    os.environ.setdefault("JAVA_TOOL_OPTIONS", "-Xmx2g")
    brle, rle, dense = runlength_work(tier)
    enc_work = encoding_work(tier)
    g_work = grid_work(tier)

    def fn_round():
        cases = []
        for res in pmap(gen_brle_cases, brle, chunk=150):
            cases += res
        for res in pmap(gen_rle_cases, rle, chunk=150):
            cases += res
        for res in pmap(gen_dense_cases, dense, chunk=200):
            cases += res
        return cases

    def enc_round(k, nr):
        return [c for res in pmap(gen_enc_cases, enc_work[k::nr], chunk=100) for c in res]

    e1_work = enc1d_work(tier)

    def enc1d_round():
        return [c for res in pmap(gen_enc1d_cases, e1_work, chunk=40) for c in res]

    def grid_round():
        return [c for res in pmap(gen_grid_cases, g_work, chunk=60) for c in res]

    # one TLC batch when everything fits comfortably (quick); otherwise rounds of bounded size,
    # interleaved so that every round meets every shape / base / chain length
    nr = max(1, -(-len(enc_work) // ROUND_TREES))
    if nr == 1:
        rounds = [lambda: fn_round() + enc_round(0, 1) + enc1d_round() + grid_round()]
    else:
        rounds = [fn_round] + [lambda k=k: enc_round(k, nr) for k in range(nr)] + [lambda: enc1d_round() + grid_round()]

    count = {"fn": 0, "enc": 0, "grid": 0}
    fam_count = {}
    byfn, by_dev, by_clause_dev = {}, {}, {}
    unattributed, unattributed_examples, samples = {}, [], []
    reads = states = rejected = narrow_records = 0
    nxt = 0
    gen_wall = tlc_wall = 0.0
    for rk, gen in enumerate(rounds):
        t0 = time.time()
        cases = gen()
        gen_wall += time.time() - t0
        # ids: an enc record owns id .. id + number of reads
        owner = {}
        for c in cases:
            c["id"] = nxt
            owner[nxt] = (c, None)
            if c["fn"] in ("enc", "enc1d"):
                for k, q in enumerate(c["reads"]):
                    owner[nxt + 1 + k] = (c, q)
                nxt += len(c["reads"])
                reads += len(c["reads"])
            nxt += 1
            byfn[c["fn"]] = byfn.get(c["fn"], 0) + 1
            count["enc" if c["fn"] in ("enc", "enc1d") else "grid" if c["fn"].startswith(("grid_", "ops_")) else "fn"] += 1
            for fam in families_of(c):
                fam_count[fam] = fam_count.get(fam, 0) + 1
            if c.get("store", "int64") != "int64" or c["fn"] == "grid_reload":
                narrow_records += 1
        if not cases:
            continue
        if nxt >= 2 ** 31:
            raise MachineryError("record ids beyond TLC integers")
        samples += [strip_sample(cases[len(cases) // 5]), strip_sample(cases[(len(cases) * 9) // 10])]
        # quick: 8 TLC shards instead of 16 - half the JVM start-ups (3.3 CPU-s each) and half the memory
        # held at once (a shard was killed more than once on the shared machine); ~10 s more wall when idle
        rejects, st, wall = tlc.validate_batches(f"c13/r{rk}", "RunLength", cases, CFG, timeout=2400,
                                                 shards=8 if tier == "quick" else None)
        states += st
        tlc_wall += wall
        rejected += len(rejects)
        for cid, clause in sorted(rejects.items()):
            if cid not in owner:
                raise MachineryError(f"TLC rejected unknown id {cid}")
            c, q = owner[cid]
            if c["fn"] == "enc1d":
                cands = attribute_enc1d(c, q, clause)
                detail = {k: c[k] for k in ("kind", "e", "store", "view", "tree", "exc")}
                name = "enc1d.build" if q is None else "enc1d." + q["r"]
                if q is not None:
                    detail["read"] = q
            elif c["fn"] == "enc":
                cands = attribute_enc(c, q, clause)
                detail = {k: c[k] for k in ("base", "shape", "data", "chain", "tree", "exc")}
                name = "enc.build" if q is None else "enc." + q["r"]
                if q is not None:
                    detail["read"] = q
            else:
                cands = attribute_grid(c, clause) if c["fn"].startswith(("grid_", "ops_")) else attribute_fn(c, clause)
                detail = {k: v for k, v in c.items() if k != "id"}
                name = c["fn"]
            dev = choose(V, cands)
            key = (f"{name}:{clause}", dev)
            by_clause_dev[key] = by_clause_dev.get(key, 0) + 1
            by_dev[dev or "-"] = by_dev.get(dev or "-", 0) + 1
            if by_clause_dev[key] <= REPORT_CAP:
                V.violation(key[0], detail, dev)
            if dev is None:
                unattributed[key[0]] = unattributed.get(key[0], 0) + 1
                if len(unattributed_examples) < 12 and unattributed[key[0]] == 1:
                    unattributed_examples.append({"clause": key[0], "detail": detail})
    if count["fn"] < 20000 or count["enc"] < 5000 or count["grid"] < 300 or reads < 50000:
        raise MachineryError(f"enumeration too small: {count}, {reads} reads")
    if narrow_records < 20000:
        raise MachineryError(f"only {narrow_records} records with narrowly stored run-length data")
    # families added by the audit round: none of them may come out (nearly) empty
    for fam, need in FAMILY_MIN.items():
        if fam_count.get(fam, 0) < need:
            raise MachineryError(f"family {fam}: only {fam_count.get(fam, 0)} records (need {need}); all: {fam_count}")
    cov = {
        "states": states, "transitions": states,
        "traces_validated_against_impl": sum(count.values()),
        "runlength_function_calls": count["fn"],
        "encoding_trees": count["enc"],
        "encoding_reads": reads,
        "grid_cases": count["grid"],
        "narrow_stored_records": narrow_records,
        "audit_families": fam_count,
        "cases_per_function": byfn,
        "rejected": rejected,
        "rejected_by_deviation": by_dev,
        "deviation_descriptions": {k: DEVIATIONS.get(k, "") for k in by_dev if k != "-"},
        "unattributed_clauses": unattributed,
        "unattributed_examples": unattributed_examples,
        "reported_violations_capped_per_clause_and_deviation": REPORT_CAP,
        "exhaustive": True,
        "rounds": len(rounds),
        "generation_wall_s": round(gen_wall, 1),
        "tlc_wall_s": round(tlc_wall, 1),
        "samples": samples[:3] + samples[-1:],
    }
    return V.finish("model_checking", cov, assumptions=[
        "boolean sequences of length <= 10, sequences over {0,1,2} of length <= 7, encodings of <= 5 counts / 3 pairs",
        "run lengths around the count maximum taken from {1,2,max-1,max,max+1,2max,2max+1} for uint8, int8, uint16",
        "arrays of at most 8 elements (shapes (3,),(4,),(2,2),(2,3),(2,2,2),(1,2,3)), view chains of length <= "
        + ("3" if tier == "thorough" else "2"),
        "order of sparse_indices is not part of the contract; result dtypes are not compared (values only)",
        "zero-length arrays and the padding of an all-zero sequence under rle_strip/brle_strip are left unconstrained; "
        "a negative gather index may raise or count from the end (numpy), an index outside the array must raise (any exception)",
        "random view chains of length 3 - " + ("5" if tier == "thorough" else "4") + " over the full operation set; integer arrays over "
        "{0,1,2} and {0,-1,3} stored as int64 / int32 / int8 / uint8; index rows as list, (u)int8/32/64, read-only, Fortran order",
        "grid transforms: quarter-integer matrices incl. 3-4-5 rotations (x 5/4), rotation x non-uniform scale, mirrors, shear; "
        "in-place edits (apply_transform / apply_scale / apply_translation / transform setter) composed by the specification; "
        "points up to 7/16 of a cell off the centre; binvox needs pitch * max(n - 1, 1) equal on all axes",
        "masks given as lists or Encodings, reshape to a wrong size, gathers with 2-D index blocks on 1-D run-length data and "
        "voxel.ops.strip_array are not constrained",
    ])


FAMILY_MIN = {
    "enc_chain_ge3": 1200, "enc_integer_chain_ge2": 900, "enc_integer_negative_values": 300, "enc_1x1x1": 100,
    "enc_index_forms": 1000, "enc_out_of_range_reads": 3000, "enc_negative_index_reads": 2000, "enc_numpy_integer_flip": 150,
    "fn_negative_index": 3000,
    "grid_rotated_transform": 300, "grid_history": 500, "grid_offcentre": 500, "grid_unit_axis": 300,
    "grid_single_or_block_points": 300, "grid_binvox_unit_axis": 200, "grid_binvox_mirrored_noncubic": 100, "grid_binvox_after_edit": 100,
    "grid_maps_other_base": 600, "ops_optional_arguments": 8, "grid_strip": 200, "grid_binvox_far_origin": 60,
}


def families_of(c):
    """which of the audit families a record belongs to (coverage accounting only)"""
    fn = c["fn"]
    out = []
    if fn == "enc":
        ch = c["chain"]
        integer = max(c["data"]) > 1 or min(c["data"]) < 0
        if len(ch) >= 3:
            out.append("enc_chain_ge3")
        if integer and len(ch) >= 2:
            out.append("enc_integer_chain_ge2")
        if integer and min(c["data"]) < 0:
            out.append("enc_integer_negative_values")
        if c["shape"] == [1, 1, 1]:
            out.append("enc_1x1x1")
        if c.get("mode", {}).get("args"):
            out.append("enc_index_forms")
            out += ["enc_out_of_range_reads"] * sum(1 for q in c["reads"] if q["r"] == "gather_oob")
            out += ["enc_negative_index_reads"] * sum(1 for q in c["reads"] if q["r"] == "gather_neg")
        if any(o["op"] == "flip" and o.get("form") == "npint" for o in ch):
            out.append("enc_numpy_integer_flip")
    elif fn in NARROW_GATHER and min(c.get("idx", [0])) < 0:
        out.append("fn_negative_index")
    elif fn in ("grid_maps", "grid_volume", "grid_off"):
        if c.get("tf", "").startswith(("rot345", "scale124_rot")):
            out.append("grid_rotated_transform")
        if "hist" in c:
            out.append("grid_history")
        if fn == "grid_off":
            out.append("grid_offcentre")
            if c["pform"] != "rows":
                out.append("grid_single_or_block_points")
        if 1 in c["shape"]:
            out.append("grid_unit_axis")
        if fn == "grid_maps" and c.get("base", "dense") != "dense":
            out.append("grid_maps_other_base")
    elif fn == "grid_strip":
        out.append("grid_strip")
    elif fn == "grid_binvox_far":
        out.append("grid_binvox_far_origin")
    elif fn == "grid_binvox" and 1 in c["shape"]:
        out.append("grid_binvox_unit_axis")
    elif fn == "grid_binvox_points":
        if c["shape"] != [2, 2, 2] and any(c["M4"][a][a] < 0 for a in range(3)):
            out.append("grid_binvox_mirrored_noncubic")
        if "hist" in c:
            out.append("grid_binvox_after_edit")
    elif fn == "ops_maps" and not (c["has_pitch"] and c["has_origin"]):
        out.append("ops_optional_arguments")
    return out


def strip_sample(c):
    c = dict(c)
    if "reads" in c:
        c["reads"] = c["reads"][:3]
    return c


if __name__ == "__main__":
    try:
        sys.exit(main(sys.argv[1:]))
    except MachineryError as e:
        print("MACHINERY-ERROR:", e)
        sys.exit(2)
