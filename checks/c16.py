"""C16 - convex hulls and bounding volumes contain what they bound.

Reference semantics: spec/Hull.tla.  Exact integer part: a recorded hull (vertices as indices
into the input set, faces as index triples) has only input points as vertices, is watertight and
consistently wound, has every input on the non-positive side of every face plane (convex,
contains the inputs, outward), and has every extreme input (Caratheodory test against the
others) among its vertices; bounds / extents / bounding_box are the exact min / max; the
minimal enclosing ball is computed by TLC as the circumball of a support set (rational centre
with a common denominator) and - for inputs in general position, decided by in-sphere
determinants - the reported ball must be that ball.  Fixed-point part (values x 10^4, slack
stated in the spec): oriented boxes (rigid frame, containment, centred) and cylinders.

code -> spec: Python enumerates small lattice point sets and meshes (seeded), places them at the
origin / far away (+-10^4 per axis) / scaled by 2^10 (all exact in doubles), calls the real
  trimesh.convex.convex_hull, PointCloud.convex_hull, Trimesh.convex_hull (+ is_watertight,
  is_winding_consistent, is_convex, volume of the result), .bounds, .extents, .bounding_box,
  trimesh.bounds.oriented_bounds / oriented_bounds_2D, .bounding_box_oriented, .apply_obb,
  trimesh.nsphere.minimum_nsphere (3D and 2D), .bounding_sphere,
  trimesh.bounds.minimum_cylinder, .bounding_cylinder
maps every returned coordinate back by the exact offset and scale, projects it (index of the
equal input point / integer / fraction of bounded denominator with a residual test / fixed
point) and has TLC validate every record in batch.  Python computes no expected value.
nsphere.fit_nsphere is a least-squares fit, not a bound: it is only exercised through
minimum_nsphere and nothing is demanded of it.

Besides the single calls on fresh objects there are
  histories   one PointCloud / Trimesh object, volumes read in several orders (hull first, sphere
              first, minimum_nsphere(obj) first, bounding_primitive first), the object moved by
              apply_translation / apply_scale / apply_transform with exact integer maps, volumes
              read again, apply_obb last: every read is a record judged against the vertices the
              object has at that moment (stale caches, results that alias and corrupt each other);
  wide sets   tight lattice clusters 10^5 apart (chamfered cube corners, random clusters): hull
              faces of area ~1 next to faces of area ~10^10; TLC evaluates the orientation
              determinants as polynomials in L = 10^5 (kind "hullw").
"""
import itertools
import json
import logging
import math
import os
import shutil
import sys
from fractions import Fraction

import numpy as np

from harness import tlc
from harness.common import (WORK, MachineryError, Verdict, import_trimesh, pmap, seed,
                            tier_from_args)

PROP = "C16"
CFG = "INIT Init\nNEXT Next\nINVARIANT Report\nINVARIANT InputSane\nINVARIANT RefSane\nCHECK_DEADLOCK FALSE\n"
K = 10000                 # fixed-point unit of spec/Hull.tla
FAR = 10000
BIG = 1024
LIMIT = 5.0e4             # |value| (in lattice steps) representable in the fixed point of the spec
DEV_HULL_FAR = "HullFarFromOriginNotWatertight"
DEV_SPHERE = "MinimumNsphereIgnoresSmallSupport"
GRID3 = [tuple(p) for p in itertools.product(range(4), repeat=3)]
GRID2 = [tuple(p) for p in itertools.product(range(4), repeat=2)]


# ------------------------------------------------------------------ projection
class Raised(Exception):
    """the implementation returned something that cannot be a result (non-finite, wrong shape)"""


def fx(name, x):
    x = float(x)
    if not np.isfinite(x):
        raise Raised("nonfinite_" + name)
    if abs(x) > LIMIT:
        raise MachineryError(f"{name} = {x} cannot be represented in the fixed point of Hull.tla")
    return int(round(x * K))


def fxv(name, v, n):
    v = np.asarray(v, dtype=np.float64).reshape(-1)
    if v.shape != (n,):
        raise Raised("shape_" + name)
    return [fx(name, x) for x in v]


class Place:
    """q = (p + off) * sc, exact in doubles; back() is the exact way back"""

    def __init__(self, name, off, sc):
        self.name, self.off, self.sc = name, np.array(off, dtype=np.float64), float(sc)

    def fwd(self, P):
        return (np.asarray(P, dtype=np.float64) + self.off) * self.sc

    def back(self, X):
        return np.asarray(X, dtype=np.float64) / self.sc - self.off

    def size(self, x):
        return np.asarray(x, dtype=np.float64) / self.sc

    def frame(self, T, d):
        """(d+1)x(d+1) matrix taking placed coordinates to a frame -> rotation rows and translation of
        the same frame in lattice units: T q / sc = W p + (W off + t / sc)"""
        T = np.asarray(T, dtype=np.float64)
        if T.shape != (d + 1, d + 1):
            raise Raised("shape_transform")
        W = T[:d, :d]
        t = W @ self.off + T[:d, d] / self.sc
        return [fxv("rotation", W[r], d) for r in range(d)], fxv("translation", t, d)


def hull_obs(api, h, pts, pl, tol=1e-9):
    P = np.asarray(pts, dtype=np.float64)
    V = pl.back(np.asarray(h.vertices, dtype=np.float64).reshape(-1, 3))
    hv = []
    for v in V:
        hit = np.nonzero(np.abs(P - v).max(axis=1) <= tol)[0]
        hv.append(int(hit[0]) if len(hit) else -1)
    F = np.asarray(h.faces)
    if F.size and (F.ndim != 2 or F.shape[1] != 3):
        raise Raised("shape_faces")
    area = np.asarray(h.area_faces, dtype=np.float64) / pl.sc ** 2
    return {"api": api, "hv": hv, "hf": F.astype(np.int64).reshape(-1, 3).tolist(),
            "wt": bool(h.is_watertight), "wc": bool(h.is_winding_consistent),
            "volpos": bool(h.volume > 0), "cvx": bool(h.is_convex),
            "zero_area_faces": int((area < 1e-9).sum())}


def lattice(sn, name, X):
    X = np.asarray(X, dtype=np.float64).reshape(-1)
    if not np.isfinite(X).all():
        raise Raised("nonfinite_" + name)
    R = np.round(X)
    if np.abs(X - R).max() > 1e-9 or np.abs(R).max() > LIMIT:
        sn[0] = sn[0] or name
    return [int(x) for x in np.clip(R, -LIMIT, LIMIT)]


def aabb_obs(api, g, pl, d=3):
    sn = [""]
    b = np.asarray(g.bounds, dtype=np.float64)
    if b.shape != (2, d):
        raise Raised("shape_bounds")
    bb = g.bounding_box.primitive
    T = np.asarray(bb.transform, dtype=np.float64)
    o = {"api": api, "hasbox": True,
         "lo": lattice(sn, "bounds", pl.back(b[0])), "hi": lattice(sn, "bounds", pl.back(b[1])),
         "ext": lattice(sn, "extents", pl.size(g.extents)),
         "bext": lattice(sn, "box_extents", pl.size(bb.extents)),
         "c2": lattice(sn, "box_centre", 2.0 * pl.back(T[:d, d])),
         "rot": [fxv("box_rotation", T[r, :d], d) for r in range(d)]}
    o["offlat"] = sn[0]
    return o


def sphere_obs(api, center, radius, pl, d):
    c = pl.back(np.asarray(center, dtype=np.float64).reshape(-1))
    if c.shape != (d,):
        raise Raised("shape_center")
    r = float(pl.size(radius))
    if not (np.isfinite(c).all() and np.isfinite(r)):
        raise Raised("nonfinite_sphere")
    o = {"api": api, "snap": False, "cd": 1, "cn": [0] * d, "n2": 0,
         "C": fxv("sphere_center", c, d), "R": fx("sphere_radius", r)}
    fr = [Fraction(float(x)).limit_denominator(2000) for x in c]
    if all(abs(float(f) - x) <= 1e-7 for f, x in zip(fr, c)) and c.min() >= -1.0 and c.max() <= 4.0:
        cd = 1
        for f in fr:
            cd = cd * f.denominator // math.gcd(cd, f.denominator)
        n2f = r * r * cd * cd
        if cd <= 2000 and n2f < 2.0e9 and abs(n2f - round(n2f)) <= 0.05:
            o.update(snap=True, cd=int(cd), cn=[int(f * cd) for f in fr], n2=int(round(n2f)))
    return o


def box_obs(api, T, ext, pl, d, newv=None):
    W, t = pl.frame(T, d)
    o = {"api": api, "W": W, "t": t, "ext": fxv("extents", pl.size(ext), d), "hasnew": newv is not None, "newv": []}
    if newv is not None:
        nv = pl.size(np.asarray(newv, dtype=np.float64))
        o["newv"] = [fxv("moved_vertex", v, d) for v in nv]
    return o


def cyl_obs(api, transform, radius, height, pl):
    M = np.asarray(transform, dtype=np.float64)
    if M.shape != (4, 4) or not np.isfinite(M).all():
        raise Raised("shape_transform")
    W, t = pl.frame(np.linalg.inv(M), 3)
    return {"api": api, "W": W, "t": t, "r": fx("radius", pl.size(radius)), "h": fx("height", pl.size(height))}


def guarded(rec, name, thunk):
    """run one API; an exception of the implementation is recorded, never swallowed"""
    if rec["exc"]:
        return
    try:
        rec["obs"].append(thunk())
    except MachineryError:
        raise
    except Raised as e:
        rec["exc"] = f"{name}:{e}"[:40]
    except BaseException as e:  # noqa - the implementation raised on a valid input
        rec["exc"] = f"{name}:{type(e).__name__}"[:40]


WIDE_L = 100000


def observe_wide(trimesh, it):
    """hull of tight lattice clusters far apart: point = cl * L + lo (spec/Hull.tla, kind hullw)"""
    pl = Place(it["place"], it["off"], it["sc"])
    P = np.array([[c * WIDE_L + l for c, l in zip(cl, lo)] for cl, lo in it["pts"]], dtype=np.float64)
    Q = pl.fwd(P)
    rec = {"exc": "", "kind": "hullw", "dim": 3, "L": WIDE_L, "pts": [[list(cl), list(lo)] for cl, lo in it["pts"]],
           "off": [int(x) for x in it["off"]], "sc": int(it["sc"]), "sane": bool(it["sane"]), "item": it["k"], "obs": []}
    guarded(rec, "convex_hull", lambda: hull_obs("ch", trimesh.convex.convex_hull(Q.copy()), P, pl, tol=1e-6))
    guarded(rec, "pc.convex_hull", lambda: hull_obs("pc", trimesh.PointCloud(Q.copy()).convex_hull, P, pl, tol=1e-6))
    return [rec]


def cube_symmetry(perm, flip):
    """the lattice map p -> S p + c of the cube {0..3}^3 onto itself"""
    S = np.zeros((3, 3))
    c = np.zeros(3)
    for a in range(3):
        S[a, perm[a]] = -1.0 if flip[a] else 1.0
        c[a] = 3.0 if flip[a] else 0.0
    return S, c


def observe_history(trimesh, it):
    """one object, a script of reads and exact moves; every read is one record whose pts are the
    vertices the object has at that moment (read back AFTER the volumes of the group were read, so
    that the harness does not touch the vertex array between a move and the reads that follow it)"""
    pl = Place(it["place"], it["off"], it["sc"])
    Q = pl.fwd(it["pts"])
    if it["faces"] is None:
        g = trimesh.PointCloud(Q.copy())
        tag = "pc"
    else:
        g = trimesh.Trimesh(vertices=Q.copy(), faces=np.array(it["faces"], dtype=np.int64), process=False)
        tag = "mesh"
    out, group, done = [], [], []

    def current():
        V = pl.back(np.array(g.vertices, dtype=np.float64))
        R = np.round(V)
        if V.shape != (len(it["pts"]), 3) or np.abs(V - R).max() > 1e-9 or R.min() < 0 or R.max() > 3:
            raise MachineryError("history %s: the object's vertices left the lattice (transforms are property C19)"
                                 % "/".join(done))
        return [[int(x) for x in p] for p in R]

    def flush():
        if group:
            pts = current()
            P = np.asarray(pts, dtype=np.float64)
            for r in group:
                r["pts"] = pts
                for o in r["obs"]:
                    if "_V" in o:       # hull vertices -> indices of the equal current vertex
                        o["hv"] = [int(hit[0]) if len(hit) else -1 for hit in
                                   (np.nonzero(np.abs(P - v).max(axis=1) <= 1e-9)[0] for v in o.pop("_V"))]
            group.clear()

    def hull_later(h, pl_now):
        o = hull_obs(tag, h, np.zeros((0, 3)), pl_now)
        o["_V"] = pl_now.back(np.asarray(h.vertices, dtype=np.float64).reshape(-1, 3))
        return o

    def read(kind, name, thunk):
        r = {"exc": "", "kind": kind, "dim": 3, "pts": None, "off": [int(x) for x in pl.off], "sc": int(pl.sc),
             "sane": False, "item": it["k"], "hist": "/".join(done + [name]), "obs": []}
        guarded(r, name, thunk)
        group.append(r)
        out.append(r)
        done.append(name)

    def prim_obs(p):
        kind = type(p).__name__
        if kind == "Box":
            return "obb", box_obs(tag, np.linalg.inv(np.asarray(p.primitive.transform, dtype=np.float64)), p.primitive.extents, pl, 3)
        if kind == "Sphere":
            return "sphere", sphere_obs(tag, p.primitive.center, p.primitive.radius, pl, 3)
        if kind == "Cylinder":
            return "cyl", cyl_obs(tag, p.primitive.transform, p.primitive.radius, p.primitive.height, pl)
        raise Raised("primitive_" + kind)

    for step in it["script"]:
        op = step[0]
        if op == "hull":
            read("hull", "convex_hull", lambda: hull_later(g.convex_hull, pl))
        elif op == "obb":
            read("obb", "bounding_box_oriented", lambda: prim_obs(g.bounding_box_oriented)[1])
        elif op == "ob":
            read("obb", "oriented_bounds", lambda: box_obs("ob", *trimesh.bounds.oriented_bounds(g), pl, 3))
        elif op == "sphere":
            read("sphere", "bounding_sphere", lambda: prim_obs(g.bounding_sphere)[1])
        elif op == "mn":
            read("sphere", "minimum_nsphere", lambda: sphere_obs("mn", *trimesh.nsphere.minimum_nsphere(g), pl, 3))
        elif op == "cyl":
            read("cyl", "bounding_cylinder", lambda: prim_obs(g.bounding_cylinder)[1])
        elif op == "prim":
            got = {}

            def whichever():
                got["kind"], o = prim_obs(g.bounding_primitive)
                return o

            read("obb", "bounding_primitive", whichever)
            out[-1]["kind"] = got.get("kind", "obb")
        elif op == "apply_obb":
            def applied():
                ext = np.array(g.bounding_box_oriented.primitive.extents, dtype=np.float64)
                M = g.apply_obb()
                return box_obs("apply", M, ext, pl, 3, newv=np.asarray(g.vertices))
            flush()
            r = {"exc": "", "kind": "obb", "dim": 3, "pts": current(), "off": [int(x) for x in pl.off],
                 "sc": int(pl.sc), "sane": False, "item": it["k"], "hist": "/".join(done + ["apply_obb"]), "obs": []}
            guarded(r, "apply_obb", applied)
            out.append(r)
            break           # the vertices are no lattice points any more
        else:
            flush()
            if op == "translate":
                v = np.array(step[1], dtype=np.float64)
                g.apply_translation(v * pl.sc)
                pl = Place(pl.name, pl.off + v, pl.sc)
            elif op == "scale":
                g.apply_scale(float(step[1]))
                pl = Place(pl.name, pl.off, pl.sc * step[1])
            elif op == "symmetry":
                S, c = cube_symmetry(step[1], step[2])
                M = np.eye(4)
                M[:3, :3] = S
                M[:3, 3] = (c + pl.off - S @ pl.off) * pl.sc
                g.apply_transform(M)
            else:
                raise MachineryError("unknown step " + str(op))
            done.append(op)
    flush()
    return out


def observe(trimesh, it):
    """all records (one per kind) of one placed input"""
    if it.get("wide"):
        return observe_wide(trimesh, it)
    if it.get("script"):
        return observe_history(trimesh, it)
    pl = Place(it["place"], it["off"], it["sc"])
    d = it["dim"]
    Q = pl.fwd(it["pts"])
    base = {"exc": "", "dim": d, "pts": [list(p) for p in it["pts"]], "off": [int(x) for x in it["off"]],
            "sc": int(it["sc"]), "sane": bool(it["sane"]), "item": it["k"]}
    out = []

    def new(kind):
        r = dict(base, kind=kind, obs=[])
        out.append(r)
        return r

    B, NS, CV = trimesh.bounds, trimesh.nsphere, trimesh.convex
    if d == 2:
        r = new("obb")
        guarded(r, "oriented_bounds_2D", lambda: box_obs("ob2d", *B.oriented_bounds_2D(Q.copy()), pl, 2))
        guarded(r, "oriented_bounds", lambda: box_obs("ob", *B.oriented_bounds(Q.copy()), pl, 2))
        r = new("sphere")
        guarded(r, "minimum_nsphere", lambda: sphere_obs("mn", *NS.minimum_nsphere(Q.copy()), pl, 2))
        return out
    if it["faces"] is None:
        geo = lambda: trimesh.PointCloud(Q.copy())
        tag = "pc"
    else:
        F = np.array(it["faces"], dtype=np.int64)
        geo = lambda: trimesh.Trimesh(vertices=Q.copy(), faces=F.copy(), process=False)
        tag = "mesh"
        g0 = geo()
        if len(g0.vertices) != len(Q) or len(g0.faces) != len(F) or len(g0.referenced_vertices) != len(Q) \
                or not g0.referenced_vertices.all():
            raise MachineryError("Trimesh(process=False) did not keep the input arrays")
    lean = it.get("lean", False)     # bulk families: one API per kind
    # ---- hull
    r = new("hull")
    guarded(r, "convex_hull", lambda: hull_obs("ch", CV.convex_hull(Q.copy() if it["faces"] is None else geo()), it["pts"], pl))
    if not lean:
        guarded(r, tag + ".convex_hull", lambda: hull_obs(tag, geo().convex_hull, it["pts"], pl))
    # ---- axis aligned box
    r = new("aabb")
    guarded(r, tag + ".bounds", lambda: aabb_obs(tag, geo(), pl))
    # ---- oriented box
    r = new("obb")
    guarded(r, "oriented_bounds", lambda: box_obs("ob", *B.oriented_bounds(Q.copy() if it["faces"] is None else geo()), pl, 3))

    def prim():
        p = geo().bounding_box_oriented.primitive
        return box_obs(tag, np.linalg.inv(np.asarray(p.transform, dtype=np.float64)), p.extents, pl, 3)

    def applied():
        g = geo()
        ext = np.array(g.bounding_box_oriented.primitive.extents, dtype=np.float64)
        M = g.apply_obb()
        return box_obs("apply", M, ext, pl, 3, newv=np.asarray(g.vertices))

    if not lean:
        guarded(r, tag + ".bounding_box_oriented", prim)
        guarded(r, tag + ".apply_obb", applied)
    # ---- sphere
    r = new("sphere")
    guarded(r, "minimum_nsphere", lambda: sphere_obs("mn", *NS.minimum_nsphere(Q.copy()), pl, 3))

    def bsphere():
        p = geo().bounding_sphere.primitive
        return sphere_obs(tag, p.center, p.radius, pl, 3)

    if not lean:
        guarded(r, tag + ".bounding_sphere", bsphere)
    # ---- cylinder
    if it["cyl"]:
        r = new("cyl")

        def mincyl():
            res = B.minimum_cylinder(Q.copy() if it["faces"] is None else geo())
            return cyl_obs("mc", res["transform"], res["radius"], res["height"], pl)

        def bcyl():
            p = geo().bounding_cylinder.primitive
            return cyl_obs(tag, p.transform, p.radius, p.height, pl)

        if it["faces"] is not None or it["k"] % 2 == 1:
            guarded(r, "minimum_cylinder", mincyl)
        if it["faces"] is not None or it["k"] % 2 == 0:
            guarded(r, tag + ".bounding_cylinder", bcyl)

    return out


def run_chunk(items):
    trimesh = import_trimesh()
    logging.getLogger("trimesh").setLevel(logging.CRITICAL)
    return [observe(trimesh, it) for it in items]


# ------------------------------------------------------------------ inputs
def spans(P, d):
    A = np.asarray(P, dtype=np.int64)
    return len(A) > d and np.linalg.matrix_rank(A[1:] - A[0]) == d


def steer_general(P, d):
    """used ONLY to steer the enumeration towards inputs on which the minimality clause applies
    (TLC decides general position itself and reports how many records it decided)"""
    A = np.asarray(P, dtype=np.float64)
    for S in itertools.combinations(range(len(A)), d + 2):
        X = A[list(S[:-1])] - A[S[-1]]
        M = np.column_stack((X, (X ** 2).sum(axis=1)))
        if abs(np.linalg.det(M)) < 0.5:
            return False
    return True


def voxel_surface(cells):
    """outward wound boundary of a union of unit cells -> (vertices, faces)"""
    cells = set(cells)
    index, verts, faces = {}, [], []

    def vid(p):
        p = tuple(p)
        if p not in index:
            index[p] = len(verts)
            verts.append(p)
        return index[p]

    for cell in sorted(cells):
        for ax in range(3):
            for s in (1, -1):
                nb = list(cell)
                nb[ax] += s
                if tuple(nb) in cells:
                    continue
                u, v = (ax + 1) % 3, (ax + 2) % 3
                q = []
                for du, dv in ((0, 0), (1, 0), (1, 1), (0, 1)):
                    p = list(cell)
                    p[ax] += 1 if s == 1 else 0
                    p[u] += du
                    p[v] += dv
                    q.append(vid(p))
                if s == -1:
                    q = q[::-1]
                faces += [[q[0], q[1], q[2]], [q[0], q[2], q[3]]]
    return verts, faces


def lattice_maps(rs):
    """a random symmetry of the cube {0..3}^3 (axis permutation and reflections x -> 3 - x)"""
    perm = rs.permutation(3)
    flip = rs.randint(2, size=3)

    def f(p):
        q = [p[perm[a]] for a in range(3)]
        return tuple(3 - q[a] if flip[a] else q[a] for a in range(3))

    parity = (np.linalg.det(np.eye(3)[perm]) < 0) ^ (flip.sum() % 2 == 1)
    return f, bool(parity)


def mesh_library(rs, n_tet):
    """(name, vertices, faces): closed, outward wound lattice meshes with every vertex referenced"""
    out = []

    def add(name, verts, faces):
        f, mirror = lattice_maps(rs)
        verts = [f(v) for v in verts]
        if mirror:
            faces = [[a, c, b] for a, b, c in faces]
        if max(max(v) for v in verts) <= 3 and min(min(v) for v in verts) >= 0:
            out.append((name, verts, [list(map(int, x)) for x in faces]))

    box = [(0, 0, 0), (1, 0, 0), (1, 1, 0), (0, 1, 0), (0, 0, 1), (1, 0, 1), (1, 1, 1), (0, 1, 1)]
    boxf = [[0, 2, 1], [0, 3, 2], [4, 5, 6], [4, 6, 7], [0, 1, 5], [0, 5, 4], [1, 2, 6], [1, 6, 5],
            [2, 3, 7], [2, 7, 6], [3, 0, 4], [3, 4, 7]]
    for dx, dy, dz in itertools.product((1, 2, 3), repeat=3):
        if rs.rand() < 0.45 or (dx == dy == dz):
            o = [rs.randint(0, 4 - e) for e in (dx, dy, dz)]
            add("box", [(o[0] + x * dx, o[1] + y * dy, o[2] + z * dz) for x, y, z in box], boxf)
    for _ in range(n_tet):
        while True:
            T = [GRID3[j] for j in rs.choice(64, 4, replace=False)]
            A = np.array(T)
            det = round(np.linalg.det((A[1:] - A[0]).astype(float)))
            if det != 0:
                break
        a, b, c, e = range(4)
        faces = [[a, c, b], [a, b, e], [a, e, c], [b, c, e]]
        if det < 0:
            faces = [[x, z, y] for x, y, z in faces]
        add("tetrahedron", T, faces)
    for cells in ([(0, 0, 0), (1, 0, 0), (0, 1, 0)], [(0, 0, 0), (1, 0, 0), (0, 1, 0)], [(0, 0, 0), (1, 0, 0), (0, 1, 0)],
                  [(0, 0, 0), (1, 0, 0), (0, 1, 0)]):
        v, f = voxel_surface(cells)
        sc = [1, 1, rs.randint(1, 4)]
        o = [rs.randint(0, 2), rs.randint(0, 2), rs.randint(0, 4 - sc[2])]
        add("L_prism", [(o[0] + p[0], o[1] + p[1], o[2] + p[2] * sc[2]) for p in v], f)
    octf = [[0, 2, 4], [2, 1, 4], [1, 3, 4], [3, 0, 4], [2, 0, 5], [1, 2, 5], [3, 1, 5], [0, 3, 5]]
    for c, rp, rn in (((1, 1, 1), (1, 1, 1), (1, 1, 1)), ((2, 2, 2), (1, 1, 1), (1, 1, 1)), ((1, 2, 1), (1, 1, 1), (1, 1, 1)),
                      ((1, 1, 1), (2, 2, 2), (1, 1, 1)), ((1, 1, 1), (2, 1, 2), (1, 1, 1)), ((2, 1, 2), (1, 2, 1), (2, 1, 2)),
                      ((1, 1, 2), (2, 2, 1), (1, 1, 2))):
        v = [(c[0] + rp[0], c[1], c[2]), (c[0] - rn[0], c[1], c[2]), (c[0], c[1] + rp[1], c[2]), (c[0], c[1] - rn[1], c[2]),
             (c[0], c[1], c[2] + rp[2]), (c[0], c[1], c[2] - rn[2])]
        add("octahedron", v, octf)
    return out


def point_families(rs, counts):
    """(family, points) - 3D sets of 5..10 points of {0..3}^3 spanning three dimensions"""
    def take(fam, gen):
        n = tries = 0
        while n < counts[fam]:
            tries += 1
            if tries > 200 * counts[fam] + 1000:
                raise MachineryError("family " + fam + " cannot be generated")
            P = gen()
            if P is None or not (5 <= len(P) <= 10) or not spans(P, 3):
                continue
            P = [tuple(int(x) for x in p) for p in P]
            order = rs.permutation(len(P))
            yield fam, [P[j] for j in order]
            n += 1

    def random():
        return [GRID3[j] for j in rs.choice(64, rs.randint(5, 11), replace=False)]

    def block():
        ax = [sorted(rs.choice(4, 2, replace=False)) for _ in range(3)]
        P = [(x, y, z) for x in ax[0] for y in ax[1] for z in ax[2]]
        inside = [p for p in GRID3 if all(ax[a][0] <= p[a] <= ax[a][1] for a in range(3)) and p not in P]
        extra = rs.randint(0, 3)
        pool = inside if (inside and rs.rand() < 0.8) else [p for p in GRID3 if p not in P]
        for j in rs.choice(len(pool), min(extra, len(pool)), replace=False):
            P.append(pool[j])
        return P

    def slab():
        a = rs.randint(3)
        z0 = rs.randint(4)
        P = []
        for x, y in itertools.product(range(3), repeat=2):
            p = [0, 0, 0]
            p[a], p[(a + 1) % 3], p[(a + 2) % 3] = z0, x, y
            P.append(tuple(p))
        apex = GRID3[rs.randint(64)]
        return P + [apex] if apex[a] != z0 else None

    def cluster():
        o = rs.randint(0, 3, size=3)
        sub = [(o[0] + x, o[1] + y, o[2] + z) for x, y, z in itertools.product(range(2), repeat=3)]
        n = rs.randint(5, 11)
        k = rs.randint(1, 3)
        P = [sub[j] for j in rs.choice(8, min(8, n - k), replace=False)]
        rest = [p for p in GRID3 if p not in P]
        return P + [rest[j] for j in rs.choice(len(rest), k, replace=False)]

    def flat():
        a = rs.randint(3)
        z0 = rs.randint(3)
        pool = [p for p in GRID3 if p[a] in (z0, z0 + 1)]
        return [pool[j] for j in rs.choice(len(pool), rs.randint(5, 11), replace=False)]

    def generic():
        for _ in range(400):
            P = [GRID3[j] for j in rs.choice(64, rs.randint(5, 8), replace=False)]
            if spans(P, 3) and steer_general(P, 3):
                return P
        return None

    def ties():
        even = [p for p in GRID3 if all(x in (0, 2) for x in p)]
        P = [even[j] for j in rs.choice(8, rs.randint(4, 7), replace=False)]
        pairs = list(itertools.combinations(range(len(P)), 2))
        for j in rs.permutation(len(pairs))[: rs.randint(1, 5)]:
            a, b = pairs[j]
            m = tuple((P[a][x] + P[b][x]) // 2 for x in range(3))
            if m not in P and len(P) < 10:
                P.append(m)
        sh = rs.randint(0, 2, size=3)
        return [tuple(p[x] + sh[x] for x in range(3)) for p in P]

    def dups():
        P = [GRID3[j] for j in rs.choice(64, rs.randint(5, 10), replace=False)]
        return P + [P[rs.randint(len(P))]]

    gens = {"random": random, "block": block, "slab": slab, "cluster": cluster, "flat": flat,
            "generic": generic, "ties": ties, "dups": dups}
    for fam in gens:
        yield from take(fam, gens[fam])


def planar_families(rs, counts):
    def take(fam, gen):
        n = 0
        while n < counts[fam]:
            P = gen()
            if P is None or not spans(P, 2):
                continue
            yield fam, [tuple(int(x) for x in p) for p in P]
            n += 1

    def random():
        return [GRID2[j] for j in rs.choice(16, rs.randint(3, 10), replace=False)]

    def generic():
        for _ in range(400):
            P = [GRID2[j] for j in rs.choice(16, rs.randint(3, 6), replace=False)]
            if spans(P, 2) and steer_general(P, 2):
                return P
        return None

    def block():
        ax = [sorted(rs.choice(4, 2, replace=False)) for _ in range(2)]
        P = [(x, y) for x in ax[0] for y in ax[1]]
        rest = [p for p in GRID2 if p not in P]
        return P + [rest[j] for j in rs.choice(len(rest), rs.randint(0, 4), replace=False)]

    for fam, gen in (("planar_random", random), ("planar_generic", generic), ("planar_block", block)):
        yield from take(fam, gen)


def placements(rs, d, how_many):
    """origin first, then `how_many` of: far (+-10^4 on every axis), far on one axis, scaled by 2^10,
    far and scaled"""
    sign = lambda: [int(s) for s in rs.choice([-FAR, FAR], d)]
    one = [0] * d
    one[rs.randint(d)] = int(rs.choice([-FAR, FAR]))
    others = [("far", sign(), 1), ("far_scaled", sign(), BIG), ("scaled", [0] * d, BIG), ("far_one_axis", one, 1)]
    first = rs.randint(2)          # always at least one placement far on every axis
    rest = [others[first]] + [others[j] for j in rs.permutation(4) if j != first]
    return [("origin", [0] * d, 1)] + rest[:how_many]


def scripts(rs, cyl):
    """read orders and exact moves for one object (see observe_history)"""
    def move():
        u = rs.randint(3)
        if u == 0:
            v = [int(x) for x in rs.randint(-3, 4, size=3)]
            return ("translate", v if any(v) else [2, -1, 3])
        if u == 1:
            return ("scale", 2)
        while True:
            perm, flip = [int(x) for x in rs.permutation(3)], [int(x) for x in rs.randint(2, size=3)]
            if perm != [0, 1, 2] or any(flip):
                return ("symmetry", perm, flip)

    c = [("cyl",)] if cyl else []
    hull_first = [("hull",), ("obb",), ("sphere",)] + c
    sphere_first = [("sphere",), ("hull",), ("obb",)] + c
    nsphere_first = [("mn",), ("ob",), ("hull",)] + c
    prim_first = [("prim",), ("hull",), ("cyl",), ("obb",)]
    return [
        hull_first + [move()] + hull_first + [move()] + sphere_first,
        sphere_first + [move()] + [("obb",), ("hull",), ("sphere",)] + c + [("apply_obb",)],
        nsphere_first + [move(), move()] + [("hull",), ("sphere",), ("ob",)],
        prim_first + [move()] + [("prim",), ("hull",), ("obb",), ("sphere",)],
    ]


def wide_sets(rs, count):
    """tight lattice clusters 10^5 apart: (family, [(cl, lo), ...]); the hull has faces inside a cluster
    (area about 1) next to faces spanning clusters (area about 10^10)"""
    out = []
    corners = list(itertools.product((0, 1), repeat=3))
    # a cube with chamfered corners: at every corner the three lattice neighbours of the corner along its edges
    for size in (1, 2):
        P = []
        for c in corners:
            for a in range(3):
                lo = [3 if c[x] else 0 for x in range(3)]
                lo[a] += -size if c[a] else size
                P.append((tuple(c), tuple(lo)))
        out.append(("wide_chamfered_cube", P))
    while len(out) < count:
        k = rs.randint(2, 5)
        cl = [corners[j] for j in rs.choice(8, k, replace=False)]
        if rs.rand() < 0.3:
            cl = [tuple(int(x) * rs.randint(1, 3) for x in c) for c in cl]
        P = []
        for c in cl:
            for j in rs.choice(64, rs.randint(1, 5), replace=False):
                P.append((tuple(c), GRID3[j]))
        A = np.array([[c * WIDE_L + l for c, l in zip(cl_, lo)] for cl_, lo in P], dtype=np.float64)
        if 4 <= len(P) <= 16 and np.linalg.matrix_rank(A[1:] - A[0]) == 3:
            out.append(("wide_clusters", P))
    return out


def work_items(tier):
    rs = np.random.RandomState(seed() + 1616)
    big = tier == "thorough"
    m = 12 if big else 1
    counts = {"random": 140 * m, "block": 50 * m, "slab": 6 * m, "cluster": 40 * m, "flat": 50 * m,
              "generic": 100 * m, "ties": 60 * m, "dups": 16 * m}
    pcounts = {"planar_random": 60 * m, "planar_generic": 60 * m, "planar_block": 20 * m}
    items = []
    base = 0

    def add(fam, dim, pts, faces, nplace, lean=False):
        nonlocal base
        for name, off, sc in placements(rs, dim, nplace):
            k = len(items)
            items.append({"k": k, "base": base, "family": fam, "dim": dim, "pts": pts, "faces": faces,
                          "place": name, "off": off, "sc": sc, "lean": lean,
                          "cyl": dim == 3 and not lean and (faces is not None or k % 5 == 0), "sane": k % 8 == 0})
        base += 1

    for fam, P in point_families(rs, counts):
        add(fam, 3, P, None, 4 if big else 2)
    for rep in range(8 if big else 1):
        for name, verts, faces in mesh_library(rs, 60 if big else 16):
            add("mesh_" + name, 3, verts, faces, 4 if big else 2)
    for fam, P in planar_families(rs, pcounts):
        add(fam, 2, P, None, 2 if big else 1)
    # ---- histories on one object: read orders, exact moves, reads again
    nh = (40 * m, 24 * m)
    pool = [P for _, P in point_families(rs, {"random": nh[0], "block": 0, "slab": 0, "cluster": 0, "flat": 0,
                                              "generic": 0, "ties": nh[0] // 4, "dups": 0})]
    objs = [("pc", P, None) for P in pool] + [("mesh", v, f) for _, v, f in mesh_library(rs, nh[1])]
    for j, (tag, P, F) in enumerate(objs):
        if len(P) > 12:
            continue
        name, off, sc = placements(rs, 3, 1)[j % 2]
        for n, script in enumerate(scripts(rs, cyl=(j % 4 == 0))):
            if n == 3 and j % 3:
                continue        # bounding_primitive evaluates the (slow) cylinder: every third object
            if (j + n) % 2 == 0 or tag == "mesh":
                k = len(items)
                items.append({"k": k, "base": base, "family": "history_" + tag, "dim": 3, "pts": P, "faces": F,
                              "place": name, "off": off, "sc": sc, "script": script, "sane": False})
        base += 1
    # ---- wide inputs
    for fam, P in wide_sets(rs, 30 * m):
        for name, off, sc in placements(rs, 3, 1):
            k = len(items)
            items.append({"k": k, "base": base, "family": fam, "dim": 3, "pts": P, "faces": None, "wide": True,
                          "place": name, "off": off, "sc": sc, "sane": k % 4 == 0})
        base += 1
    if big:
        # every 4- and 5-point subset of {0,1,2}^3 that spans three dimensions (every fourth also far away)
        grid = [p for p in GRID3 if max(p) <= 2]
        for n in (4, 5):
            for j, S in enumerate(itertools.combinations(grid, n)):
                if spans(S, 3):
                    add("all_%d_subsets_of_grid3" % n, 3, list(S), None, 1 if j % 4 == 0 else 0, lean=True)
    return items


# ------------------------------------------------------------------ verdicts
def detail_of(rec, it):
    d = {"family": it["family"], "dim": it["dim"], "place": it["place"], "off": it["off"], "sc": it["sc"],
         "pts": it["pts"], "faces": it["faces"], "kind": rec["kind"], "exc": rec["exc"], "obs": rec["obs"]}
    if it.get("script"):
        d.update(script=it["script"], history=rec.get("hist", ""), vertices_then=rec["pts"],
                 off_then=rec["off"], sc_then=rec["sc"])
    if it.get("wide"):
        d["wide"] = True
    return d


def main(argv):
    tier = tier_from_args(argv)
    V = Verdict(PROP, tier)
    import_trimesh()
    replay = "--replay" in argv
    if replay:
        rp = json.load(open(argv[argv.index("--replay") + 1]))
        items = []
        for v in rp["violations"]:
            d = v["detail"]
            for name, off, sc in (("origin", [0] * d["dim"], 1), (d["place"], d["off"], d["sc"])):
                it = {"k": len(items), "base": len(items) // 2, "family": d["family"], "dim": d["dim"],
                      "pts": [tuple(p) for p in d["pts"]], "faces": d["faces"], "place": name, "off": off,
                      "sc": sc, "cyl": d["dim"] == 3, "sane": True}
                if d.get("script"):
                    it.update(script=[tuple(x) for x in d["script"]], sane=False)
                if d.get("wide"):
                    it.update(wide=True, pts=[(tuple(c), tuple(l)) for c, l in d["pts"]])
                items.append(it)
    else:
        items = work_items(tier)
    if not items or (not replay and len(items) < 1000):
        raise MachineryError("too few inputs enumerated")
    states = total = nrej = 0
    wall = 0.0
    fam, kinds, apis, places, notes, stats = {}, {}, {}, {}, {}, {}
    samples = []
    bump = lambda d, k, n=1: d.__setitem__(k, d.get(k, 0) + n)
    round_size = 12000 if tier == "thorough" else 4000
    origin_ok = set()      # base sets whose hull at the origin TLC accepted (the origin placement always comes first)
    scratch = "c16/run_%d" % os.getpid()      # concurrent runs (bin/try_patch) must not share shard directories
    for r0 in range(0, len(items), round_size):
        part = items[r0:r0 + round_size]
        res = pmap(run_chunk, part, chunk=max(8, min(60, len(part) // 64 + 1)))
        groups = [g for r in res for g in r]
        if len(groups) != len(part):
            raise MachineryError("lost records")
        cases = []
        for it, g in zip(part, groups):
            for rec in g:
                rec["id"] = len(cases)
                cases.append(rec)
        rejects, st, w = tlc.validate_batches(scratch, "Hull", cases, CFG, timeout=1500)
        states += st
        wall += w
        total += len(cases)
        byitem = {it["k"]: it for it in part}
        # hull records of the same base set at the origin that TLC accepted (input predicate of DEV_HULL_FAR)
        origin_ok |= {byitem[c["item"]]["base"] for c in cases
                      if c["kind"] == "hull" and byitem[c["item"]]["place"] == "origin"
                      and c["id"] not in rejects}
        for c in cases:
            it = byitem[c["item"]]
            bump(kinds, c["kind"])
            if c["kind"] == "obb":
                bump(places, it["place"])
            if c["kind"] in ("hull", "hullw"):
                bump(fam, it["family"])
            if it.get("script"):
                bump(stats, "records_read_in_a_history_after_a_move", int(any(
                    x in c.get("hist", "") for x in ("translate", "scale", "symmetry"))))
                bump(stats, "records_read_in_a_history_before_any_move", int(not any(
                    x in c.get("hist", "") for x in ("translate", "scale", "symmetry"))))
            for o in c["obs"]:
                bump(apis, c["kind"] + ":" + o["api"])
            if c["kind"] == "hull" and not c["exc"] and c["obs"]:
                o = c["obs"][0]
                bump(stats, "hulls_with_an_input_that_is_no_vertex", int(len(set(o["hv"])) < len(set(it["pts"]))))
                bump(stats, "hulls_with_a_zero_area_face", int(any(x["zero_area_faces"] for x in c["obs"])))
                bump(stats, "hull_faces", len(o["hf"]))
            if c["kind"] == "sphere" and not c["exc"]:
                bump(stats, "sphere_observations_snapped_exact", sum(1 for o in c["obs"] if o["snap"]))
                bump(stats, "sphere_observations_fixed_point_only", sum(1 for o in c["obs"] if not o["snap"]))
            clause = rejects.get(c["id"])
            if clause is None:
                continue
            name = clause.split(":")[-1]
            if name.startswith("note_"):
                bump(notes, ("planar_" if c["dim"] == 2 else "") + name[5:])
                continue
            nrej += 1
            dev = None
            if c["kind"] == "hull" and any(it["off"]) and it["base"] in origin_ok \
                    and name in ("hull_not_watertight", "hull_reports_is_watertight_false"):
                dev = DEV_HULL_FAR
            if c["kind"] == "sphere" and name.startswith("sphere_not_minimal") \
                    and name.rsplit("_", 1)[-1] in ("1", "2", "3")[:c["dim"]]:
                dev = DEV_SPHERE          # fewer than dim + 1 inputs on the boundary of the minimal ball
            V.violation(clause, detail_of(c, it), dev)
        if len(samples) < 4:
            for kind in ("hull", "sphere", "obb", "hullw"):
                pick = [c for c in cases if c["kind"] == kind and not c["exc"] and ("hist" in c) == (kind == "obb")]
                if pick:
                    samples.append({k: v for k, v in pick[len(pick) // 3].items() if k not in ("id", "item")})
    shutil.rmtree(os.path.join(WORK, scratch), ignore_errors=True)
    decided = sum(v for k, v in notes.items() if "minimal_ball_decided" in k)
    if not replay and not V.violations:
        # nothing was rejected: make sure the interesting situations were really met
        if kinds.get("hull", 0) < 800 or kinds.get("cyl", 0) < 100 or kinds.get("obb", 0) < 800 \
                or kinds.get("sphere", 0) < 800 or stats.get("hulls_with_an_input_that_is_no_vertex", 0) < 100 \
                or kinds.get("hullw", 0) < 40 or stats.get("records_read_in_a_history_after_a_move", 0) < 300:
            raise MachineryError(f"enumeration nearly empty: {kinds} {stats}")
        if decided < 100:
            raise MachineryError(f"minimality clause decided on {decided} records only: {notes}")
    cov = {
        "states": states, "transitions": states,
        "traces_validated_against_impl": total,
        "placed_inputs": len(items),
        "base_inputs": len({it["base"] for it in items}),
        "records_per_kind": kinds,
        "observations_per_api": apis,
        "hull_records_per_family": fam,
        "placed_inputs_per_placement": places,
        "exercised": stats,
        "sphere_records_accepted_by_tlc": notes,
        "rejected": nrej,
        "exhaustive": tier == "thorough",
        "exhaustive_scopes": (["every 4- and 5-point subset of {0,1,2}^3 spanning three dimensions (hull, bounds, oriented "
                               "box, sphere; at the origin, every fourth also far away)"] if tier == "thorough" else []),
        "tlc_wall_s": round(wall, 1),
        "samples": samples[:4],
    }
    return V.finish("model_checking", cov, assumptions=[
        "inputs are 5..10 points (meshes: 4..12 vertices) of the lattice {0..3}^3 spanning three dimensions, and 3..9 "
        "points of {0..3}^2 spanning the plane; placed at the origin, translated by +-10^4 per axis, scaled by 2^10 "
        "(exact in doubles; results are mapped back by the same exact offset and scale)",
        "a hull vertex counts as an input point when it equals one within 1e-9 after mapping back",
        "sphere: exact comparison when the reported centre is within 1e-7 of fractions of denominator <= 2000, else the "
        "weaker fixed-point form; minimality only for inputs in general position (no five cospherical / four cocircular)",
        "oriented box and cylinder: fixed point 1e-4 with slack 1e-3 (containment, rigid frame, centred); minimality of "
        "these two is not claimed by the property and not checked",
        "histories: every read on a moved / already queried object is judged against the vertices read back from the "
        "object after the reads (the moves themselves are property C19); wide sets: coordinates cl * 10^5 + lo, hull "
        "clauses only, signs decided as polynomials in 10^5",
        "not constrained: inputs on hull faces/edges being vertices or not, zero-area hull faces, meshes with "
        "unreferenced vertices (Trimesh.bounds documents that it ignores them), degenerate inputs (coplanar 3D sets), "
        "nsphere.fit_nsphere (a least-squares fit, not a bound)",
    ])


if __name__ == "__main__":
    try:
        sys.exit(main(sys.argv[1:]))
    except MachineryError as e:
        print("MACHINERY-ERROR:", e)
        sys.exit(2)
