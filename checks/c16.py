"""C16 - convex hulls and bounding volumes contain what they bound.

Reference semantics: spec/Hull.tla.  Exact integer part: a recorded hull (vertices as indices
into the input set, faces as index triples) has only input points as vertices, is watertight and
consistently wound, has every input on the non-positive side of every face plane (convex,
contains the inputs, outward), and has every extreme input (Caratheodory test against the
others) among its vertices; bounds / extents / bounding_box are the exact min / max; the
minimal enclosing ball is computed by TLC as the circumball of a support set (rational centre
with a common denominator) and - for inputs in general position, decided by in-sphere
determinants - the reported ball must be that ball.  Fixed-point part (values x 10^4, slack
stated in the spec): oriented boxes (rigid frame, containment, centred) and cylinders.

code -> spec: Python enumerates small lattice point sets and meshes (seeded), places them at the
origin / far away (+-10^4 per axis) / scaled by 2^10 (all exact in doubles), calls the real
  trimesh.convex.convex_hull, PointCloud.convex_hull, Trimesh.convex_hull (+ is_watertight,
  is_winding_consistent, is_convex, volume of the result), .bounds, .extents, .bounding_box,
  trimesh.bounds.oriented_bounds / oriented_bounds_2D, .bounding_box_oriented, .apply_obb,
  trimesh.nsphere.minimum_nsphere (3D and 2D), .bounding_sphere,
  trimesh.bounds.minimum_cylinder, .bounding_cylinder
maps every returned coordinate back by the exact offset and scale, projects it (index of the
equal input point / integer / fraction of bounded denominator with a residual test / fixed
point) and has TLC validate every record in batch.  Python computes no expected value.
nsphere.fit_nsphere is a least-squares fit, not a bound: it is only exercised through
minimum_nsphere and nothing is demanded of it.

Besides the single calls on fresh objects there are
  histories   one PointCloud / Trimesh object, volumes read in several orders (hull first, sphere
              first, minimum_nsphere(obj) first, bounding_primitive first), the object moved by
              apply_translation / apply_scale / apply_transform with exact integer maps, volumes
              read again, apply_obb last: every read is a record judged against the vertices the
              object has at that moment (stale caches, results that alias and corrupt each other);
  wide sets   tight lattice clusters 10^5 apart (chamfered cube corners, random clusters): hull
              faces of area ~1 next to faces of area ~10^10; TLC evaluates the orientation
              determinants as polynomials in L = 10^5 (kind "hullw").

Audit extension (the quantifier names "widely scaled", "translated far", "flat-ish", "random" clouds
and "a geometry" in general; the families above stop at 2^10, 10^4, two lattice layers, 10 points
and PointCloud / Trimesh).  Every placement is q[a] = (p[a] + off[a]) * 2^sce[a] (exact):
  magnitudes  family mag_*: a common scale 2^-26 .. 2^-16 and 2^20 .. 2^60, offsets 2^20 .. 2^30
              lattice steps, both together; all kinds, judged by the unchanged clauses.
  shapes      family shape_*: one or two axes thinner by 2^-8 .. 2^-24 (flat-ish, needle-like), mixed
              exponents: hull and aabb exactly (affine invariants), the oriented box in the normalised
              form "obbn" (apply_obb: rigid matrix, moved vertices inside the reported extents, centred).
  variants    every fourth full item: the same calls through other containers (list, int64, float32,
              Fortran order, strided view, PointCloud / hull mesh as the argument) and options
              (qhull_options None / str / QhullOptions / QJ, repair=False, oriented_bounds ordered /
              angle_digits / normal, apply_obb(**kwargs), minimum_cylinder sample_count / angle_tol).
  larger sets family big_*: 12..64 points / mesh vertices of {0..7}^3 (random, full blocks, cospherical
              shells, two layers, clusters, non-convex voxel surfaces): kinds hullb, aabb, obb, ballc, cyl.
  flat        family flat_*: three points / a mesh of one triangle (qhull fails even with QJ: the documented
              coplanar branch of bounds.oriented_bounds) and 4..8 points / a sheet of triangles of one lattice
              plane: axis-aligned and oriented box only (kinds aabbf, obbf), placed like the base families.
  objects     family object_*: Scene (two or three placed parts under lattice symmetries), Box and
              Extrusion primitives (Extrusion overrides bounding_box_oriented): hull, aabb, obb, sphere,
              cyl, bounding_primitive of the object itself.
"""
import itertools
import json
import logging
import math
import os
import shutil
import sys
from fractions import Fraction

import numpy as np

from harness import tlc
from harness.common import (WORK, MachineryError, Verdict, import_trimesh, pmap, seed,
                            tier_from_args)

PROP = "C16"
CFG = "INIT Init\nNEXT Next\nINVARIANT Report\nINVARIANT InputSane\nINVARIANT RefSane\nCHECK_DEADLOCK FALSE\n"
K = 10000                 # fixed-point unit of spec/Hull.tla
FAR = 10000
BIGE = 10                 # the base families' scale is 2^10
LIMIT = 5.0e4             # |value| (in lattice steps) representable in the fixed point of the spec
DEV_HULL_FAR = "HullFarFromOriginNotWatertight"
DEV_SPHERE = "MinimumNsphereIgnoresSmallSupport"
GRID3 = [tuple(p) for p in itertools.product(range(4), repeat=3)]
GRID2 = [tuple(p) for p in itertools.product(range(4), repeat=2)]


# ------------------------------------------------------------------ projection
class Raised(Exception):
    """the implementation returned something that cannot be a result (non-finite, wrong shape)"""


def fx(name, x):
    x = float(x)
    if not np.isfinite(x):
        raise Raised("nonfinite_" + name)
    if abs(x) > LIMIT:
        raise MachineryError(f"{name} = {x} cannot be represented in the fixed point of Hull.tla")
    return int(round(x * K))


def fxv(name, v, n):
    v = np.asarray(v, dtype=np.float64).reshape(-1)
    if v.shape != (n,):
        raise Raised("shape_" + name)
    return [fx(name, x) for x in v]


class Place:
    """q[a] = (p[a] + off[a]) * 2^sce[a], exact in doubles; back() is the exact way back.  sce is one exponent
    (the same on every axis) or one per axis (flat-ish / needle-like sets: hull and aabb only)"""

    def __init__(self, name, off, sce):
        self.name, self.off = name, np.array(off, dtype=np.float64)
        self.sce = [int(e) for e in (sce if isinstance(sce, (list, tuple, np.ndarray)) else [sce] * len(self.off))]
        if len(self.sce) != len(self.off):
            raise MachineryError("placement: one exponent per axis expected")
        self.scv = np.array([2.0 ** e for e in self.sce])
        self.uniform = len(set(self.sce)) == 1

    @property
    def sc(self):
        if not self.uniform:
            raise MachineryError("a length was mapped back through a placement that scales the axes differently")
        return float(self.scv[0])

    def moved(self, v):
        return Place(self.name, self.off + np.asarray(v, dtype=np.float64), self.sce)

    def scaled(self, k):
        return Place(self.name, self.off, [e + k for e in self.sce])

    def fwd(self, P):
        return (np.asarray(P, dtype=np.float64) + self.off) * self.scv

    def back(self, X):
        return np.asarray(X, dtype=np.float64) / self.scv - self.off

    def size(self, x):
        x = np.asarray(x, dtype=np.float64)
        return x / self.scv if x.shape == self.scv.shape else x / self.sc

    def frame(self, T, d):
        """(d+1)x(d+1) matrix taking placed coordinates to a frame -> rotation rows and translation of
        the same frame in lattice units: T q / sc = W p + (W off + t / sc)"""
        T = np.asarray(T, dtype=np.float64)
        if T.shape != (d + 1, d + 1):
            raise Raised("shape_transform")
        W = T[:d, :d]
        t = W @ self.off + T[:d, d] / self.sc
        return [fxv("rotation", W[r], d) for r in range(d)], fxv("translation", t, d)


def eps_of(grid):
    return 10 if grid == 3 else 25      # spec/Hull.tla: slack of the fixed-point containment clauses


def hull_obs(api, h, pts, pl, tol=1e-9, raw=False):
    P = np.asarray(pts, dtype=np.float64)
    V = pl.back(np.asarray(h.vertices, dtype=np.float64).reshape(-1, 3))
    hv = []
    for v in V:
        hit = np.nonzero(np.abs(P - v).max(axis=1) <= tol)[0]
        hv.append(int(hit[0]) if len(hit) else -1)
    F = np.asarray(h.faces)
    if F.size and (F.ndim != 2 or F.shape[1] != 3):
        raise Raised("shape_faces")
    F = F.astype(np.int64).reshape(-1, 3)
    zero = 0
    if F.size and F.min() >= 0 and F.max() < len(V):       # statistics only: faces without area, in lattice units
        tri = V[F]
        zero = int((np.linalg.norm(np.cross(tri[:, 1] - tri[:, 0], tri[:, 2] - tri[:, 0]), axis=1) < 2e-9).sum())
    return {"api": api, "hv": hv, "hf": F.tolist(), "raw": bool(raw),
            "wt": bool(h.is_watertight), "wc": bool(h.is_winding_consistent),
            "volpos": bool(h.volume > 0), "cvx": bool(h.is_convex),
            "zero_area_faces": zero}


def lattice(sn, name, X):
    X = np.asarray(X, dtype=np.float64).reshape(-1)
    if not np.isfinite(X).all():
        raise Raised("nonfinite_" + name)
    R = np.round(X)
    if np.abs(X - R).max() > 1e-9 or np.abs(R).max() > LIMIT:
        sn[0] = sn[0] or name
    return [int(x) for x in np.clip(R, -LIMIT, LIMIT)]


def aabb_obs(api, g, pl, d=3):
    sn = [""]
    b = np.asarray(g.bounds, dtype=np.float64)
    if b.shape != (2, d):
        raise Raised("shape_bounds")
    bb = g.bounding_box.primitive
    T = np.asarray(bb.transform, dtype=np.float64)
    o = {"api": api, "hasbox": True,
         "lo": lattice(sn, "bounds", pl.back(b[0])), "hi": lattice(sn, "bounds", pl.back(b[1])),
         "ext": lattice(sn, "extents", pl.size(g.extents)),
         "bext": lattice(sn, "box_extents", pl.size(bb.extents)),
         "c2": lattice(sn, "box_centre", 2.0 * pl.back(T[:d, d])),
         "rot": [fxv("box_rotation", T[r, :d], d) for r in range(d)]}
    o["offlat"] = sn[0]
    return o


def sphere_obs(api, center, radius, pl, d):
    c = pl.back(np.asarray(center, dtype=np.float64).reshape(-1))
    if c.shape != (d,):
        raise Raised("shape_center")
    r = float(pl.size(radius))
    if not (np.isfinite(c).all() and np.isfinite(r)):
        raise Raised("nonfinite_sphere")
    o = {"api": api, "snap": False, "cd": 1, "cn": [0] * d, "n2": 0,
         "C": fxv("sphere_center", c, d), "R": fx("sphere_radius", r)}
    fr = [Fraction(float(x)).limit_denominator(2000) for x in c]
    if all(abs(float(f) - x) <= 1e-7 for f, x in zip(fr, c)) and c.min() >= -1.0 and c.max() <= 4.0:
        cd = 1
        for f in fr:
            cd = cd * f.denominator // math.gcd(cd, f.denominator)
        n2f = r * r * cd * cd
        if cd <= 2000 and n2f < 2.0e9 and abs(n2f - round(n2f)) <= 0.05:
            o.update(snap=True, cd=int(cd), cn=[int(f * cd) for f in fr], n2=int(round(n2f)))
    return o


def ball_obs(api, center, radius, pl, eps):
    """larger sets: the reported ball in fixed point only (kind ballc)"""
    c = pl.back(np.asarray(center, dtype=np.float64).reshape(-1))
    if c.shape != (3,):
        raise Raised("shape_center")
    return {"api": api, "C": fxv("sphere_center", c, 3), "R": fx("sphere_radius", pl.size(radius)), "eps": eps}


def box_obs(api, T, ext, pl, d, newv=None, eps=10):
    W, t = pl.frame(T, d)
    o = {"api": api, "W": W, "t": t, "ext": fxv("extents", pl.size(ext), d), "hasnew": newv is not None, "newv": [],
         "eps": eps}
    if newv is not None:
        nv = np.asarray(newv, dtype=np.float64) / pl.sc
        o["newv"] = [fxv("moved_vertex", v, d) for v in nv]
    return o


UN = 1000000              # unit of the normalised oriented-box record (spec/Hull.tla, kind obbn)


def boxn_obs(api, T, ext, newv):
    """apply_obb on a set whose axes are scaled differently: the rotation part of the matrix and the moved
    vertices in units of half the reported extent (the box frame is no rigid image of the lattice)"""
    T = np.asarray(T, dtype=np.float64)
    ext = np.asarray(ext, dtype=np.float64).reshape(-1)
    nv = np.asarray(newv, dtype=np.float64)
    if T.shape != (4, 4) or ext.shape != (3,) or nv.ndim != 2 or nv.shape[1] != 3:
        raise Raised("shape_transform")
    if not (np.isfinite(ext).all() and (ext > 0).all()):
        raise Raised("extent_not_positive")
    u = nv / (ext / 2.0)
    if not np.isfinite(u).all():
        raise Raised("nonfinite_moved_vertex")
    u = np.clip(u, -1000.0, 1000.0)
    return {"api": api, "W": [fxv("rotation", T[r, :3], 3) for r in range(3)],
            "u": [[int(round(x * UN)) for x in row] for row in u]}


def cyl_obs(api, transform, radius, height, pl, eps=10):
    M = np.asarray(transform, dtype=np.float64)
    if M.shape != (4, 4) or not np.isfinite(M).all():
        raise Raised("shape_transform")
    W, t = pl.frame(np.linalg.inv(M), 3)
    return {"api": api, "W": W, "t": t, "r": fx("radius", pl.size(radius)), "h": fx("height", pl.size(height)),
            "eps": eps}


def guarded(rec, name, thunk):
    """run one API; an exception of the implementation is recorded, never swallowed"""
    if rec["exc"]:
        return
    try:
        rec["obs"].append(thunk())
    except MachineryError:
        raise
    except Raised as e:
        rec["exc"] = f"{name}:{e}"[:40]
    except BaseException as e:  # noqa - the implementation raised on a valid input
        rec["exc"] = f"{name}:{type(e).__name__}"[:40]


WIDE_L = 100000


def observe_wide(trimesh, it):
    """hull of tight lattice clusters far apart: point = cl * L + lo (spec/Hull.tla, kind hullw)"""
    pl = Place(it["place"], it["off"], it["sce"])
    P = np.array([[c * WIDE_L + l for c, l in zip(cl, lo)] for cl, lo in it["pts"]], dtype=np.float64)
    Q = pl.fwd(P)
    rec = {"exc": "", "kind": "hullw", "dim": 3, "L": WIDE_L, "pts": [[list(cl), list(lo)] for cl, lo in it["pts"]],
           "off": [int(x) for x in it["off"]], "sce": pl.sce, "grid": 3, "sane": bool(it["sane"]), "item": it["k"],
           "obs": []}
    guarded(rec, "convex_hull", lambda: hull_obs("ch", trimesh.convex.convex_hull(Q.copy()), P, pl, tol=1e-6))
    guarded(rec, "pc.convex_hull", lambda: hull_obs("pc", trimesh.PointCloud(Q.copy()).convex_hull, P, pl, tol=1e-6))
    return [rec]


def cube_symmetry(perm, flip):
    """the lattice map p -> S p + c of the cube {0..3}^3 onto itself"""
    S = np.zeros((3, 3))
    c = np.zeros(3)
    for a in range(3):
        S[a, perm[a]] = -1.0 if flip[a] else 1.0
        c[a] = 3.0 if flip[a] else 0.0
    return S, c


def observe_history(trimesh, it):
    """one object, a script of reads and exact moves; every read is one record whose pts are the
    vertices the object has at that moment (read back AFTER the volumes of the group were read, so
    that the harness does not touch the vertex array between a move and the reads that follow it)"""
    pl = Place(it["place"], it["off"], it["sce"])
    Q = pl.fwd(it["pts"])
    if it["faces"] is None:
        g = trimesh.PointCloud(Q.copy())
        tag = "pc"
    else:
        g = trimesh.Trimesh(vertices=Q.copy(), faces=np.array(it["faces"], dtype=np.int64), process=False)
        tag = "mesh"
    out, group, done = [], [], []

    def current():
        V = pl.back(np.array(g.vertices, dtype=np.float64))
        R = np.round(V)
        if V.shape != (len(it["pts"]), 3) or np.abs(V - R).max() > 1e-9 or R.min() < 0 or R.max() > 3:
            raise MachineryError("history %s: the object's vertices left the lattice (transforms are property C19)"
                                 % "/".join(done))
        return [[int(x) for x in p] for p in R]

    def flush():
        if group:
            pts = current()
            P = np.asarray(pts, dtype=np.float64)
            for r in group:
                r["pts"] = pts
                for o in r["obs"]:
                    if "_V" in o:       # hull vertices -> indices of the equal current vertex
                        o["hv"] = [int(hit[0]) if len(hit) else -1 for hit in
                                   (np.nonzero(np.abs(P - v).max(axis=1) <= 1e-9)[0] for v in o.pop("_V"))]
            group.clear()

    def hull_later(h, pl_now):
        o = hull_obs(tag, h, np.zeros((0, 3)), pl_now)
        o["_V"] = pl_now.back(np.asarray(h.vertices, dtype=np.float64).reshape(-1, 3))
        return o

    def read(kind, name, thunk):
        r = {"exc": "", "kind": kind, "dim": 3, "pts": None, "off": [int(x) for x in pl.off], "sce": pl.sce, "grid": 3,
             "sane": False, "item": it["k"], "hist": "/".join(done + [name]), "obs": []}
        guarded(r, name, thunk)
        group.append(r)
        out.append(r)
        done.append(name)

    def prim_obs(p):
        return primitive_obs(p, tag, pl)

    for step in it["script"]:
        op = step[0]
        if op == "hull":
            read("hull", "convex_hull", lambda: hull_later(g.convex_hull, pl))
        elif op == "obb":
            read("obb", "bounding_box_oriented", lambda: prim_obs(g.bounding_box_oriented)[1])
        elif op == "ob":
            read("obb", "oriented_bounds", lambda: box_obs("ob", *trimesh.bounds.oriented_bounds(g), pl, 3))
        elif op == "sphere":
            read("sphere", "bounding_sphere", lambda: prim_obs(g.bounding_sphere)[1])
        elif op == "mn":
            read("sphere", "minimum_nsphere", lambda: sphere_obs("mn", *trimesh.nsphere.minimum_nsphere(g), pl, 3))
        elif op == "cyl":
            read("cyl", "bounding_cylinder", lambda: prim_obs(g.bounding_cylinder)[1])
        elif op == "prim":
            got = {}

            def whichever():
                got["kind"], o = prim_obs(g.bounding_primitive)
                return o

            read("obb", "bounding_primitive", whichever)
            out[-1]["kind"] = got.get("kind", "obb")
        elif op == "apply_obb":
            def applied():
                ext = np.array(g.bounding_box_oriented.primitive.extents, dtype=np.float64)
                M = g.apply_obb()
                return box_obs("apply", M, ext, pl, 3, newv=np.asarray(g.vertices))
            flush()
            r = {"exc": "", "kind": "obb", "dim": 3, "pts": current(), "off": [int(x) for x in pl.off],
                 "sce": pl.sce, "grid": 3, "sane": False, "item": it["k"], "hist": "/".join(done + ["apply_obb"]),
                 "obs": []}
            guarded(r, "apply_obb", applied)
            out.append(r)
            break           # the vertices are no lattice points any more
        else:
            flush()
            if op == "translate":
                v = np.array(step[1], dtype=np.float64)
                g.apply_translation(v * pl.sc)
                pl = pl.moved(v)
            elif op == "scale":
                if step[1] != 2:
                    raise MachineryError("histories scale by 2 only")
                g.apply_scale(2.0)
                pl = pl.scaled(1)
            elif op == "symmetry":
                S, c = cube_symmetry(step[1], step[2])
                M = np.eye(4)
                M[:3, :3] = S
                M[:3, 3] = (c + pl.off - S @ pl.off) * pl.sc
                g.apply_transform(M)
            else:
                raise MachineryError("unknown step " + str(op))
            done.append(op)
    flush()
    return out


def exact_as(Q, dtype):
    """the placed coordinates survive the conversion to `dtype` unchanged"""
    with np.errstate(all="ignore"):
        return bool(np.abs(Q).max() < 2.0 ** 31 and (Q.astype(dtype).astype(np.float64) == Q).all())


def observe_variants(trimesh, it, pl, Q, recs):
    """other options and containers that reach the same code (audit): more observations in the records of
    the item, judged by the same clauses (api names stay short: clause names are prefixed with them)"""
    B, NS, CV = trimesh.bounds, trimesh.nsphere, trimesh.convex
    P, d = it["pts"], it["dim"]
    as_list = lambda: [[float(x) for x in q] for q in Q]
    conts = [("L", as_list)]
    if exact_as(Q, np.int64):
        conts.append(("I", lambda: Q.astype(np.int64)))
    if exact_as(Q, np.float32):
        conts.append(("32", lambda: Q.astype(np.float32)))
    conts.append(("F", lambda: np.asfortranarray(Q.copy())))
    conts.append(("V", lambda: np.repeat(Q, 2, axis=0)[::2]))        # a strided view
    if d == 2:
        r = recs["obb"]
        for c, mk in conts:
            guarded(r, "oriented_bounds_2D(%s)" % c, lambda: box_obs("o2" + c, *B.oriented_bounds_2D(mk()), pl, 2))
        guarded(r, "oriented_bounds(list)", lambda: box_obs("obL", *B.oriented_bounds(as_list()), pl, 2))
        guarded(r, "oriented_bounds_2D(None)", lambda: box_obs("o2N", *B.oriented_bounds_2D(Q.copy(), qhull_options=None), pl, 2))
        r = recs["sphere"]
        for c, mk in conts[:3]:
            guarded(r, "minimum_nsphere(%s)" % c, lambda: sphere_obs("mn" + c, *NS.minimum_nsphere(mk()), pl, 2))
        return
    r = recs["hull"]
    for c, mk in conts:
        guarded(r, "convex_hull(%s)" % c, lambda: hull_obs("ch" + c, CV.convex_hull(mk()), P, pl))
    for c, opt in (("N", None), ("S", "QbB Pp Qt"), ("O", CV.QhullOptions(Qt=True, Pp=True)), ("J", CV.QhullOptions(QJ=True, Pp=True)),
                   ("T", "Qt")):
        guarded(r, "convex_hull(opt %s)" % c, lambda: hull_obs("cq" + c, CV.convex_hull(Q.copy(), qhull_options=opt), P, pl))
    guarded(r, "convex_hull(repair=False)", lambda: hull_obs("craw", CV.convex_hull(Q.copy(), repair=False), P, pl, raw=True))
    guarded(r, "PointCloud(list).convex_hull", lambda: hull_obs("pcL", trimesh.PointCloud(as_list()).convex_hull, P, pl))
    r = recs["obb"]
    for c, mk in conts[:3]:
        guarded(r, "oriented_bounds(%s)" % c, lambda: box_obs("ob" + c, *B.oriented_bounds(mk()), pl, 3))
    axis = [0.0, 0.0, 0.0]
    axis[it["k"] % 3] = 1.0
    diag = (np.array([1.0, 2.0, 2.0]) / 3.0)[np.roll(np.arange(3), it["k"] % 3)]
    for c, kw in (("U", {"ordered": False}), ("D0", {"angle_digits": 0}), ("D3", {"angle_digits": 3}),
                  ("Na", {"normal": axis}), ("Nd", {"normal": diag}), ("UD", {"ordered": False, "angle_digits": 2})):
        guarded(r, "oriented_bounds(%s)" % c, lambda: box_obs("ob" + c, *B.oriented_bounds(Q.copy(), **kw), pl, 3))
    guarded(r, "oriented_bounds(PointCloud)", lambda: box_obs("obG", *B.oriented_bounds(trimesh.PointCloud(Q.copy())), pl, 3))

    def applied_kw():
        g = trimesh.PointCloud(Q.copy())
        ext = B.oriented_bounds(Q.copy(), ordered=False, angle_digits=2)[1]
        M = g.apply_obb(ordered=False, angle_digits=2)
        return box_obs("apK", M, ext, pl, 3, newv=np.asarray(g.vertices))

    guarded(r, "apply_obb(kwargs)", applied_kw)
    r = recs["sphere"]
    for c, mk in conts[:3]:
        guarded(r, "minimum_nsphere(%s)" % c, lambda: sphere_obs("mn" + c, *NS.minimum_nsphere(mk()), pl, 3))
    guarded(r, "minimum_nsphere(PointCloud)", lambda: sphere_obs("mnG", *NS.minimum_nsphere(trimesh.PointCloud(Q.copy())), pl, 3))
    guarded(r, "minimum_nsphere(hull mesh)", lambda: sphere_obs("mnH", *NS.minimum_nsphere(CV.convex_hull(Q.copy())), pl, 3))
    if "cyl" in recs:
        r = recs["cyl"]
        for c, mk, kw in (("S4", lambda: Q.copy(), {"sample_count": 4}), ("T", lambda: Q.copy(), {"angle_tol": 0.01}),
                          ("L", as_list, {})):
            def mc():
                res = B.minimum_cylinder(mk(), **kw)
                return cyl_obs("mc" + c, res["transform"], res["radius"], res["height"], pl)
            guarded(r, "minimum_cylinder(%s)" % c, mc)


def primitive_obs(p, tag, pl, eps=10):
    kind = type(p).__name__
    if kind == "Box":
        return "obb", box_obs(tag, np.linalg.inv(np.asarray(p.primitive.transform, dtype=np.float64)), p.primitive.extents,
                              pl, 3, eps=eps)
    if kind == "Sphere":
        return "sphere", sphere_obs(tag, p.primitive.center, p.primitive.radius, pl, 3)
    if kind == "Cylinder":
        return "cyl", cyl_obs(tag, p.primitive.transform, p.primitive.radius, p.primitive.height, pl, eps=eps)
    raise Raised("primitive_" + kind)


def placed_symmetry(pl, perm, flip, shift=(0, 0, 0), local_placed=True):
    """4x4 matrix that acts like the lattice map p -> S (p + shift) + c: on placed coordinates (p + off) sc, or,
    with local_placed=False, on local coordinates p sc that carry no offset (the result is placed in both cases)"""
    S, c = cube_symmetry(perm, flip)
    M = np.eye(4)
    M[:3, :3] = S
    M[:3, 3] = (S @ np.asarray(shift, dtype=np.float64) + c + pl.off - (S @ pl.off if local_placed else 0.0)) * pl.sc
    return M


def observe_object(trimesh, it):
    """other geometry classes that expose the same volumes (audit): a Scene of placed parts under lattice
    symmetries, Box and Extrusion primitives (the latter overrides bounding_box_oriented).  it["pts"] are the
    lattice points the object is made of; for primitives they are read back from the object"""
    pl = Place(it["place"], it["off"], it["sce"])
    spec = it["object"]
    if spec["kind"] == "scene":
        tag = "sn"

        def geo():
            sc = trimesh.Scene()
            for n, part in enumerate(spec["parts"]):
                Qp = pl.fwd(part["pts"])
                if part["faces"] is None:
                    g = trimesh.PointCloud(Qp)
                else:
                    g = trimesh.Trimesh(vertices=Qp, faces=np.array(part["faces"], dtype=np.int64), process=False)
                sc.add_geometry(g, node_name="n%d" % n, geom_name="g%d" % n,
                                transform=placed_symmetry(pl, part["perm"], part["flip"]))
            return sc
        pts = [list(p) for p in it["pts"]]
    else:
        tag = "bx" if spec["kind"] == "box" else "ex"

        def geo():
            if spec["kind"] == "box":
                ext = np.array(spec["ext"], dtype=np.float64)
                M = np.eye(4)
                M[:3, 3] = (np.array(spec["o"], dtype=np.float64) + ext / 2.0 + pl.off) * pl.sc
                return trimesh.primitives.Box(extents=ext * pl.sc, transform=M)
            from shapely.geometry import Polygon
            poly = Polygon([(x * pl.sc, y * pl.sc) for x, y in spec["poly"]])
            M = placed_symmetry(pl, spec["perm"], spec["flip"], shift=(0, 0, spec["z0"]), local_placed=False)
            return trimesh.primitives.Extrusion(polygon=poly, height=spec["h"] * pl.sc, transform=M)
        V = pl.back(np.asarray(geo().vertices, dtype=np.float64))
        R = np.round(V)
        want = {tuple(int(x) for x in q) for q in it["pts"]}
        if V.ndim != 2 or not len(V) or np.abs(V - R).max() > 1e-9 or {tuple(int(x) for x in q) for q in R} != want:
            raise MachineryError("primitive %s: its vertices are not the expected lattice points (creation is C15)" % spec)
        pts = [[int(x) for x in q] for q in R]
    if len(pts) > 16:
        raise MachineryError("object with more than 16 points")
    base = {"exc": "", "dim": 3, "pts": pts, "off": [int(x) for x in it["off"]], "sce": pl.sce, "grid": 3,
            "sane": bool(it["sane"]), "item": it["k"]}
    out = []

    def new(kind):
        r = dict(base, kind=kind, obs=[])
        out.append(r)
        return r

    B, NS, CV = trimesh.bounds, trimesh.nsphere, trimesh.convex
    r = new("hull")
    guarded(r, tag + ".convex_hull", lambda: hull_obs(tag, geo().convex_hull, pts, pl))
    guarded(r, "convex_hull(%s)" % tag, lambda: hull_obs(tag + "f", CV.convex_hull(geo().convex_hull.vertices), pts, pl))
    r = new("aabb")
    guarded(r, tag + ".bounds", lambda: aabb_obs(tag, geo(), pl))
    r = new("obb")
    guarded(r, tag + ".bounding_box_oriented", lambda: primitive_obs(geo().bounding_box_oriented, tag, pl)[1])
    guarded(r, "oriented_bounds(%s)" % tag, lambda: box_obs(tag + "f", *B.oriented_bounds(geo()), pl, 3))
    if tag != "sn":
        def applied():
            g = geo()
            # apply_obb calls bounds.oriented_bounds, not the bounding_box_oriented a primitive may override
            ext = np.array(B.oriented_bounds(geo())[1], dtype=np.float64)
            M = g.apply_obb()          # moves the primitive itself (its transform)
            return box_obs(tag + "a", M, ext, pl, 3)
        guarded(r, tag + ".apply_obb", applied)
    r = new("sphere")
    guarded(r, tag + ".bounding_sphere", lambda: primitive_obs(geo().bounding_sphere, tag, pl)[1])
    guarded(r, "minimum_nsphere(%s)" % tag, lambda: sphere_obs(tag + "f", *NS.minimum_nsphere(geo()), pl, 3))
    if it["cyl"]:
        r = new("cyl")
        guarded(r, tag + ".bounding_cylinder", lambda: primitive_obs(geo().bounding_cylinder, tag, pl)[1])
        got = {}

        def whichever():
            got["kind"], o = primitive_obs(geo().bounding_primitive, tag + "p", pl)
            return o

        r = new("obb")
        guarded(r, tag + ".bounding_primitive", whichever)
        r["kind"] = got.get("kind", "obb")
    return out


def observe_big(trimesh, it):
    """larger sets: 12..64 points / mesh vertices of {0..7}^3 (audit)"""
    pl = Place(it["place"], it["off"], it["sce"])
    Q = pl.fwd(it["pts"])
    eps = eps_of(7)
    base = {"exc": "", "dim": 3, "pts": [list(p) for p in it["pts"]], "off": [int(x) for x in it["off"]], "sce": pl.sce,
            "grid": 7, "sane": False, "item": it["k"]}
    out = []

    def new(kind):
        r = dict(base, kind=kind, obs=[])
        out.append(r)
        return r

    if it["faces"] is None:
        geo = lambda: trimesh.PointCloud(Q.copy())
        tag = "pc"
    else:
        F = np.array(it["faces"], dtype=np.int64)
        geo = lambda: trimesh.Trimesh(vertices=Q.copy(), faces=F.copy(), process=False)
        tag = "mesh"
        g0 = geo()
        if len(g0.vertices) != len(Q) or len(g0.faces) != len(F) or not g0.referenced_vertices.all():
            raise MachineryError("Trimesh(process=False) did not keep the input arrays")
    B, NS, CV = trimesh.bounds, trimesh.nsphere, trimesh.convex
    arg = lambda: Q.copy() if it["faces"] is None else geo()
    r = new("hullb")
    guarded(r, "convex_hull", lambda: hull_obs("ch", CV.convex_hull(arg()), it["pts"], pl))
    guarded(r, tag + ".convex_hull", lambda: hull_obs(tag, geo().convex_hull, it["pts"], pl))
    r = new("aabb")
    guarded(r, tag + ".bounds", lambda: aabb_obs(tag, geo(), pl))
    r = new("obb")
    guarded(r, "oriented_bounds", lambda: box_obs("ob", *B.oriented_bounds(arg()), pl, 3, eps=eps))

    def applied():
        g = geo()
        ext = np.array(g.bounding_box_oriented.primitive.extents, dtype=np.float64)
        M = g.apply_obb()
        return box_obs("apply", M, ext, pl, 3, newv=np.asarray(g.vertices), eps=eps)

    guarded(r, tag + ".apply_obb", applied)
    r = new("ballc")
    guarded(r, "minimum_nsphere", lambda: ball_obs("mn", *NS.minimum_nsphere(Q.copy()), pl, eps))

    def bsphere():
        p = geo().bounding_sphere.primitive
        return ball_obs(tag, p.center, p.radius, pl, eps)

    guarded(r, tag + ".bounding_sphere", bsphere)
    if it["cyl"]:
        r = new("cyl")

        def bcyl():
            p = geo().bounding_cylinder.primitive
            return cyl_obs(tag, p.transform, p.radius, p.height, pl, eps=eps)

        guarded(r, tag + ".bounding_cylinder", bcyl)
    return out


def observe_aniso(trimesh, it):
    """flat-ish / needle-like sets: the axes are scaled by different powers of two (audit).  Hull combinatorics
    and the axis-aligned box are invariant under that map; the oriented box is recorded in normalised form"""
    pl = Place(it["place"], it["off"], it["sce"])
    Q = pl.fwd(it["pts"])
    base = {"exc": "", "dim": 3, "pts": [list(p) for p in it["pts"]], "off": [int(x) for x in it["off"]], "sce": pl.sce,
            "grid": 3, "sane": bool(it["sane"]), "item": it["k"]}
    out = []

    def new(kind):
        r = dict(base, kind=kind, obs=[])
        out.append(r)
        return r

    if it["faces"] is None:
        geo = lambda: trimesh.PointCloud(Q.copy())
        tag = "pc"
    else:
        F = np.array(it["faces"], dtype=np.int64)
        geo = lambda: trimesh.Trimesh(vertices=Q.copy(), faces=F.copy(), process=False)
        tag = "mesh"
    CV = trimesh.convex
    r = new("hull")
    guarded(r, "convex_hull", lambda: hull_obs("ch", CV.convex_hull(Q.copy() if it["faces"] is None else geo()), it["pts"], pl))
    guarded(r, tag + ".convex_hull", lambda: hull_obs(tag, geo().convex_hull, it["pts"], pl))
    r = new("aabb")
    guarded(r, tag + ".bounds", lambda: aabb_obs(tag, geo(), pl))
    r = new("obbn")

    def applied():
        g = geo()
        ext = np.array(g.bounding_box_oriented.primitive.extents, dtype=np.float64)
        M = g.apply_obb()
        return boxn_obs("apply", M, ext, np.asarray(g.vertices))

    def applied_points():
        T, ext = trimesh.bounds.oriented_bounds(Q.copy())
        g = trimesh.PointCloud(Q.copy())
        g.apply_transform(T)
        return boxn_obs("ob", T, ext, np.asarray(g.vertices))

    guarded(r, tag + ".apply_obb", applied)
    guarded(r, "oriented_bounds+apply_transform", applied_points)
    return out


def observe_flat(trimesh, it):
    """flat geometry (round 2): three or more points of one plane - a single triangle, a flat sheet, as points, as a
    PointCloud and as a mesh.  Three points make qhull fail even with QJ and reach the documented coplanar branch of
    bounds.oriented_bounds; four or more are joggled into a thin hull.  Only the axis-aligned and the oriented box
    are judged (kinds aabbf, obbf: the clauses of aabb / obb)"""
    pl = Place(it["place"], it["off"], it["sce"])
    Q = pl.fwd(it["pts"])
    base = {"exc": "", "dim": 3, "pts": [list(p) for p in it["pts"]], "off": [int(x) for x in it["off"]], "sce": pl.sce,
            "grid": 3, "sane": False, "item": it["k"]}
    out = []

    def new(kind):
        r = dict(base, kind=kind, obs=[])
        out.append(r)
        return r

    if it["faces"] is None:
        geo = lambda: trimesh.PointCloud(Q.copy())
        tag = "pc"
    else:
        F = np.array(it["faces"], dtype=np.int64)
        geo = lambda: trimesh.Trimesh(vertices=Q.copy(), faces=F.copy(), process=False)
        tag = "mesh"
        g0 = geo()
        if len(g0.vertices) != len(Q) or len(g0.faces) != len(F) or not g0.referenced_vertices.all():
            raise MachineryError("Trimesh(process=False) did not keep the input arrays")
    B = trimesh.bounds
    r = new("aabbf")
    guarded(r, tag + ".bounds", lambda: aabb_obs(tag, geo(), pl))
    r = new("obbf")
    guarded(r, "oriented_bounds", lambda: box_obs("ob", *B.oriented_bounds(Q.copy()), pl, 3))
    guarded(r, "oriented_bounds(%s)" % tag, lambda: box_obs("obG", *B.oriented_bounds(geo()), pl, 3))

    def prim():
        p = geo().bounding_box_oriented.primitive
        return box_obs(tag, np.linalg.inv(np.asarray(p.transform, dtype=np.float64)), p.extents, pl, 3)

    def applied():
        g = geo()
        ext = np.array(B.oriented_bounds(geo())[1], dtype=np.float64)
        M = g.apply_obb()
        return box_obs("apply", M, ext, pl, 3, newv=np.asarray(g.vertices))

    guarded(r, tag + ".bounding_box_oriented", prim)
    guarded(r, tag + ".apply_obb", applied)
    if it["k"] % 2:
        guarded(r, "oriented_bounds(list)", lambda: box_obs("obL", *B.oriented_bounds([[float(x) for x in q] for q in Q]), pl, 3))
        guarded(r, "oriented_bounds(unordered)", lambda: box_obs("obU", *B.oriented_bounds(Q.copy(), ordered=False), pl, 3))
    return out


def observe(trimesh, it):
    """all records (one per kind) of one placed input"""
    if it.get("flat"):
        return observe_flat(trimesh, it)
    if it.get("wide"):
        return observe_wide(trimesh, it)
    if it.get("script"):
        return observe_history(trimesh, it)
    if it.get("object"):
        return observe_object(trimesh, it)
    if it.get("grid", 3) == 7:
        return observe_big(trimesh, it)
    if len(set(it["sce"])) > 1:
        return observe_aniso(trimesh, it)
    pl = Place(it["place"], it["off"], it["sce"])
    d = it["dim"]
    Q = pl.fwd(it["pts"])
    base = {"exc": "", "dim": d, "pts": [list(p) for p in it["pts"]], "off": [int(x) for x in it["off"]],
            "sce": pl.sce, "grid": 3, "sane": bool(it["sane"]), "item": it["k"]}
    out = []
    recs = {}

    def new(kind):
        r = dict(base, kind=kind, obs=[])
        out.append(r)
        recs[kind] = r
        return r

    B, NS, CV = trimesh.bounds, trimesh.nsphere, trimesh.convex
    if d == 2:
        r = new("obb")
        guarded(r, "oriented_bounds_2D", lambda: box_obs("ob2d", *B.oriented_bounds_2D(Q.copy()), pl, 2))
        guarded(r, "oriented_bounds", lambda: box_obs("ob", *B.oriented_bounds(Q.copy()), pl, 2))
        r = new("sphere")
        guarded(r, "minimum_nsphere", lambda: sphere_obs("mn", *NS.minimum_nsphere(Q.copy()), pl, 2))
        if it.get("variants"):
            observe_variants(trimesh, it, pl, Q, recs)
        return out
    if it["faces"] is None:
        geo = lambda: trimesh.PointCloud(Q.copy())
        tag = "pc"
    else:
        F = np.array(it["faces"], dtype=np.int64)
        geo = lambda: trimesh.Trimesh(vertices=Q.copy(), faces=F.copy(), process=False)
        tag = "mesh"
        g0 = geo()
        if len(g0.vertices) != len(Q) or len(g0.faces) != len(F) or len(g0.referenced_vertices) != len(Q) \
                or not g0.referenced_vertices.all():
            raise MachineryError("Trimesh(process=False) did not keep the input arrays")
    lean = it.get("lean", False)     # bulk families: one API per kind
    # ---- hull
    r = new("hull")
    guarded(r, "convex_hull", lambda: hull_obs("ch", CV.convex_hull(Q.copy() if it["faces"] is None else geo()), it["pts"], pl))
    if not lean:
        guarded(r, tag + ".convex_hull", lambda: hull_obs(tag, geo().convex_hull, it["pts"], pl))
    # ---- axis aligned box
    r = new("aabb")
    guarded(r, tag + ".bounds", lambda: aabb_obs(tag, geo(), pl))
    # ---- oriented box
    r = new("obb")
    guarded(r, "oriented_bounds", lambda: box_obs("ob", *B.oriented_bounds(Q.copy() if it["faces"] is None else geo()), pl, 3))

    def prim():
        p = geo().bounding_box_oriented.primitive
        return box_obs(tag, np.linalg.inv(np.asarray(p.transform, dtype=np.float64)), p.extents, pl, 3)

    def applied():
        g = geo()
        ext = np.array(g.bounding_box_oriented.primitive.extents, dtype=np.float64)
        M = g.apply_obb()
        return box_obs("apply", M, ext, pl, 3, newv=np.asarray(g.vertices))

    if not lean:
        guarded(r, tag + ".bounding_box_oriented", prim)
        guarded(r, tag + ".apply_obb", applied)
    # ---- sphere
    r = new("sphere")
    guarded(r, "minimum_nsphere", lambda: sphere_obs("mn", *NS.minimum_nsphere(Q.copy()), pl, 3))

    def bsphere():
        p = geo().bounding_sphere.primitive
        return sphere_obs(tag, p.center, p.radius, pl, 3)

    if not lean:
        guarded(r, tag + ".bounding_sphere", bsphere)
    # ---- cylinder
    if it["cyl"]:
        r = new("cyl")

        def mincyl():
            res = B.minimum_cylinder(Q.copy() if it["faces"] is None else geo())
            return cyl_obs("mc", res["transform"], res["radius"], res["height"], pl)

        def bcyl():
            p = geo().bounding_cylinder.primitive
            return cyl_obs(tag, p.transform, p.radius, p.height, pl)

        if it["faces"] is not None or it["k"] % 2 == 1:
            guarded(r, "minimum_cylinder", mincyl)
        if it["faces"] is not None or it["k"] % 2 == 0:
            guarded(r, tag + ".bounding_cylinder", bcyl)
    if it.get("variants"):
        observe_variants(trimesh, it, pl, Q, recs)
    return out


def run_chunk(items):
    trimesh = import_trimesh()
    logging.getLogger("trimesh").setLevel(logging.CRITICAL)
    return [observe(trimesh, it) for it in items]


# ------------------------------------------------------------------ inputs
def spans(P, d):
    A = np.asarray(P, dtype=np.int64)
    return len(A) > d and np.linalg.matrix_rank(A[1:] - A[0]) == d


def steer_general(P, d):
    """used ONLY to steer the enumeration towards inputs on which the minimality clause applies
    (TLC decides general position itself and reports how many records it decided)"""
    A = np.asarray(P, dtype=np.float64)
    for S in itertools.combinations(range(len(A)), d + 2):
        X = A[list(S[:-1])] - A[S[-1]]
        M = np.column_stack((X, (X ** 2).sum(axis=1)))
        if abs(np.linalg.det(M)) < 0.5:
            return False
    return True


def voxel_surface(cells):
    """outward wound boundary of a union of unit cells -> (vertices, faces)"""
    cells = set(cells)
    index, verts, faces = {}, [], []

    def vid(p):
        p = tuple(p)
        if p not in index:
            index[p] = len(verts)
            verts.append(p)
        return index[p]

    for cell in sorted(cells):
        for ax in range(3):
            for s in (1, -1):
                nb = list(cell)
                nb[ax] += s
                if tuple(nb) in cells:
                    continue
                u, v = (ax + 1) % 3, (ax + 2) % 3
                q = []
                for du, dv in ((0, 0), (1, 0), (1, 1), (0, 1)):
                    p = list(cell)
                    p[ax] += 1 if s == 1 else 0
                    p[u] += du
                    p[v] += dv
                    q.append(vid(p))
                if s == -1:
                    q = q[::-1]
                faces += [[q[0], q[1], q[2]], [q[0], q[2], q[3]]]
    return verts, faces


def lattice_maps(rs):
    """a random symmetry of the cube {0..3}^3 (axis permutation and reflections x -> 3 - x)"""
    perm = rs.permutation(3)
    flip = rs.randint(2, size=3)

    def f(p):
        q = [p[perm[a]] for a in range(3)]
        return tuple(3 - q[a] if flip[a] else q[a] for a in range(3))

    parity = (np.linalg.det(np.eye(3)[perm]) < 0) ^ (flip.sum() % 2 == 1)
    return f, bool(parity)


def mesh_library(rs, n_tet):
    """(name, vertices, faces): closed, outward wound lattice meshes with every vertex referenced"""
    out = []

    def add(name, verts, faces):
        f, mirror = lattice_maps(rs)
        verts = [f(v) for v in verts]
        if mirror:
            faces = [[a, c, b] for a, b, c in faces]
        if max(max(v) for v in verts) <= 3 and min(min(v) for v in verts) >= 0:
            out.append((name, verts, [list(map(int, x)) for x in faces]))

    box = [(0, 0, 0), (1, 0, 0), (1, 1, 0), (0, 1, 0), (0, 0, 1), (1, 0, 1), (1, 1, 1), (0, 1, 1)]
    boxf = [[0, 2, 1], [0, 3, 2], [4, 5, 6], [4, 6, 7], [0, 1, 5], [0, 5, 4], [1, 2, 6], [1, 6, 5],
            [2, 3, 7], [2, 7, 6], [3, 0, 4], [3, 4, 7]]
    for dx, dy, dz in itertools.product((1, 2, 3), repeat=3):
        if rs.rand() < 0.45 or (dx == dy == dz):
            o = [rs.randint(0, 4 - e) for e in (dx, dy, dz)]
            add("box", [(o[0] + x * dx, o[1] + y * dy, o[2] + z * dz) for x, y, z in box], boxf)
    for _ in range(n_tet):
        while True:
            T = [GRID3[j] for j in rs.choice(64, 4, replace=False)]
            A = np.array(T)
            det = round(np.linalg.det((A[1:] - A[0]).astype(float)))
            if det != 0:
                break
        a, b, c, e = range(4)
        faces = [[a, c, b], [a, b, e], [a, e, c], [b, c, e]]
        if det < 0:
            faces = [[x, z, y] for x, y, z in faces]
        add("tetrahedron", T, faces)
    for cells in ([(0, 0, 0), (1, 0, 0), (0, 1, 0)], [(0, 0, 0), (1, 0, 0), (0, 1, 0)], [(0, 0, 0), (1, 0, 0), (0, 1, 0)],
                  [(0, 0, 0), (1, 0, 0), (0, 1, 0)]):
        v, f = voxel_surface(cells)
        sc = [1, 1, rs.randint(1, 4)]
        o = [rs.randint(0, 2), rs.randint(0, 2), rs.randint(0, 4 - sc[2])]
        add("L_prism", [(o[0] + p[0], o[1] + p[1], o[2] + p[2] * sc[2]) for p in v], f)
    octf = [[0, 2, 4], [2, 1, 4], [1, 3, 4], [3, 0, 4], [2, 0, 5], [1, 2, 5], [3, 1, 5], [0, 3, 5]]
    for c, rp, rn in (((1, 1, 1), (1, 1, 1), (1, 1, 1)), ((2, 2, 2), (1, 1, 1), (1, 1, 1)), ((1, 2, 1), (1, 1, 1), (1, 1, 1)),
                      ((1, 1, 1), (2, 2, 2), (1, 1, 1)), ((1, 1, 1), (2, 1, 2), (1, 1, 1)), ((2, 1, 2), (1, 2, 1), (2, 1, 2)),
                      ((1, 1, 2), (2, 2, 1), (1, 1, 2))):
        v = [(c[0] + rp[0], c[1], c[2]), (c[0] - rn[0], c[1], c[2]), (c[0], c[1] + rp[1], c[2]), (c[0], c[1] - rn[1], c[2]),
             (c[0], c[1], c[2] + rp[2]), (c[0], c[1], c[2] - rn[2])]
        add("octahedron", v, octf)
    return out


def point_families(rs, counts):
    """(family, points) - 3D sets of 5..10 points of {0..3}^3 spanning three dimensions"""
    def take(fam, gen):
        n = tries = 0
        while n < counts[fam]:
            tries += 1
            if tries > 200 * counts[fam] + 1000:
                raise MachineryError("family " + fam + " cannot be generated")
            P = gen()
            if P is None or not (5 <= len(P) <= 10) or not spans(P, 3):
                continue
            P = [tuple(int(x) for x in p) for p in P]
            order = rs.permutation(len(P))
            yield fam, [P[j] for j in order]
            n += 1

    def random():
        return [GRID3[j] for j in rs.choice(64, rs.randint(5, 11), replace=False)]

    def block():
        ax = [sorted(rs.choice(4, 2, replace=False)) for _ in range(3)]
        P = [(x, y, z) for x in ax[0] for y in ax[1] for z in ax[2]]
        inside = [p for p in GRID3 if all(ax[a][0] <= p[a] <= ax[a][1] for a in range(3)) and p not in P]
        extra = rs.randint(0, 3)
        pool = inside if (inside and rs.rand() < 0.8) else [p for p in GRID3 if p not in P]
        for j in rs.choice(len(pool), min(extra, len(pool)), replace=False):
            P.append(pool[j])
        return P

    def slab():
        a = rs.randint(3)
        z0 = rs.randint(4)
        P = []
        for x, y in itertools.product(range(3), repeat=2):
            p = [0, 0, 0]
            p[a], p[(a + 1) % 3], p[(a + 2) % 3] = z0, x, y
            P.append(tuple(p))
        apex = GRID3[rs.randint(64)]
        return P + [apex] if apex[a] != z0 else None

    def cluster():
        o = rs.randint(0, 3, size=3)
        sub = [(o[0] + x, o[1] + y, o[2] + z) for x, y, z in itertools.product(range(2), repeat=3)]
        n = rs.randint(5, 11)
        k = rs.randint(1, 3)
        P = [sub[j] for j in rs.choice(8, min(8, n - k), replace=False)]
        rest = [p for p in GRID3 if p not in P]
        return P + [rest[j] for j in rs.choice(len(rest), k, replace=False)]

    def flat():
        a = rs.randint(3)
        z0 = rs.randint(3)
        pool = [p for p in GRID3 if p[a] in (z0, z0 + 1)]
        return [pool[j] for j in rs.choice(len(pool), rs.randint(5, 11), replace=False)]

    def generic():
        for _ in range(400):
            P = [GRID3[j] for j in rs.choice(64, rs.randint(5, 8), replace=False)]
            if spans(P, 3) and steer_general(P, 3):
                return P
        return None

    def ties():
        even = [p for p in GRID3 if all(x in (0, 2) for x in p)]
        P = [even[j] for j in rs.choice(8, rs.randint(4, 7), replace=False)]
        pairs = list(itertools.combinations(range(len(P)), 2))
        for j in rs.permutation(len(pairs))[: rs.randint(1, 5)]:
            a, b = pairs[j]
            m = tuple((P[a][x] + P[b][x]) // 2 for x in range(3))
            if m not in P and len(P) < 10:
                P.append(m)
        sh = rs.randint(0, 2, size=3)
        return [tuple(p[x] + sh[x] for x in range(3)) for p in P]

    def dups():
        P = [GRID3[j] for j in rs.choice(64, rs.randint(5, 10), replace=False)]
        return P + [P[rs.randint(len(P))]]

    gens = {"random": random, "block": block, "slab": slab, "cluster": cluster, "flat": flat,
            "generic": generic, "ties": ties, "dups": dups}
    for fam in gens:
        yield from take(fam, gens[fam])


def planar_families(rs, counts):
    def take(fam, gen):
        n = 0
        while n < counts[fam]:
            P = gen()
            if P is None or not spans(P, 2):
                continue
            yield fam, [tuple(int(x) for x in p) for p in P]
            n += 1

    def random():
        return [GRID2[j] for j in rs.choice(16, rs.randint(3, 10), replace=False)]

    def generic():
        for _ in range(400):
            P = [GRID2[j] for j in rs.choice(16, rs.randint(3, 6), replace=False)]
            if spans(P, 2) and steer_general(P, 2):
                return P
        return None

    def block():
        ax = [sorted(rs.choice(4, 2, replace=False)) for _ in range(2)]
        P = [(x, y) for x in ax[0] for y in ax[1]]
        rest = [p for p in GRID2 if p not in P]
        return P + [rest[j] for j in rs.choice(len(rest), rs.randint(0, 4), replace=False)]

    for fam, gen in (("planar_random", random), ("planar_generic", generic), ("planar_block", block)):
        yield from take(fam, gen)


def placements(rs, d, how_many):
    """origin first, then `how_many` of: far (+-10^4 on every axis), far on one axis, scaled by 2^10,
    far and scaled; (name, offset, exponent of the scale)"""
    sign = lambda: [int(s) for s in rs.choice([-FAR, FAR], d)]
    one = [0] * d
    one[rs.randint(d)] = int(rs.choice([-FAR, FAR]))
    others = [("far", sign(), 0), ("far_scaled", sign(), BIGE), ("scaled", [0] * d, BIGE), ("far_one_axis", one, 0)]
    first = rs.randint(2)          # always at least one placement far on every axis
    rest = [others[first]] + [others[j] for j in rs.permutation(4) if j != first]
    return [("origin", [0] * d, 0)] + rest[:how_many]


# "widely scaled and translated far from the origin" (audit): a common scale 2^e and offsets up to 2^30 lattice
# steps.  The smallest scale keeps distinct lattice points 2^-26 = 1.5e-8 apart: trimesh documents (constants.tol.merge
# = 1e-8) that closer points are the same vertex, so smaller sets are outside the domain of the property.
MAG_TINY = (-26, -24, -22, -21, -20, -16)
# below 2^-21.6 a unit lattice triangle has |cross product| = 2^(2e) <= constants.tol.zero = 1e-13: trimesh counts
# such a face as degenerate (convex_hull drops it, Trimesh.face_normals is zero).  The records are kept - the
# property names "widely scaled" sets without a lower bound - and attributed to DEV_TINY when that finding is
# registered; the predicate is decided from the placement alone (tiny_faces)
DEV_TINY = "MicroscopicFacesBelowTolZero"


def tiny_faces(sce):
    """some face of the lattice has a cross product of magnitude <= tol.zero: the two thinnest axes together
    scale a unit square below 2^-43 = 1.1e-13"""
    e = sorted(sce)
    return len(e) >= 2 and e[0] + e[1] <= -43
MAG_HUGE = (20, 30, 36, 37, 40, 50, 60)


def magnitude_placements(rs, d):
    """(name, offset, exponent): every tiny and huge scale once, offsets 2^20 .. 2^30, and both together"""
    out = [("mag%+d" % e, [0] * d, e) for e in MAG_TINY + MAG_HUGE]
    for b in (20, 26, 30):
        out.append(("far2^%d" % b, [int(s) * 2 ** b for s in rs.choice([-1, 1], d)], 0))
    one = [0] * d
    one[rs.randint(d)] = int(rs.choice([-1, 1])) * 2 ** 30
    out.append(("far2^30_one_axis", one, 0))
    out.append(("mag-20_far2^20", [int(s) * 2 ** 20 for s in rs.choice([-1, 1], d)], -20))
    out.append(("mag+40_far2^20", [int(s) * 2 ** 20 for s in rs.choice([-1, 1], d)], 40))
    out.append(("mag-24_far", [int(s) * FAR for s in rs.choice([-1, 1], d)], -24))
    return out


def shape_placements(rs):
    """(name, offset, exponents per axis): flat-ish (one thin axis), needle-like (two thin axes) and mixed sets;
    the thinnest axis keeps an aspect >= 2^-24 and a spacing >= 2^-26 (see MAG_TINY)"""
    out = []
    for e in (-8, -16, -20, -24):
        sce = [0, 0, 0]
        sce[rs.randint(3)] = e
        out.append(("flat%d" % e, [0, 0, 0], sce))
        sce = [e, e, e]
        sce[rs.randint(3)] = 0
        out.append(("needle%d" % e, [0, 0, 0], sce))
    out.append(("mixed", [0, 0, 0], [int(x) for x in rs.permutation([-10, 0, 10])]))
    out.append(("mixed_wide", [0, 0, 0], [int(x) for x in rs.permutation([-12, 0, 12])]))
    out.append(("flat_big", [0, 0, 0], [int(x) for x in rs.permutation([20, 20, 0])]))
    out.append(("flat-16_far", [int(s) * FAR for s in rs.choice([-1, 1], 3)], [int(x) for x in rs.permutation([0, 0, -16])]))
    out.append(("needle_tiny", [0, 0, 0], [int(x) for x in rs.permutation([-2, -26, -26])]))
    return out


def scripts(rs, cyl):
    """read orders and exact moves for one object (see observe_history)"""
    def move():
        u = rs.randint(3)
        if u == 0:
            v = [int(x) for x in rs.randint(-3, 4, size=3)]
            return ("translate", v if any(v) else [2, -1, 3])
        if u == 1:
            return ("scale", 2)
        while True:
            perm, flip = [int(x) for x in rs.permutation(3)], [int(x) for x in rs.randint(2, size=3)]
            if perm != [0, 1, 2] or any(flip):
                return ("symmetry", perm, flip)

    c = [("cyl",)] if cyl else []
    hull_first = [("hull",), ("obb",), ("sphere",)] + c
    sphere_first = [("sphere",), ("hull",), ("obb",)] + c
    nsphere_first = [("mn",), ("ob",), ("hull",)] + c
    prim_first = [("prim",), ("hull",), ("cyl",), ("obb",)]
    return [
        hull_first + [move()] + hull_first + [move()] + sphere_first,
        sphere_first + [move()] + [("obb",), ("hull",), ("sphere",)] + c + [("apply_obb",)],
        nsphere_first + [move(), move()] + [("hull",), ("sphere",), ("ob",)],
        prim_first + [move()] + [("prim",), ("hull",), ("obb",), ("sphere",)],
    ]


def wide_sets(rs, count):
    """tight lattice clusters 10^5 apart: (family, [(cl, lo), ...]); the hull has faces inside a cluster
    (area about 1) next to faces spanning clusters (area about 10^10)"""
    out = []
    corners = list(itertools.product((0, 1), repeat=3))
    # a cube with chamfered corners: at every corner the three lattice neighbours of the corner along its edges
    for size in (1, 2):
        P = []
        for c in corners:
            for a in range(3):
                lo = [3 if c[x] else 0 for x in range(3)]
                lo[a] += -size if c[a] else size
                P.append((tuple(c), tuple(lo)))
        out.append(("wide_chamfered_cube", P))
    while len(out) < count:
        k = rs.randint(2, 5)
        cl = [corners[j] for j in rs.choice(8, k, replace=False)]
        if rs.rand() < 0.3:
            cl = [tuple(int(x) * rs.randint(1, 3) for x in c) for c in cl]
        P = []
        for c in cl:
            for j in rs.choice(64, rs.randint(1, 5), replace=False):
                P.append((tuple(c), GRID3[j]))
        A = np.array([[c * WIDE_L + l for c, l in zip(cl_, lo)] for cl_, lo in P], dtype=np.float64)
        if 4 <= len(P) <= 16 and np.linalg.matrix_rank(A[1:] - A[0]) == 3:
            out.append(("wide_clusters", P))
    return out


GRID7 = [tuple(p) for p in itertools.product(range(8), repeat=3)]


def big_families(rs, counts):
    """(family, points, faces): 12..64 points / mesh vertices of {0..7}^3 spanning three dimensions (audit)"""
    def random():
        return [GRID7[j] for j in rs.choice(512, rs.randint(12, 49), replace=False)], None

    def block():        # a full sub-block: every face of the hull carries many coplanar inputs
        n = [rs.randint(2, 5) for _ in range(3)]
        o = [rs.randint(0, 9 - x) for x in n]
        st = [rs.randint(1, max(1, (7 - o[a]) // max(1, n[a] - 1)) + 1) for a in range(3)]
        P = [tuple(o[a] + st[a] * q[a] for a in range(3)) for q in itertools.product(*[range(x) for x in n])]
        return (P, None) if max(max(p) for p in P) <= 7 else None

    def cospherical():  # lattice points on a common sphere around (3.5, 3.5, 3.5) plus a few inside
        r2 = [19, 27, 35, 43, 51, 59][rs.randint(6)]
        shell = [p for p in GRID7 if sum((2 * x - 7) ** 2 for x in p) == r2]
        if len(shell) < 8:
            return None
        P = [shell[j] for j in rs.choice(len(shell), min(len(shell), rs.randint(8, 41)), replace=False)]
        inner = [p for p in GRID7 if sum((2 * x - 7) ** 2 for x in p) < r2 - 16 and p not in P]
        return P + [inner[j] for j in rs.choice(len(inner), min(len(inner), rs.randint(0, 6)), replace=False)], None

    def layers():       # flat-ish: two adjacent layers of the lattice
        a, z0 = rs.randint(3), rs.randint(7)
        pool = [p for p in GRID7 if p[a] in (z0, z0 + 1)]
        return [pool[j] for j in rs.choice(len(pool), rs.randint(12, 41), replace=False)], None

    def clusters():     # two or three tight clusters in different corners
        P = set()
        for c in [rs.randint(0, 2, size=3) * 5 for _ in range(rs.randint(2, 4))]:
            sub = [tuple(int(c[a] + q[a]) for a in range(3)) for q in itertools.product(range(3), repeat=3)]
            P |= {sub[j] for j in rs.choice(27, rs.randint(4, 12), replace=False)}
        return sorted(P), None

    def voxels():       # a (non-convex) closed surface of unit cells, stretched by integer factors
        cells = {(0, 0, 0)}
        while len(cells) < rs.randint(3, 8):
            c = list(cells)[rs.randint(len(cells))]
            a = rs.randint(3)
            n = list(c)
            n[a] += 1
            if max(n) <= 2:
                cells.add(tuple(n))
        v, f = voxel_surface(sorted(cells))
        st = [rs.randint(1, 3) for _ in range(3)]
        o = [rs.randint(0, 2) for _ in range(3)]
        V = [tuple(o[a] + st[a] * q[a] for a in range(3)) for q in v]
        return (V, f) if max(max(q) for q in V) <= 7 else None

    gens = {"big_random": random, "big_block": block, "big_cospherical": cospherical, "big_layers": layers,
            "big_clusters": clusters, "big_voxel_mesh": voxels}
    for fam, gen in gens.items():
        n = tries = 0
        while n < counts[fam]:
            tries += 1
            if tries > 300 * counts[fam] + 1000:
                raise MachineryError("family " + fam + " cannot be generated")
            got = gen()
            if got is None:
                continue
            P, F = got
            P = [tuple(int(x) for x in q) for q in P]
            if not (12 <= len(P) <= 64) or len(set(P)) != len(P) or not spans(P, 3):
                continue
            if F is None:
                P = [P[j] for j in rs.permutation(len(P))]
            yield fam, P, F
            n += 1


def flat_families(rs, counts):
    """(family, points, faces): lattice points of one plane of {0..3}^3 that span it (round 2)"""
    n = 0
    while n < counts["flat_triangle"]:
        T = [GRID3[j] for j in rs.choice(64, 3, replace=False)]
        if spans(T, 2):
            # the same three points as a cloud and as a mesh of one triangle (either winding)
            yield "flat_triangle", T, (None if n % 2 == 0 else [[0, 1, 2]] if n % 4 == 1 else [[0, 2, 1]])
            n += 1
    planes = [lambda p: p[0] == 1, lambda p: p[1] == 2, lambda p: p[2] == 0, lambda p: p[0] == p[1], lambda p: p[1] == p[2],
              lambda p: p[0] + p[2] == 3, lambda p: sum(p) == 4, lambda p: sum(p) == 5, lambda p: p[0] - p[1] + p[2] == 2,
              lambda p: p[0] + 2 * p[1] == 3, lambda p: 2 * p[0] - p[2] == 1, lambda p: p[0] + p[1] - p[2] == 1]
    n = tries = 0
    while n < counts["flat_sheet"]:
        tries += 1
        if tries > 10000:
            raise MachineryError("family flat_sheet cannot be generated")
        pool = [p for p in GRID3 if planes[(n + tries) % len(planes)](p)]
        if len(pool) < 4:
            continue
        P = [pool[j] for j in rs.choice(len(pool), rs.randint(4, min(9, len(pool) + 1)), replace=False)]
        if not spans(P, 2):
            continue
        faces = None
        if n % 3 == 2:      # a sheet of triangles through every vertex (fan over the points in their drawn order)
            faces = [[0, j, j + 1] for j in range(1, len(P) - 1)]
            A = np.array(P)
            if any(np.linalg.matrix_rank((A[f][1:] - A[f][0])) < 2 for f in faces):
                faces = None
        yield "flat_sheet", P, faces
        n += 1


def proper_symmetry(rs):
    """a rotation of the cube {0..3}^3 (axis permutation and reflections with determinant +1)"""
    while True:
        perm, flip = [int(x) for x in rs.permutation(3)], [int(x) for x in rs.randint(2, size=3)]
        if (np.linalg.det(np.eye(3)[perm]) < 0) == (sum(flip) % 2 == 1):
            return perm, flip


def lattice_image(perm, flip, p):
    """S p + c of cube_symmetry(perm, flip), in integers (input construction)"""
    return tuple((3 - p[perm[a]]) if flip[a] else p[perm[a]] for a in range(3))


def object_items(rs, counts):
    """(family, object spec, lattice points): scenes of placed parts, Box and Extrusion primitives (audit)"""
    tet_faces = [[0, 2, 1], [0, 1, 3], [0, 3, 2], [1, 2, 3]]
    n = 0
    while n < counts["scene"]:
        parts, world = [], []
        for _ in range(rs.randint(2, 4)):
            perm, flip = [int(x) for x in rs.permutation(3)], [int(x) for x in rs.randint(2, size=3)]
            if rs.rand() < 0.4:
                T = [GRID3[j] for j in rs.choice(64, 4, replace=False)]
                A = np.array(T)
                det = round(np.linalg.det((A[1:] - A[0]).astype(float)))
                if det == 0:
                    continue
                faces = tet_faces if det > 0 else [[a, c, b] for a, b, c in tet_faces]
                parts.append({"pts": [list(p) for p in T], "faces": faces, "perm": perm, "flip": flip})
            else:
                T = [GRID3[j] for j in rs.choice(64, rs.randint(1, 6), replace=False)]
                parts.append({"pts": [list(p) for p in T], "faces": None, "perm": perm, "flip": flip})
            world += [lattice_image(perm, flip, p) for p in T]
        if len(parts) >= 2 and 5 <= len(world) <= 14 and spans(world, 3):
            yield "object_scene", {"kind": "scene", "parts": parts}, world
            n += 1
    for _ in range(counts["box"]):
        ext = [int(rs.randint(1, 4)) for _ in range(3)]
        o = [int(rs.randint(0, 4 - e)) for e in ext]
        yield "object_box", {"kind": "box", "ext": ext, "o": o}, \
            [tuple(o[a] + ext[a] * q[a] for a in range(3)) for q in itertools.product((0, 1), repeat=3)]
    polys = [[(0, 0), (3, 0), (3, 3), (0, 3)], [(0, 0), (2, 0), (2, 1), (0, 1)], [(1, 0), (3, 0), (3, 2), (1, 2)],
             [(0, 0), (3, 0), (0, 2)], [(0, 0), (3, 1), (1, 3)], [(0, 0), (2, 0), (3, 2), (1, 3)],
             [(0, 0), (3, 0), (3, 1), (1, 1), (1, 3), (0, 3)], [(0, 0), (2, 0), (2, 2), (3, 2), (3, 3), (0, 3)],
             [(1, 0), (2, 0), (3, 1), (3, 2), (2, 3), (1, 3), (0, 2), (0, 1)], [(0, 1), (1, 0), (3, 0), (3, 2), (2, 3), (0, 3)]]
    for j in range(counts["extrusion"]):
        poly = polys[j % len(polys)]
        h = int(rs.randint(1, 4)) * (1 if rs.rand() < 0.5 else -1)
        z0 = int(rs.randint(max(0, -h), 3 - max(0, h) + 1))
        perm, flip = proper_symmetry(rs)
        pts = sorted({lattice_image(perm, flip, (x, y, z0 + z)) for x, y in poly for z in (0, h)})
        yield "object_extrusion", {"kind": "extrusion", "poly": [list(q) for q in poly], "h": h, "z0": z0,
                                   "perm": perm, "flip": flip}, pts


def work_items(tier):
    rs = np.random.RandomState(seed() + 1616)
    big = tier == "thorough"
    m = 12 if big else 1
    counts = {"random": 140 * m, "block": 50 * m, "slab": 6 * m, "cluster": 40 * m, "flat": 50 * m,
              "generic": 100 * m, "ties": 60 * m, "dups": 16 * m}
    pcounts = {"planar_random": 60 * m, "planar_generic": 60 * m, "planar_block": 20 * m}
    items = []
    base = 0

    def put(fam, dim, pts, faces, name, off, sce, lean=False, **more):
        k = len(items)
        it = {"k": k, "base": base, "family": fam, "dim": dim, "pts": pts, "faces": faces,
              "place": name, "off": [int(x) for x in off], "lean": lean,
              "sce": [int(e) for e in (sce if isinstance(sce, (list, tuple)) else [sce] * dim)],
              "cyl": dim == 3 and not lean and (faces is not None or k % 5 == 0), "sane": k % 8 == 0}
        it.update(more)
        items.append(it)
        return it

    def add(fam, dim, pts, faces, nplace, lean=False):
        nonlocal base
        for name, off, sce in placements(rs, dim, nplace):
            # every fifth full item also goes through the other options / containers (audit)
            put(fam, dim, pts, faces, name, off, sce, lean=lean, variants=(not lean and len(items) % 5 == 1))
        base += 1

    for fam, P in point_families(rs, counts):
        add(fam, 3, P, None, 4 if big else 2)
    for rep in range(8 if big else 1):
        for name, verts, faces in mesh_library(rs, 60 if big else 16):
            add("mesh_" + name, 3, verts, faces, 4 if big else 2)
    for fam, P in planar_families(rs, pcounts):
        add(fam, 2, P, None, 2 if big else 1)
    # ---- histories on one object: read orders, exact moves, reads again
    nh = (40 * m, 24 * m)
    pool = [P for _, P in point_families(rs, {"random": nh[0], "block": 0, "slab": 0, "cluster": 0, "flat": 0,
                                              "generic": 0, "ties": nh[0] // 4, "dups": 0})]
    objs = [("pc", P, None) for P in pool] + [("mesh", v, f) for _, v, f in mesh_library(rs, nh[1])]
    for j, (tag, P, F) in enumerate(objs):
        if len(P) > 12:
            continue
        name, off, sce = placements(rs, 3, 1)[j % 2]
        for n, script in enumerate(scripts(rs, cyl=(j % 4 == 0))):
            if n == 3 and j % 3:
                continue        # bounding_primitive evaluates the (slow) cylinder: every third object
            if (j + n) % 2 == 0 or tag == "mesh":
                put("history_" + tag, 3, P, F, name, off, sce, script=script, sane=False)
        base += 1
    # ---- wide inputs
    for fam, P in wide_sets(rs, 30 * m):
        for name, off, sce in placements(rs, 3, 1):
            put(fam, 3, P, None, name, off, sce, wide=True, sane=len(items) % 4 == 0)
        base += 1
    if big:
        # every 4- and 5-point subset of {0,1,2}^3 that spans three dimensions (every fourth also far away)
        grid = [p for p in GRID3 if max(p) <= 2]
        for n in (4, 5):
            for j, S in enumerate(itertools.combinations(grid, n)):
                if spans(S, 3):
                    add("all_%d_subsets_of_grid3" % n, 3, list(S), None, 1 if j % 4 == 0 else 0, lean=True)
    # ================= audit families (their own random stream: the enumeration above is unchanged)
    rs = np.random.RandomState(seed() + 161616)
    ma = 6 if big else 1
    # ---- magnitudes: a common scale 2^-26 .. 2^60, offsets up to 2^30 lattice steps
    mcounts = {"random": 16 * ma, "block": 8 * ma, "slab": 2 * ma, "cluster": 6 * ma, "flat": 8 * ma,
               "generic": 12 * ma, "ties": 8 * ma, "dups": 2 * ma}
    bases = [(fam, P, None) for fam, P in point_families(rs, mcounts)]
    bases += [("mesh_" + name, v, f) for name, v, f in mesh_library(rs, 6 * ma)][:14 * ma]
    for j, (fam, P, F) in enumerate(bases):
        mags = magnitude_placements(rs, 3)
        take = range(len(mags)) if big else [(5 * j + i) % len(mags) for i in range(5)]
        for i in take:
            put("mag_" + fam, 3, P, F, *mags[i])
        base += 1
    for j, (fam, P) in enumerate(planar_families(rs, {"planar_random": 10 * ma, "planar_generic": 10 * ma, "planar_block": 4 * ma})):
        mags = magnitude_placements(rs, 2)
        for i in (range(len(mags)) if big else [(4 * j + i) % len(mags) for i in range(4)]):
            put("mag_" + fam, 2, P, None, *mags[i])
        base += 1
    # ---- shapes: the axes scaled by different powers of two (flat-ish, needle-like)
    scounts = {"random": 14 * ma, "block": 6 * ma, "slab": 2 * ma, "cluster": 4 * ma, "flat": 6 * ma,
               "generic": 4 * ma, "ties": 6 * ma, "dups": 2 * ma}
    bases = [(fam, P, None) for fam, P in point_families(rs, scounts)]
    bases += [("mesh_" + name, v, f) for name, v, f in mesh_library(rs, 4 * ma)][:10 * ma]
    for j, (fam, P, F) in enumerate(bases):
        shapes = shape_placements(rs)
        for i in (range(len(shapes)) if big else [(4 * j + i) % len(shapes) for i in range(4)]):
            put("shape_" + fam, 3, P, F, *shapes[i])
        base += 1
    # ---- larger sets of {0..7}^3
    bcounts = {"big_random": 16 * ma, "big_block": 10 * ma, "big_cospherical": 10 * ma, "big_layers": 8 * ma,
               "big_clusters": 8 * ma, "big_voxel_mesh": 12 * ma}
    for fam, P, F in big_families(rs, bcounts):
        for name, off, sce in placements(rs, 3, 3 if big else 1):
            put(fam, 3, P, F, name, off, sce, grid=7, cyl=(len(items) % 3 == 0), sane=False)
        base += 1
    # ---- flat geometry: axis-aligned and oriented box only
    for fam, P, F in flat_families(rs, {"flat_triangle": 60 * ma, "flat_sheet": 36 * ma}):
        for name, off, sce in placements(rs, 3, 4 if big else 2):
            put(fam, 3, P, F, name, off, sce, flat=True, cyl=False, sane=False)
        base += 1
    # ---- other geometry classes
    for fam, spec, pts in object_items(rs, {"scene": 40 * ma, "box": 10 * ma, "extrusion": 20 * ma}):
        for name, off, sce in placements(rs, 3, 3 if big else 1):
            put(fam, 3, [tuple(p) for p in pts], None, name, off, sce, object=spec, cyl=(len(items) % 3 == 0))
        base += 1
    return items


# ------------------------------------------------------------------ verdicts
def family_group(it):
    """coarse family of an item for the coverage guards"""
    f = it["family"]
    for g in ("mag_", "shape_", "big_", "object_", "history_", "wide_", "flat_"):
        if f.startswith(g):
            return g[:-1]
    return "base"


def detail_of(rec, it):
    d = {"family": it["family"], "dim": it["dim"], "place": it["place"], "off": it["off"], "sce": it["sce"],
         "pts": it["pts"], "faces": it["faces"], "kind": rec["kind"], "exc": rec["exc"], "obs": rec["obs"]}
    if it.get("script"):
        d.update(script=it["script"], history=rec.get("hist", ""), vertices_then=rec["pts"],
                 off_then=rec["off"], sce_then=rec["sce"])
    if it.get("wide"):
        d["wide"] = True
    for k in ("grid", "object", "variants", "flat"):
        if it.get(k):
            d[k] = it[k]
    return d


def main(argv):
    tier = tier_from_args(argv)
    V = Verdict(PROP, tier)
    import_trimesh()
    replay = "--replay" in argv
    if replay:
        rp = json.load(open(argv[argv.index("--replay") + 1]))
        items = []
        for v in rp["violations"]:
            d = v["detail"]
            plain = not (d.get("grid") or d.get("object") or d.get("flat")) and len(set(d["sce"])) == 1
            twins = [("origin", [0] * d["dim"], [0] * d["dim"])] if plain else []
            for name, off, sce in twins + [(d["place"], d["off"], d["sce"])]:
                it = {"k": len(items), "base": len(items) // 2, "family": d["family"], "dim": d["dim"],
                      "pts": [tuple(p) for p in d["pts"]], "faces": d["faces"], "place": name, "off": off,
                      "sce": sce, "cyl": d["dim"] == 3, "sane": plain}
                for k in ("grid", "object", "variants", "flat"):
                    if d.get(k):
                        it[k] = d[k]
                if d.get("script"):
                    it.update(script=[tuple(x) for x in d["script"]], sane=False)
                if d.get("wide"):
                    it.update(wide=True, pts=[(tuple(c), tuple(l)) for c, l in d["pts"]])
                items.append(it)
    else:
        items = work_items(tier)
    if not items or (not replay and len(items) < 1000):
        raise MachineryError("too few inputs enumerated")
    states = total = nrej = 0
    wall = 0.0
    fam, kinds, apis, places, notes, stats, groups_seen, rejected_where = {}, {}, {}, {}, {}, {}, {}, {}
    samples = []
    bump = lambda d, k, n=1: d.__setitem__(k, d.get(k, 0) + n)
    round_size = 12000 if tier == "thorough" else 4000
    origin_ok = set()      # base sets whose hull at the origin TLC accepted (the origin placement always comes first)
    scratch = "c16/run_%d" % os.getpid()      # concurrent runs (bin/try_patch) must not share shard directories
    for r0 in range(0, len(items), round_size):
        part = items[r0:r0 + round_size]
        res = pmap(run_chunk, part, chunk=max(8, min(60, len(part) // 64 + 1)))
        groups = [g for r in res for g in r]
        if len(groups) != len(part):
            raise MachineryError("lost records")
        cases = []
        for it, g in zip(part, groups):
            for rec in g:
                rec["id"] = len(cases)
                cases.append(rec)
        rejects, st, w = tlc.validate_batches(scratch, "Hull", cases, CFG, timeout=1500)
        states += st
        wall += w
        total += len(cases)
        byitem = {it["k"]: it for it in part}
        # hull records of the same base set at the origin that TLC accepted (input predicate of DEV_HULL_FAR)
        origin_ok |= {byitem[c["item"]]["base"] for c in cases
                      if c["kind"] == "hull" and byitem[c["item"]]["place"] == "origin"
                      and c["id"] not in rejects}
        for c in cases:
            it = byitem[c["item"]]
            bump(kinds, c["kind"])
            if c["kind"] in ("obb", "obbn", "obbf"):
                bump(places, it["place"])
            if c["kind"] in ("hull", "hullw", "hullb"):
                bump(fam, it["family"])
            bump(groups_seen, family_group(it) + ":" + c["kind"])
            if c["kind"] == "obbf":
                bump(stats, "flat_sheets" if len(it["pts"]) > 3 else "flat_single_triangle_meshes" if it["faces"]
                     else "flat_three_point_clouds")
                bump(stats, "flat_records_away_from_the_origin", int(any(it["off"])))
            if it.get("variants"):
                bump(stats, "records_with_option_and_container_variants")
            if family_group(it) == "mag":
                e = it["sce"][0]
                bump(stats, "magnitude_records_tiny_scale" if e < 0 else "magnitude_records_huge_scale" if e > 0
                     else "magnitude_records_far_offset")
            if it.get("script"):
                bump(stats, "records_read_in_a_history_after_a_move", int(any(
                    x in c.get("hist", "") for x in ("translate", "scale", "symmetry"))))
                bump(stats, "records_read_in_a_history_before_any_move", int(not any(
                    x in c.get("hist", "") for x in ("translate", "scale", "symmetry"))))
            for o in c["obs"]:
                bump(apis, c["kind"] + ":" + o["api"])
            if c["kind"] in ("hull", "hullb") and not c["exc"] and c["obs"]:
                o = c["obs"][0]
                bump(stats, "hulls_with_an_input_that_is_no_vertex", int(len(set(o["hv"])) < len(set(it["pts"]))))
                bump(stats, "hulls_with_a_zero_area_face", int(any(x["zero_area_faces"] for x in c["obs"])))
                bump(stats, "hull_faces", len(o["hf"]))
            if c["kind"] == "sphere" and not c["exc"]:
                bump(stats, "sphere_observations_snapped_exact", sum(1 for o in c["obs"] if o["snap"]))
                bump(stats, "sphere_observations_fixed_point_only", sum(1 for o in c["obs"] if not o["snap"]))
            clause = rejects.get(c["id"])
            if clause is None:
                continue
            name = clause.split(":")[-1]
            if name.startswith("note_"):
                bump(notes, ("planar_" if c["dim"] == 2 else "") + name[5:])
                continue
            nrej += 1
            dev = None
            if c["kind"] == "hull" and any(it["off"]) and it["base"] in origin_ok \
                    and name in ("hull_not_watertight", "hull_reports_is_watertight_false"):
                dev = DEV_HULL_FAR
            if c["kind"] in ("hull", "obb", "obbn", "sphere", "cyl") and c["dim"] == 3 and tiny_faces(it["sce"]) \
                    and not name.startswith("sphere_not_minimal"):
                dev = DEV_TINY
            if c["kind"] == "sphere" and name.startswith("sphere_not_minimal") \
                    and name.rsplit("_", 1)[-1] in ("1", "2", "3")[:c["dim"]]:
                dev = DEV_SPHERE          # fewer than dim + 1 inputs on the boundary of the minimal ball
            bump(rejected_where, family_group(it) + ":" + it["place"] + (":" + dev if dev else ""))
            V.violation(clause, detail_of(c, it), dev)
        if len(samples) < 4:
            for kind in ("hull", "sphere", "obb", "hullw"):
                pick = [c for c in cases if c["kind"] == kind and not c["exc"] and ("hist" in c) == (kind == "obb")]
                if pick:
                    samples.append({k: v for k, v in pick[len(pick) // 3].items() if k not in ("id", "item")})
    shutil.rmtree(os.path.join(WORK, scratch), ignore_errors=True)
    decided = sum(v for k, v in notes.items() if "minimal_ball_decided" in k)
    if not replay and not V.violations:
        # nothing was rejected: make sure the interesting situations were really met
        if kinds.get("hull", 0) < 800 or kinds.get("cyl", 0) < 100 or kinds.get("obb", 0) < 800 \
                or kinds.get("sphere", 0) < 800 or stats.get("hulls_with_an_input_that_is_no_vertex", 0) < 100 \
                or kinds.get("hullw", 0) < 40 or stats.get("records_read_in_a_history_after_a_move", 0) < 300:
            raise MachineryError(f"enumeration nearly empty: {kinds} {stats}")
        if decided < 100:
            raise MachineryError(f"minimality clause decided on {decided} records only: {notes}")
        # audit families
        need = {"mag:hull": 150, "mag:aabb": 150, "mag:obb": 150, "mag:sphere": 150, "mag:cyl": 30,
                "shape:hull": 100, "shape:aabb": 100, "shape:obbn": 100,
                "big:hullb": 60, "big:aabb": 60, "big:obb": 60, "big:ballc": 60, "big:cyl": 10,
                "object:hull": 50, "object:aabb": 50, "object:obb": 50, "object:sphere": 50, "object:cyl": 10,
                "flat:obbf": 200, "flat:aabbf": 200}
        short = {k: groups_seen.get(k, 0) for k, n in need.items() if groups_seen.get(k, 0) < n}
        tags = {"hull:chL", "hull:chF", "hull:chV", "hull:cqN", "hull:cqS", "hull:cqO", "hull:cqJ", "hull:craw",
                "hull:pcL", "obb:obL", "obb:obU", "obb:obD0", "obb:obD3", "obb:obNa", "obb:obNd", "obb:obG", "obb:apK",
                "obb:o2L", "obb:o2N", "sphere:mnL", "sphere:mnG", "sphere:mnH", "cyl:mcS4", "cyl:mcT", "cyl:mcL",
                "hull:sn", "hull:bx", "hull:ex", "obb:sn", "obb:bx", "obb:ex", "obb:exa", "sphere:sn", "obbn:apply", "obbn:ob"}
        thin = {t: apis.get(t, 0) for t in tags if apis.get(t, 0) < 10}
        for t in ("hull:chI", "hull:ch32", "obb:obI", "obb:ob32", "sphere:mnI", "sphere:mn32"):
            if apis.get(t, 0) < 30:
                thin[t] = apis.get(t, 0)
        for t, n in (("flat_single_triangle_meshes", 40), ("flat_three_point_clouds", 40), ("flat_sheets", 60),
                     ("flat_records_away_from_the_origin", 100)):
            if stats.get(t, 0) < n:
                thin[t] = stats.get(t, 0)
        if short or thin or stats.get("magnitude_records_tiny_scale", 0) < 150 \
                or stats.get("magnitude_records_huge_scale", 0) < 150 or stats.get("magnitude_records_far_offset", 0) < 100:
            raise MachineryError(f"audit families nearly empty: {short} {thin} {stats}")
    cov = {
        "states": states, "transitions": states,
        "traces_validated_against_impl": total,
        "placed_inputs": len(items),
        "base_inputs": len({it["base"] for it in items}),
        "records_per_kind": kinds,
        "observations_per_api": apis,
        "hull_records_per_family": fam,
        "records_per_family_group_and_kind": groups_seen,
        "placed_inputs_per_placement": places,
        "exercised": stats,
        "sphere_records_accepted_by_tlc": notes,
        "rejected": nrej,
        "rejected_per_family_group_and_placement": rejected_where,
        "exhaustive": tier == "thorough",
        "exhaustive_scopes": (["every 4- and 5-point subset of {0,1,2}^3 spanning three dimensions (hull, bounds, oriented "
                               "box, sphere; at the origin, every fourth also far away)"] if tier == "thorough" else []),
        "tlc_wall_s": round(wall, 1),
        "samples": samples[:4],
    }
    return V.finish("model_checking", cov, assumptions=[
        "inputs are 5..10 points (meshes: 4..12 vertices) of the lattice {0..3}^3 spanning three dimensions, and 3..9 "
        "points of {0..3}^2 spanning the plane; placed at the origin, translated by +-10^4 per axis, scaled by 2^10 "
        "(exact in doubles; results are mapped back by the same exact offset and scale)",
        "audit families: a common scale 2^-26..2^60 and offsets up to 2^30 lattice steps (all kinds); axes scaled by "
        "different powers of two, aspect down to 2^-24 (hull and aabb exactly, oriented box in normalised form, sphere "
        "and cylinder not judged); 12..64 points of {0..7}^3 (hull without the separate extreme-point clause, ball in "
        "fixed point: containment and tightness only, slack 2.5e-3); scenes and Box / Extrusion primitives made of "
        "lattice points; the same calls through other containers and options",
        "sets with lattice steps below 2^-26 are not generated: closer points are one vertex for trimesh (tol.merge = "
        "1e-8); rejected records whose two thinnest axes scale a unit square to <= tol.zero = 1e-13 carry the deviation "
        "id MicroscopicFacesBelowTolZero (decided from the placement alone)",
        "flat geometry (3 points / one triangle, 4..8 points / a sheet of one lattice plane): axis-aligned and oriented "
        "box only, by the clauses of the spanning sets (bounds.oriented_bounds documents a branch for coplanar input)",
        "a hull vertex counts as an input point when it equals one within 1e-9 after mapping back",
        "sphere: exact comparison when the reported centre is within 1e-7 of fractions of denominator <= 2000, else the "
        "weaker fixed-point form; minimality only for inputs in general position (no five cospherical / four cocircular)",
        "oriented box and cylinder: fixed point 1e-4 with slack 1e-3 (containment, rigid frame, centred); minimality of "
        "these two is not claimed by the property and not checked",
        "histories: every read on a moved / already queried object is judged against the vertices read back from the "
        "object after the reads (the moves themselves are property C19); wide sets: coordinates cl * 10^5 + lo, hull "
        "clauses only, signs decided as polynomials in 10^5",
        "not constrained: inputs on hull faces/edges being vertices or not, zero-area hull faces, meshes with "
        "unreferenced vertices (Trimesh.bounds documents that it ignores them), hull / bounding sphere / bounding "
        "cylinder of flat geometry (they raise QhullError; the hull clause needs a spanning set, and the quantifier "
        "names flat-ish sets), collinear and single-point input, "
        "nsphere.fit_nsphere (a least-squares fit, not a bound), convex_hull(repair=False) winding and volume",
    ])


if __name__ == "__main__":
    try:
        sys.exit(main(sys.argv[1:]))
    except MachineryError as e:
        print("MACHINERY-ERROR:", e)
        sys.exit(2)
