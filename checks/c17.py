"""C17 - copies are faithful and share no mutable state with the original.

spec/CopyHeap.tla: objects as records of fields pointing to heap cells, per-object memo of
derived values (themselves objects that can be edited and may view the cell they were computed
from), Copy as (deep | shared | dropped) per field and (private | shared) derived objects.  TLC
checks Faithful and Isolated for the intended design (everything deep, memo verified before it
is handed over, private derived objects), shows that each deviation class (shared field,
dropped field, adopted unverified memo, shared derived object, shared derived object viewing
the source's buffer, sharing along a chain of copies) is detectable, and emits every history up
to a depth.  Each history is replayed on real objects of every geometry kind and every copy
route; fields are instantiated with concrete editable cells.
Faithful: the full projection (data, parameters, visuals, metadata, derived values) of the copy
equals that of its source right after copying.  Isolated: an edit of one object - in place or
through the API, of its data or of a derived object it handed out - leaves the projection of
every other object unchanged.  An edit only counts if it changes the projection of the object
it was applied to (checked at start-up for every catalogue entry).

Families of histories (emitted by TLC, plus systematic single-step ones of the same shape):
  base     read* / edit* / copy / edit* / read* over {geom, meta, param} on two objects; every
           read also evaluates one more public value of the object (catalogue discovered from the
           class), so that "values already computed" ranges over everything the object computes
  cells    every kind x route x every single cell edit on either side, cache warm and cold, and
           the in-place edit of the source that its cache has not noticed before the copy
  derived  histories with edits of derived objects (hull mesh, facet lists, adjacency graph,
           sparse matrices, spatial index ...); the projection then includes what those answer
  chain    three objects: copies of copies and two copies of one source
  reads    one public value evaluated, then a copy by every route, then an edit of the copy
           (history dependent copy failures), and "everything evaluated", then a copy
"""
import copy as pycopy
import json
import sys
import time

import numpy as np

from harness import tlc
from harness.common import (MachineryError, Verdict, import_trimesh, pmap, seed,
                            tier_from_args)

PROP = "C17"

CFG = """CONSTANTS
  Objs <- {objs}
  Fields <- {fields}
  Shared <- {sh}
  Dropped <- {dr}
  AdoptsUnverifiedCache = {auc}
  SharesDerived = {sd}
  DerivedViewsSource = {dvs}
  DerivedEdits = {de}
  MaxDepth = {depth}
SPECIFICATION Spec
{view}
{props}
CHECK_DEADLOCK FALSE
"""

EMIT = "INVARIANT EmitLeaf"


def cfg(depth, objs="Objs2", fields="F3", sh="None0", dr="None0", auc=False, sd=False, dvs=False, de=False,
        view=True, props="INVARIANT Faithful\nPROPERTY Isolated"):
    def B(b):
        return "TRUE" if b else "FALSE"
    return CFG.format(objs=objs, fields=fields, sh=sh, dr=dr, auc=B(auc), sd=B(sd), dvs=B(dvs), de=B(de),
                      depth=depth, view="VIEW View" if view else "", props=props)


def arr(x, nd=9):
    a = np.asarray(x)
    if a.dtype.kind == "f":
        return np.round(a.astype(np.float64), nd).tolist()
    return a.tolist()


def jmeta(md):
    def conv(o):
        if isinstance(o, np.ndarray):
            return o.tolist()
        if isinstance(o, (np.integer, np.floating)):
            return o.item()
        return str(o)
    return json.dumps(md, sort_keys=True, default=conv)


# ------------------------------------------------------------------ kinds
class Kind:
    name = ""
    routes = ("copy", "copy.copy", "copy.deepcopy")
    # expressions (evaluated as "o.<expr>") added to the discovered public properties
    manual_reads = ()
    # a representative of its class of kinds (the `reads` family of the quick tier uses these only)
    representative = False

    def make(self, tm):
        raise NotImplementedError

    def project(self, tm, o):
        raise NotImplementedError

    # abstract field class -> list of (cell name, edit function)
    def edits(self, tm):
        raise NotImplementedError

    # what the derived objects handed out by o answer (None: kind not in the derived family)
    def dproject(self, tm, o):
        return None

    # list of (name, edit of a derived object obtained from o)
    def dedits(self, tm):
        return []

    def full(self, tm, o):
        p = dict(self.project(tm, o))
        for k, v in (self.dproject(tm, o) or {}).items():
            p["d:" + k] = v
        return p


def meta_edits():
    def nested(o):
        o.metadata["nest"]["list"].append(len(o.metadata["nest"]["list"]) + 100)

    def nested_dict(o):
        o.metadata["nest"]["k%d" % len(o.metadata["nest"])] = 1

    def top(o):
        o.metadata["top%d" % len(o.metadata)] = 7
    return [("metadata.nested_list", nested), ("metadata.nested_dict", nested_dict), ("metadata.top", top)]


def set_meta(o):
    o.metadata["nest"] = {"list": [1, 2], "x": {"y": 1}}
    o.metadata["name"] = "thing"


def _v0(o):
    o.vertices[0] += [0.5, 0.25, 0.125][: o.vertices.shape[1]]


def _vscale(o):
    o.vertices *= 1.5


def _vassign(o):
    o.vertices = np.array(o.vertices) + 1.0


def _hull_v0(o):
    o.convex_hull.vertices[0] += 5.0


# fixed query points for spatial indexes (the first is a vertex of the test meshes)
QPTS = np.array([[0.5, 0.0, -0.5], [1.5, 2.0, 2.5], [1.0, 1.0, 1.0], [0.0, 0.0, 0.0]])


class MeshKind(Kind):
    routes = ("copy", "copy.copy", "copy.deepcopy", "copy(include_cache=True)")
    manual_reads = ("kdtree", "triangles_tree", "outline()", "to_dict()", "smooth_shaded", "facets_on_hull",
                    "visual.face_colors", "visual.vertex_colors", "visual.kind", "visual.transparency",
                    "visual.main_color", "export(file_type='stl')", "section(plane_origin=[1, 1, 1], plane_normal=[0, 0, 1])",
                    "nearest.on_surface([[0, 0, 0]])", "ray.intersects_any([[1, 1, 9]], [[0, 0, -1]])", "contains([[1, 1, 1]])",
                    "copy()", "__copy__()", "__hash__()", "identifier_hash", "submesh([[0, 1]])", "split()")

    def __init__(self, variant):
        self.variant = variant
        self.name = "mesh_" + variant
        self.representative = variant == "face_color"

    def make(self, tm):
        m = tm.creation.box(extents=[1, 2, 3])
        m = tm.Trimesh(vertices=np.array(m.vertices) + 1.0, faces=np.array(m.faces), process=False)
        v = self.variant
        if v == "face_color":
            m.visual.face_colors = (np.arange(len(m.faces) * 4).reshape(-1, 4) * 5 % 255).astype(np.uint8)
        elif v == "vertex_color":
            m.visual.vertex_colors = (np.arange(len(m.vertices) * 4).reshape(-1, 4) * 7 % 255).astype(np.uint8)
        elif v == "painted":
            # nothing assigned: default colours looked at, then painted in place (the README idiom)
            m.visual.face_colors[0]
            m.visual.vertex_colors[::2] = [255, 0, 0, 255]
        elif v in ("texture", "pbr", "texattr"):
            from PIL import Image
            img = Image.fromarray((np.arange(48).reshape(4, 4, 3) * 5).astype(np.uint8))
            uv = (np.arange(len(m.vertices) * 2).reshape(-1, 2) % 7) / 7.0
            if v == "pbr":
                mat = tm.visual.material.PBRMaterial(
                    baseColorTexture=img, baseColorFactor=[10, 20, 30, 255], metallicFactor=0.5, roughnessFactor=0.25,
                    emissiveFactor=[0.1, 0.2, 0.3], name="shiny", doubleSided=True, alphaMode="BLEND", alphaCutoff=0.25)
                m.visual = tm.visual.TextureVisuals(uv=uv, material=mat, face_materials=np.arange(len(m.faces)) % 2)
            elif v == "texattr":
                mat = tm.visual.material.SimpleMaterial(image=img, diffuse=[1, 2, 3, 255], ambient=[4, 5, 6, 255],
                                                        specular=[7, 8, 9, 255], glossiness=3.0)
                m.visual = tm.visual.TextureVisuals(uv=uv, material=mat)
                # a second per-vertex channel kept by the visuals (e.g. a second uv set / custom attribute)
                m.visual.vertex_attributes["extra"] = np.arange(len(m.vertices), dtype=float) / 4.0
            else:
                m.visual = tm.visual.TextureVisuals(uv=uv, image=img)
        elif v == "attrs":
            # per-vertex / per-face data of the mesh (what loaders put scalar fields into)
            m.vertex_attributes["weight"] = np.arange(len(m.vertices), dtype=float) / 8.0
            m.vertex_attributes["id2"] = np.arange(len(m.vertices) * 2).reshape(-1, 2)
            m.face_attributes["group"] = np.arange(len(m.faces)) % 3
        m.density = 2.0
        set_meta(m)
        if v == "normals":
            # vertex normals assigned by the user / a loader (not the ones trimesh would compute); assigned last:
            # they only live in the cache, which any change of the stored data (even `density`) empties
            n = np.tile([0.0, 0.6, 0.8], (len(m.vertices), 1))
            n[::2] = [1.0, 0.0, 0.0]
            m.vertex_normals = n
        return m

    def project(self, tm, m):
        p = {"v": arr(m.vertices), "f": arr(m.faces), "area": round(float(m.area), 9), "volume": round(float(m.volume), 9),
             "bounds": arr(m.bounds), "fn": arr(m.face_normals), "density": float(m.density), "meta": jmeta(m.metadata),
             "kind": str(m.visual.kind), "mass": round(float(m.mass), 9), "edges_unique": len(m.edges_unique),
             "va": {k: arr(x) for k, x in sorted(m.vertex_attributes.items())},
             "fa": {k: arr(x) for k, x in sorted(m.face_attributes.items())}}
        if self.variant == "normals":
            p["vn"] = arr(m.vertex_normals)
        # only the colours that are *defined* belong to the copy contract; colours derived from the
        # other kind are a cached by-product (their freshness is a C01/C07 matter, not a copy matter)
        if m.visual.kind == "face":
            p["fc"] = arr(m.visual.face_colors)
        elif m.visual.kind == "vertex":
            p["vc"] = arr(m.visual.vertex_colors)
        elif m.visual.kind == "texture":
            p["vattr"] = {k: arr(x) for k, x in sorted(m.visual.vertex_attributes.items())}
            mat = m.visual.material
            p["mat"] = type(mat).__name__
            fm = m.visual.face_materials
            p["face_materials"] = None if fm is None else arr(fm)
            if hasattr(mat, "baseColorFactor"):
                p["img"] = np.asarray(mat.baseColorTexture).tolist()
                p["pbr"] = [arr(mat.baseColorFactor), mat.metallicFactor, mat.roughnessFactor, arr(mat.emissiveFactor),
                            str(mat.name), bool(mat.doubleSided), str(mat.alphaMode), mat.alphaCutoff]
            else:
                p["img"] = np.asarray(mat.image).tolist()
                p["simple"] = [arr(mat.diffuse), arr(mat.ambient), arr(mat.specular), float(mat.glossiness)]
        return p

    def edits(self, tm):
        def f0(o):
            o.faces[0] = o.faces[0][::-1]

        def fassign(o):
            o.faces = np.array(o.faces)[::-1]
        geom = [("vertices[0]+=", _v0), ("vertices*=", _vscale), ("vertices=", _vassign), ("faces[0]=", f0), ("faces=", fassign),
                ("apply_translation", lambda o: o.apply_translation([1, 0, 0])), ("update_faces", lambda o: o.update_faces(np.arange(len(o.faces)) != 1))]
        param = [("density=", lambda o: setattr(o, "density", o.density + 1.0))]
        v = self.variant
        if v == "face_color":
            def fc(o):
                c = np.array(o.visual.face_colors)
                c[0] = (c[0].astype(int) + 50) % 255
                o.visual.face_colors = c

            def fc_inplace(o):
                o.visual.face_colors[1] = [9, 8, 7, 255]
            param += [("visual.face_colors=", fc), ("visual.face_colors[1]=", fc_inplace)]
        elif v == "painted":
            def paint_more(o):
                o.visual.vertex_colors[1::2] = [0, 0, 255, 255]
            param += [("visual.vertex_colors[1::2]=", paint_more)]
        elif v == "vertex_color":
            def vc(o):
                c = np.array(o.visual.vertex_colors)
                c[0] = (c[0].astype(int) + 50) % 255
                o.visual.vertex_colors = c

            def vc_inplace(o):
                o.visual.vertex_colors[1] = [9, 8, 7, 255]
            param += [("visual.vertex_colors=", vc), ("visual.vertex_colors[1]=", vc_inplace)]
        elif v in ("texture", "texattr", "pbr"):
            def uv(o):
                o.visual.uv[0] += 0.25
            param += [("visual.uv[0]+=", uv)]
            if v == "pbr":
                def px(o):
                    o.visual.material.baseColorTexture.putpixel((0, 0), (200, 100, 50))

                def bcf(o):
                    o.visual.material.baseColorFactor[0] += 7

                def bcf_assign(o):
                    o.visual.material.baseColorFactor = (np.array(o.visual.material.baseColorFactor).astype(int) + [0, 9, 0, 0]) % 255

                def metal(o):
                    o.visual.material.metallicFactor = o.visual.material.metallicFactor * 0.5

                def fmat(o):
                    o.visual.face_materials[0] += 1
                param += [("material.baseColorTexture.putpixel", px), ("material.baseColorFactor[0]+=", bcf),
                          ("material.baseColorFactor=", bcf_assign), ("material.metallicFactor=", metal),
                          ("visual.face_materials[0]+=", fmat)]
            else:
                def px(o):
                    o.visual.material.image.putpixel((0, 0), (200, 100, 50))
                param += [("material.image.putpixel", px)]
            if v == "texattr":
                def extra(o):
                    o.visual.vertex_attributes["extra"][0] += 1.0

                def diffuse(o):
                    o.visual.material.diffuse[0] += 9
                param += [("visual.vertex_attributes[extra][0]+=", extra), ("material.diffuse[0]+=", diffuse)]
        elif v == "attrs":
            def va_inplace(o):
                o.vertex_attributes["weight"][0] += 1.0

            def va_assign(o):
                o.vertex_attributes["new%d" % len(o.vertex_attributes)] = np.ones(len(o.vertices))

            def fa_inplace(o):
                o.face_attributes["group"][0] += 5

            def fa_assign(o):
                o.face_attributes["group"] = np.array(o.face_attributes["group"]) + 1
            param += [("vertex_attributes[weight][0]+=", va_inplace), ("vertex_attributes[new]=", va_assign),
                      ("face_attributes[group][0]+=", fa_inplace), ("face_attributes[group]=", fa_assign)]
        elif v == "normals":
            def vn(o):
                n = np.array(o.vertex_normals)[::-1].copy()
                n[0] = [0.0, 0.0, -1.0] if not np.allclose(n[0], [0, 0, -1]) else [0.0, -1.0, 0.0]
                o.vertex_normals = n
            param += [("vertex_normals=", vn)]
        return {"geom": geom, "meta": meta_edits(), "param": param}

    def dproject(self, tm, m):
        if self.variant not in ("plain", "face_color"):
            return None
        h = m.convex_hull
        g = m.vertex_adjacency_graph
        return {"hull": [arr(h.bounds), round(float(h.volume), 8), len(h.vertices), len(h.faces)],
                "obb": arr(np.sort(m.bounding_box_oriented.primitive.extents), 7),
                "bsphere": round(float(m.bounding_sphere.primitive.radius), 7),
                "kdtree": arr(m.kdtree.query(QPTS)[0]),
                "facets": [arr(f) for f in m.facets],
                "vag": [g.number_of_nodes(), g.number_of_edges()],
                "vnb": [sorted(int(i) for i in x) for x in m.vertex_neighbors],
                "edges_sparse": int(m.edges_sparse.sum()),
                "mass_properties": round(float(m.mass_properties.mass), 9)}

    def dedits(self, tm):
        def facet0(o):
            o.facets[0][0] += 1

        def vag(o):
            g = o.vertex_adjacency_graph
            g.add_edge(0, 1000 + g.number_of_nodes())

        def es(o):
            d = o.edges_sparse.data
            d[:] = ~d

        def mp(o):
            o.mass_properties.mass = o.mass_properties.mass + 1.0
        return [("convex_hull.vertices[0]+=", _hull_v0), ("convex_hull.apply_scale", lambda o: o.convex_hull.apply_scale(2.0)),
                ("facets.append", lambda o: o.facets.append(np.array([0]))), ("facets[0][0]+=", facet0),
                ("vertex_adjacency_graph.add_edge", vag), ("vertex_neighbors[0].append", lambda o: o.vertex_neighbors[0].append(99)),
                ("edges_sparse.data[:]=", es), ("mass_properties.mass=", mp)]


def prim_params(p):
    pr = {}
    for k in sorted(p.primitive._defaults if hasattr(p.primitive, "_defaults") else []):
        v = getattr(p.primitive, k)
        pr[k] = arr(v) if isinstance(v, (np.ndarray, list, tuple, float, int, np.number)) else str(getattr(v, "wkt", v))
    return pr


class PrimKind(Kind):
    manual_reads = ("to_dict()", "to_mesh()", "kdtree", "primitive.transform", "visual.face_colors", "__hash__()")

    def __init__(self, which):
        self.which = which
        self.name = "prim_" + which
        self.representative = which == "cylinder"

    def make(self, tm):
        T = np.eye(4)
        T[:3, 3] = [1, 2, 3]
        T[:3, :3] = [[0, -1, 0], [1, 0, 0], [0, 0, 1]]
        P = tm.primitives
        if self.which in ("box", "box_colored"):
            p = P.Box(extents=[1, 2, 3], transform=T)
            if self.which == "box_colored":
                p.visual.face_colors = (np.arange(12 * 4).reshape(-1, 4) * 5 % 255).astype(np.uint8)
                p.density = 3.0
        elif self.which == "sphere":
            p = P.Sphere(radius=2.0, center=[1, 0, 0], subdivisions=1)
        elif self.which == "cylinder":
            p = P.Cylinder(radius=1.5, height=3.0, sections=5, transform=T)
        elif self.which == "capsule":
            p = P.Capsule(radius=1.0, height=2.0, sections=6, transform=T)
        else:
            from shapely.geometry import Polygon
            p = P.Extrusion(polygon=Polygon([(0, 0), (2, 0), (2, 1), (0, 1)]), height=2.0, transform=T)
        set_meta(p)
        return p

    def project(self, tm, p):
        d = {"primitive": prim_params(p), "nv": len(p.vertices), "nf": len(p.faces), "volume": round(float(p.volume), 8),
             "bounds": arr(p.bounds, 8), "meta": jmeta(p.metadata), "area": round(float(p.area), 8)}
        if self.which == "box_colored":
            d["fc"] = arr(p.visual.face_colors)
            d["kind"] = str(p.visual.kind)
            d["density"] = float(p.density)
            d["mass"] = round(float(p.mass), 8)
        return d

    def edits(self, tm):
        w = self.which

        def radius(o):
            o.primitive.radius = float(o.primitive.radius) * 1.5

        def height(o):
            o.primitive.height = float(o.primitive.height) + 1.0

        def extents(o):
            o.primitive.extents = np.array(o.primitive.extents) * [2, 1, 1]

        def transform(o):
            M = np.array(o.primitive.transform)
            M[:3, 3] += [1, 1, 0]
            o.primitive.transform = M

        def transform_inplace(o):
            o.primitive.transform[:3, 3] += [0.5, 0.0, 1.5]

        def scale2(o):
            o.apply_scale(2.0)

        def scale_transform(o):
            M = np.eye(4) * 1.5
            M[3, 3] = 1.0
            M[:3, 3] = [1, 0, 2]
            o.apply_transform(M)
        param = [("primitive.transform=", transform), ("primitive.transform[:3,3]+=", transform_inplace)]
        if w != "extrusion":
            param += [("apply_scale", scale2), ("apply_transform(similarity)", scale_transform)]
        if w in ("box", "box_colored"):
            def extents_inplace(o):
                o.primitive.extents[1] *= 3.0
            param.append(("primitive.extents[1]*=", extents_inplace))
        if w in ("sphere", "cylinder", "capsule"):
            param.append(("primitive.radius=", radius))
        if w in ("cylinder", "capsule", "extrusion"):
            param.append(("primitive.height=", height))
        if w in ("box", "box_colored"):
            param.append(("primitive.extents=", extents))
        if w == "box_colored":
            def fc_inplace(o):
                o.visual.face_colors[1] = [9, 8, 7, 255]
            param += [("visual.face_colors[1]=", fc_inplace), ("density=", lambda o: setattr(o, "density", o.density + 1.0))]
        geom = [("apply_translation", lambda o: o.apply_translation([0, 0, 2])),
                ("apply_transform", lambda o: o.apply_transform(tm.transformations.rotation_matrix(np.pi / 2, [1, 0, 0])))]
        return {"geom": geom, "meta": meta_edits(), "param": param}

    def dproject(self, tm, p):
        if self.which != "cylinder":
            return None
        h = p.convex_hull
        return {"hull": [arr(h.bounds, 7), round(float(h.volume), 7), len(h.vertices)],
                "kdtree": arr(p.kdtree.query(QPTS)[0], 7)}

    def dedits(self, tm):
        return [("convex_hull.vertices[0]+=", _hull_v0)]


def ent_proj(e):
    d = [type(e).__name__, arr(e.points), bool(getattr(e, "closed", False)), str(e.layer),
         None if e.color is None else arr(e.color), jmeta(e.metadata)]
    if hasattr(e, "text"):
        d += [str(e.text), float(e.height), list(e.align)]
    return d


class PathKind(Kind):
    manual_reads = ("to_dict()", "polygons_full", "polygons_closed", "kdtree", "vertex_graph", "enclosure_directed",
                    "identifier", "__hash__()", "copy()", "simplify()", "discretize_path(o.paths[0])",
                    "export(file_type='dict')", "to_planar()", "to_3D()", "is_closed")

    def __init__(self, dim, rich=False):
        self.dim = dim
        self.rich = rich
        self.name = "path%dd" % dim + ("_rich" if rich else "")
        self.representative = dim == 2 and not rich

    def make(self, tm):
        from trimesh.path.entities import Arc, Bezier, Line, Text
        if self.dim == 2 and self.rich:
            v = np.array([[0, 0], [4, 0], [4, 3], [0, 3], [1, 1], [2, 2], [3, 1], [1, 2]], dtype=float)
            ents = [Line([0, 1, 2], color=[255, 0, 0, 255], layer="L1", metadata={"k": [1]}), Line([2, 3, 0]),
                    Arc([4, 5, 6], closed=True, layer="L2", color=[0, 9, 0, 255]), Bezier([4, 7, 5, 6], layer="B"),
                    Text(origin=0, text="hi", height=2.0, vector=1, align=("center", "top"), layer="T")]
            p = tm.path.Path2D(entities=ents, vertices=v, process=False)
        elif self.dim == 2:
            v = np.array([[0, 0], [4, 0], [4, 3], [0, 3], [1, 1], [2, 2], [3, 1]], dtype=float)
            p = tm.path.Path2D(entities=[Line([0, 1, 2]), Line([2, 3, 0]), Arc([4, 5, 6], closed=True)], vertices=v, process=False)
        else:
            v = np.array([[0, 0, 0], [4, 0, 1], [4, 3, 0], [0, 3, 2]], dtype=float)
            p = tm.path.Path3D(entities=[Line([0, 1, 2]), Line([2, 3, 0])], vertices=v, process=False)
        set_meta(p)
        return p

    def project(self, tm, p):
        d = {"v": arr(p.vertices), "ents": [[type(e).__name__, arr(e.points), bool(e.closed)] for e in p.entities],
             "length": round(float(p.length), 9), "bounds": arr(p.bounds), "meta": jmeta(p.metadata),
             "paths": [arr(x) for x in p.paths], "discrete": [arr(x) for x in p.discrete]}
        if self.dim == 2:
            d["area"] = round(float(p.area), 9)
            d["nroot"] = len(p.root)
        if self.rich:
            d["ents"] = [ent_proj(e) for e in p.entities]
            d["layers"] = [str(x) for x in p.layers]
            d["colors"] = None if p.colors is None else arr(p.colors)
        return d

    def edits(self, tm):
        def ent_rev(o):
            o.entities[0].points = o.entities[0].points[::-1]

        def ent_inplace(o):
            o.entities[1].points[1] = 1

        def transform(o):
            M = np.eye(self.dim + 1)
            M[0, self.dim] = 2.0
            M[0, 0] = 2.0
            M[1, 1] = 2.0
            if self.dim == 3:
                M[2, 2] = 2.0
            o.apply_transform(M)
        geom = [("vertices[0]+=", _v0), ("vertices*=", _vscale), ("vertices=", _vassign), ("apply_transform", transform)]
        param = [("entities[0].points=", ent_rev), ("entities[1].points[1]=", ent_inplace)]
        if self.rich:
            def color_inplace(o):
                o.entities[0].color[1] += 5

            def layer(o):
                o.entities[1].layer = "N%d" % len(str(o.entities[1].layer))

            def emeta(o):
                o.entities[0].metadata["k"].append(len(o.entities[0].metadata["k"]))

            def text(o):
                o.entities[4].text = o.entities[4].text + "!"

            def colors(o):
                c = np.array(o.colors)
                c[:, 2] = (c[:, 2].astype(int) + 40) % 255
                o.colors = c
            param += [("entities[0].color[1]+=", color_inplace), ("entities[1].layer=", layer),
                      ("entities[0].metadata[k].append", emeta), ("entities[4].text=", text), ("colors=", colors)]
        return {"geom": geom, "meta": meta_edits(), "param": param}

    def dproject(self, tm, p):
        if not (self.dim == 2 and not self.rich):
            return None
        return {"discrete": [arr(x) for x in p.discrete], "vertex_graph": [p.vertex_graph.number_of_nodes(), p.vertex_graph.number_of_edges()],
                "enclosure": [p.enclosure_directed.number_of_nodes(), p.enclosure_directed.number_of_edges()],
                "polygons_full": [round(float(x.area), 9) for x in p.polygons_full], "npoly": len(p.polygons_full),
                "kdtree": arr(p.kdtree.query(QPTS[:, :2])[0]), "paths": [arr(x) for x in p.paths]}

    def dedits(self, tm):
        def disc(o):
            o.discrete[0][0] += 5.0

        def vg(o):
            g = o.vertex_graph
            g.add_edge(0, 1000 + g.number_of_nodes())

        def enc(o):
            g = o.enclosure_directed
            g.add_node(1000 + g.number_of_nodes())
        return [("discrete[0][0]+=", disc), ("vertex_graph.add_edge", vg), ("enclosure_directed.add_node", enc),
                ("polygons_full.pop", lambda o: o.polygons_full.pop()), ("paths.append", lambda o: o.paths.append(np.array([0])))]


class EntityKind(Kind):
    """A path entity on its own: Entity.copy is an anchored mechanism that Path.copy does not go through
    (it deep copies the entity list), so it is reached directly.  A plain copy.copy of an entity is not demanded."""
    routes = ("copy", "copy.deepcopy")
    manual_reads = ("to_dict()", "closed", "nodes", "end_points", "is_valid", "layer", "metadata", "color", "copy()",
                    "explode()", "reverse()", "_bytes()", "__hash__()", "points")

    def __init__(self, which):
        self.which = which
        self.name = "entity_" + which

    def make(self, tm):
        from trimesh.path.entities import Arc, Line, Text
        if self.which == "line":
            e = Line([0, 1, 2, 5], color=[255, 0, 0, 255], layer="L1")
        elif self.which == "arc":
            e = Arc([4, 5, 6], closed=True, layer="L2", color=[0, 9, 0, 255])
        else:
            e = Text(origin=0, text="hi", height=2.0, vector=1, align=("center", "top"), layer="T", color=[1, 2, 3, 255])
        set_meta(e)
        return e

    def project(self, tm, e):
        return {"ent": ent_proj(e), "dict": jmeta(e.to_dict())}

    def edits(self, tm):
        def rev(o):
            o.points = o.points[::-1] + 1

        def inplace(o):
            o.points[0] += 3

        def color_inplace(o):
            o.color[1] += 5

        def layer(o):
            o.layer = "N%d" % len(str(o.layer))
        param = [("color[1]+=", color_inplace), ("layer=", layer)]
        if self.which == "text":
            param.append(("text=", lambda o: setattr(o, "text", o.text + "!")))
        return {"geom": [("points=", rev), ("points[0]+=", inplace)], "meta": meta_edits(), "param": param}


class CloudKind(Kind):
    manual_reads = ("kdtree", "convex_hull", "colors", "visual.vertex_colors", "__hash__()", "hash()", "copy()",
                    "bounding_box", "bounding_box_oriented", "query([[0, 0, 0]])")

    def __init__(self, colored=True):
        self.colored = colored
        self.name = "pointcloud" if colored else "pointcloud_plain"
        self.representative = colored

    def make(self, tm):
        v = np.arange(15, dtype=float).reshape(5, 3) * [1, 0.5, 2]
        v[3] = [9.0, -4.0, 2.0]
        c = (np.arange(20).reshape(5, 4) * 11 % 255).astype(np.uint8)
        p = tm.PointCloud(v, colors=c if self.colored else None)
        set_meta(p)
        return p

    def project(self, tm, p):
        return {"v": arr(p.vertices), "c": arr(p.colors), "bounds": arr(p.bounds), "meta": jmeta(p.metadata),
                "centroid": arr(p.centroid), "extents": arr(p.extents)}

    def edits(self, tm):
        def col(o):
            if len(o.colors) == 0:
                o.colors = (np.arange(len(o.vertices) * 4).reshape(-1, 4) * 3 % 255).astype(np.uint8)
                return
            c = np.array(o.colors)
            c[0] = (c[0].astype(int) + 40) % 255
            o.colors = c

        def col_inplace(o):
            o.colors[1] = [1, 2, 3, 255]
        geom = [("vertices[0]+=", _v0), ("vertices*=", _vscale), ("vertices=", _vassign),
                ("apply_translation", lambda o: o.apply_translation([1, 1, 1]))]
        param = [("colors=", col)] + ([("colors[1]=", col_inplace)] if self.colored else [])
        return {"geom": geom, "meta": meta_edits(), "param": param}

    def dproject(self, tm, p):
        if not self.colored:
            return None
        h = p.convex_hull
        return {"hull": [arr(h.bounds, 7), round(float(h.volume), 7), len(h.vertices)],
                "kdtree": arr(p.kdtree.query(QPTS)[0]), "bbox": arr(p.bounding_box.bounds)}

    def dedits(self, tm):
        return [("convex_hull.vertices[0]+=", _hull_v0), ("convex_hull.apply_scale", lambda o: o.convex_hull.apply_scale(2.0))]


def geom_proj(g):
    d = {"type": type(g).__name__, "v": arr(g.vertices), "meta": jmeta(g.metadata)}
    if hasattr(g, "faces"):
        d["f"] = arr(g.faces)
    if hasattr(g, "primitive"):
        d["primitive"] = prim_params(g)
    if hasattr(g, "entities"):
        d["ents"] = [[type(e).__name__, arr(e.points)] for e in g.entities]
    if hasattr(g, "colors") and not hasattr(g, "entities"):
        d["colors"] = arr(g.colors)
    return d


class SceneKind(Kind):
    manual_reads = ("graph.nodes", "graph.nodes_geometry", "graph.geometry_nodes", "graph.to_flattened()", "graph.to_edgelist()",
                    "graph.to_gltf(o)", "graph.to_networkx()", "graph.transforms.children", "graph.transforms.nodes",
                    "graph.transforms.parents", "graph.transforms.successors(o.graph.base_frame)", "graph.base_frame",
                    "graph.get('n_box2')", "graph['n_tet']", "graph.__hash__()", "__hash__()", "dump()", "dump(concatenate=True)",
                    "camera_rays()", "copy()", "scaled(2.0)", "subscene('n_tet')", "convex_hull", "export(file_type='dict')",
                    "graph.transforms.node_data", "graph.transforms.edge_data", "graph.copy()")

    def __init__(self, variant="base"):
        self.variant = variant
        self.name = "scene" if variant == "base" else "scene_" + variant
        self.representative = variant == "base"

    def make(self, tm):
        v = self.variant
        m = tm.creation.box(extents=[1, 1, 2])
        t = tm.Trimesh(vertices=[[0, 0, 0], [1, 0, 0], [0, 1, 0], [0, 0, 1]], faces=[[0, 2, 1], [0, 1, 3], [1, 2, 3], [2, 0, 3]], process=False)
        s = tm.Scene(base_frame="root") if v == "mixed" else tm.Scene()
        A = np.eye(4)
        A[:3, 3] = [2, 0, 0]
        B = tm.transformations.rotation_matrix(np.pi / 2, [0, 0, 1])
        B[:3, 3] = [0, 3, 0]
        if v == "repair":
            # an edge whose rotation has drifted: whether it is repaired depends on graph.repair_rigid
            B = tm.transformations.rotation_matrix(0.3, [0, 0, 1])
            B[0, 0] += 1e-4
            B[:3, 3] = [0, 3, 0]
            s.graph.repair_rigid = 1e-2
        s.add_geometry(m, node_name="n_box", geom_name="box", transform=A)
        s.add_geometry(t, node_name="n_tet", geom_name="tet", parent_node_name="n_box", transform=B)
        s.add_geometry(m, node_name="n_box2", geom_name="box", parent_node_name="n_tet", transform=A)
        if v == "mixed":
            s.add_geometry(tm.PointCloud(np.arange(12, dtype=float).reshape(4, 3) / 3.0, colors=[255, 0, 0, 255]),
                           node_name="n_pc", geom_name="pc", parent_node_name="n_tet", transform=A)
            s.add_geometry(tm.primitives.Box(extents=[1.0, 2.0, 0.5]), node_name="n_prim", geom_name="prim", transform=B)
            s.add_geometry(tm.load_path(np.array([[0, 0, 0], [1, 0, 0], [1, 1, 0.0]])), node_name="n_path", geom_name="path",
                           parent_node_name="n_box")
            s.graph.update("n_pc", "n_tet", metadata={"tag": [1, 2]})
        elif v == "camera":
            s.camera = tm.scene.cameras.Camera(name="cam", resolution=[64, 48], fov=[50.0, 40.0], z_near=0.5, z_far=50.0)
            s.camera_transform = tm.transformations.translation_matrix([0, 0, 9.0])
        elif v == "lights":
            L = tm.scene.lighting
            s.lights = [L.PointLight(name="L1", color=[255, 10, 20, 255], intensity=3.0, radius=5.0),
                        L.DirectionalLight(name="L2", intensity=2.0)]
            s.graph.update("L1", matrix=tm.transformations.translation_matrix([0, 0, 5.0]))
            s.graph.update("L2", matrix=tm.transformations.translation_matrix([0, 5.0, 0]))
        set_meta(s)
        return s

    def project(self, tm, s):
        edges = sorted([[str(a), str(b), arr(d.get("matrix", np.eye(4))), str(d.get("geometry")), jmeta(d.get("metadata", {}))]
                        for a, b, d in s.graph.to_edgelist()])
        geo = {k: geom_proj(g) for k, g in s.geometry.items()}
        p = {"edges": edges, "geometry": geo, "bounds": arr(s.bounds), "meta": jmeta(s.metadata),
             "nodes_geometry": sorted(map(str, s.graph.nodes_geometry)), "area": round(float(s.area), 9),
             "world": {str(n): arr(s.graph.get(n)[0]) for n in sorted(s.graph.nodes_geometry)},
             "base_frame": str(s.graph.base_frame)}
        if self.variant == "repair":
            p["repair_rigid"] = str(s.graph.repair_rigid)
        if self.variant == "camera":
            c = s.camera
            p["camera"] = [str(c.name), arr(c.resolution), arr(c.fov), arr(c.focal), float(c.z_near), float(c.z_far)]
            p["camera_transform"] = arr(s.camera_transform)
        if self.variant == "lights":
            p["lights"] = [[type(x).__name__, str(x.name), arr(x.color), float(x.intensity),
                            None if x.radius is None else float(x.radius)] for x in s.lights]
        return p

    def edits(self, tm):
        v = self.variant

        def gv(o):
            o.geometry["tet"].vertices[0] += 0.5

        def gmeta(o):
            o.geometry["box"].metadata["edited"] = o.geometry["box"].metadata.get("edited", 0) + 1

        def edge(o):
            M = np.array(o.graph.get("n_tet", "n_box")[0])
            M[:3, 3] += [1, 0, 0]
            o.graph.update("n_tet", "n_box", matrix=M)

        def reparent(o):
            o.graph.update("n_box2", o.graph.base_frame, matrix=np.eye(4))

        def delgeom(o):
            o.delete_geometry("tet")
        geom = [("geometry[tet].vertices[0]+=", gv), ("apply_transform", lambda o: o.apply_transform(np.diag([2.0, 2, 2, 1]))),
                ("geometry[box].metadata", gmeta)]
        param = [("graph.update(edge)", edge), ("graph.update(reparent)", reparent), ("delete_geometry", delgeom)]
        if v == "mixed":
            def pcv(o):
                o.geometry["pc"].vertices[1] += 0.25

            def pcc(o):
                o.geometry["pc"].colors[0] = [1, 2, 3, 255]

            def prim(o):
                o.geometry["prim"].primitive.extents = np.array(o.geometry["prim"].primitive.extents) + [0.5, 0.0, 0.0]

            def pathv(o):
                o.geometry["path"].vertices[0] += 0.5

            def emeta(o):
                d = o.graph.transforms.edge_data[("n_tet", "n_pc")]["metadata"]["tag"]
                d.append(len(d))
            geom += [("geometry[pc].vertices[1]+=", pcv), ("geometry[path].vertices[0]+=", pathv)]
            param += [("geometry[pc].colors[0]=", pcc), ("geometry[prim].primitive.extents=", prim), ("edge metadata.append", emeta)]
        elif v == "camera":
            def fov(o):
                o.camera.fov = np.array(o.camera.fov) * 0.5

            def zfar(o):
                o.camera.z_far = o.camera.z_far * 2.0

            def res(o):
                o.camera.resolution = np.array(o.camera.resolution) + [16, 0]

            def ct(o):
                M = np.array(o.camera_transform)
                M[0, 3] += 1.0
                o.camera_transform = M
            param += [("camera.fov=", fov), ("camera.z_far=", zfar), ("camera.resolution=", res), ("camera_transform=", ct)]
        elif v == "lights":
            def inten(o):
                o.lights[0].intensity = o.lights[0].intensity + 1.0

            def lcol(o):
                o.lights[1].color = (np.array(o.lights[1].color).astype(int) + [9, 0, 0, 0]) % 255

            def ladd(o):
                o.lights.append(tm.scene.lighting.PointLight(name="L%d" % (len(o.lights) + 1), intensity=0.5))
            param += [("lights[0].intensity=", inten), ("lights[1].color=", lcol), ("lights.append", ladd)]
        return {"geom": geom, "meta": meta_edits(), "param": param}

    def dproject(self, tm, s):
        if self.variant != "base":
            return None
        h = s.convex_hull
        return {"hull": [arr(h.bounds, 7), round(float(h.volume), 7), len(h.vertices)], "triangles": len(s.triangles),
                "flat": sorted(s.graph.to_flattened().keys()), "nodes": sorted(map(str, s.graph.nodes))}

    def dedits(self, tm):
        return [("convex_hull.vertices[0]+=", _hull_v0)]


class VoxelKind(Kind):
    manual_reads = ("marching_cubes", "as_boxes()", "is_filled([[1.0, 0.0, 0.0]])", "matrix", "sparse_indices", "encoding.dense",
                    "encoding.sparse_indices", "encoding.shape", "encoding.sum", "copy()", "__hash__()", "encoding.flat",
                    "revoxelized((2, 2, 2))", "filled_count")

    def __init__(self, enc="dense"):
        self.enc = enc
        self.name = "voxel" if enc == "dense" else "voxel_" + enc
        self.representative = enc == "dense"

    def make(self, tm):
        E = tm.voxel.encoding
        d = np.array([[[1, 0], [1, 1], [0, 1]], [[0, 0], [1, 0], [1, 1]]], dtype=bool)
        T = np.diag([2.0, 2.0, 2.0, 1.0])
        T[:3, 3] = [1, 0, 0]
        if self.enc == "sparse":
            e = E.SparseBinaryEncoding(np.argwhere(d), d.shape)
        elif self.enc == "brle":
            e = E.BinaryRunLengthEncoding(tm.voxel.runlength.dense_to_brle(d.ravel())).reshape(d.shape)
        else:
            e = d
        v = tm.voxel.VoxelGrid(e, transform=T)
        set_meta(v)
        return v

    def project(self, tm, v):
        return {"shape": [int(x) for x in v.shape], "filled": sorted(map(tuple, np.asarray(v.sparse_indices).tolist())),
                "transform": arr(v.transform), "points": sorted(map(tuple, arr(v.points))), "volume": round(float(v.volume), 9),
                "meta": jmeta(v.metadata), "bounds": arr(v.bounds), "matrix": np.asarray(v.matrix).astype(int).tolist()}

    def edits(self, tm):
        E = tm.voxel.encoding

        def data(o):
            e = o.encoding     # whatever encoding the grid holds now (`encoding=` may have replaced it)
            name = type(e).__name__
            if name == "DenseEncoding":
                e.data[0, 0, 1] = ~e.data[0, 0, 1]
            elif name == "SparseEncoding":
                # move one filled cell to a free one
                idx = e.sparse_indices
                filled = {tuple(r) for r in np.asarray(idx).tolist()}
                idx[0] = next(c for c in np.ndindex(*[int(x) for x in o.shape]) if c not in filled)
            else:
                raw = e._data._data     # run lengths of the flattened grid: move one cell between the first two runs
                if raw[1] > 0:
                    raw[0] += 1
                    raw[1] -= 1
                else:
                    raw[0] -= 1
                    raw[1] += 1

        def assign(o):
            o.encoding = E.DenseEncoding(~np.asarray(o.matrix))

        def tr(o):
            o.transform[0, 3] += 1.0
        geom = [("encoding.data[...]=", data), ("apply_translation", lambda o: o.apply_translation([0, 1, 0])), ("encoding=", assign)]
        param = [("transform[0,3]+=", tr), ("apply_scale", lambda o: o.apply_scale(2.0))]
        return {"geom": geom, "meta": meta_edits(), "param": param}

    def dproject(self, tm, v):
        if self.enc != "dense":
            return None
        mc = v.marching_cubes
        return {"marching_cubes": [arr(mc.bounds, 7), len(mc.vertices)], "points": arr(v.points)}

    def dedits(self, tm):
        def mc(o):
            o.marching_cubes.vertices[0] += 5.0

        def pts(o):
            o.points[0] += 5.0
        return [("marching_cubes.vertices[0]+=", mc), ("points[0]+=", pts)]


def all_kinds():
    return [MeshKind("face_color"), MeshKind("vertex_color"), MeshKind("texture"), MeshKind("plain"), MeshKind("painted"),
            PrimKind("box"), PrimKind("sphere"), PrimKind("cylinder"), PrimKind("capsule"), PrimKind("extrusion"),
            PathKind(2), PathKind(3), CloudKind(), SceneKind(), VoxelKind(),
            # audit extension: states the statement names that were not instantiated before
            MeshKind("attrs"), MeshKind("normals"), MeshKind("pbr"), MeshKind("texattr"), PrimKind("box_colored"),
            PathKind(2, rich=True), CloudKind(colored=False), SceneKind("mixed"), SceneKind("repair"), SceneKind("camera"),
            SceneKind("lights"), VoxelKind("sparse"), VoxelKind("brle"), EntityKind("line"), EntityKind("arc"), EntityKind("text")]


N_OLD_KINDS = 15


def do_copy(o, route):
    if route == "copy":
        return o.copy()
    if route == "copy.copy":
        return pycopy.copy(o)
    if route == "copy(include_cache=True)":
        return o.copy(include_cache=True)
    return pycopy.deepcopy(o)


def diff_keys(a, b):
    return sorted(k for k in set(a) | set(b) if a.get(k) != b.get(k))


XREADS = {}  # kind name -> list of read expressions (filled in by main before the fork)


def do_read(o, expr):
    try:
        eval("o." + expr, {"o": o, "np": np})
        return True
    except BaseException:  # noqa  (a value that cannot be computed in this state is not a read)
        return False


def replay(tm, kind, route, h, rot, fam):
    """-> (failure or None, n_checks, steps)"""
    objs = {"a": kind.make(tm)}
    ed = kind.edits(tm)
    ded = kind.dedits(tm)
    xr = XREADS.get(kind.name, [])
    proj0 = kind.full if fam == "derived" else kind.project
    tainted = set()   # objects whose derived objects were edited: their derived values are not demanded of copies
    steps = []
    checks = 0

    def proj(tm_, o_):
        try:
            return proj0(tm_, o_)
        except Exception:
            # an object whose own derived objects were edited may no longer be able to report; anything else is ours
            if any(objs.get(n) is o_ for n in tainted):
                raise _Stop()
            raise

    def pick(st, lst, j):
        return lst[st["ci"] % len(lst)] if "ci" in st else lst[(rot + j) % len(lst)]

    try:
        return _replay_steps(tm, kind, route, h, rot, fam, objs, ed, ded, xr, proj, tainted, steps, pick)
    except _Stop:
        return None, len(steps), steps


class _Stop(Exception):
    pass


def _replay_steps(tm, kind, route, h, rot, fam, objs, ed, ded, xr, proj, tainted, steps, pick):
    checks = 0
    for j, st in enumerate(h):
        op = st["op"]
        if op == "read":
            o = objs.get(st["x"])
            if o is None:
                return None, checks, steps
            if st.get("all"):
                n = sum(do_read(o, e) for e in xr)
                steps.append("read %s: %d public values" % (st["x"], n))
            elif "expr" in st:
                do_read(o, st["expr"])
                steps.append("read %s.%s" % (st["x"], st["expr"]))
            else:
                proj(tm, o)
                if xr and fam != "derived":
                    e = xr[(rot + j) % len(xr)]
                    do_read(o, e)
                    steps.append("read %s (+ .%s)" % (st["x"], e))
                else:
                    steps.append("read " + st["x"])
        elif op in ("edit", "edit_unnoticed", "edit_derived"):
            o = objs.get(st["x"])
            if o is None:
                return None, checks, steps
            cname, fn = pick(st, ded, j) if op == "edit_derived" else pick(st, ed[st["f"]], j)
            others = [(n, x) for n, x in sorted(objs.items()) if n != st["x"]]
            if op == "edit":
                proj(tm, o)   # the edited object has verified its own cache before the edit
            before = [(n, proj(tm, x)) for n, x in others]
            try:
                fn(o)
            except BaseException as e:  # noqa
                steps.append("edit %s.%s raised %s" % (st["x"], cname, type(e).__name__))
                return None, checks, steps
            if op == "edit_derived":
                tainted.add(st["x"])
            steps.append("%s %s.%s" % (op, st["x"], cname))
            for (n, x), (_, b4) in zip(others, before):
                after = proj(tm, x)
                checks += 1
                dk = diff_keys(b4, after)
                if dk:
                    return {"clause": "Isolated", "cell": cname, "edited": st["x"], "observed": n, "changed_on_other": dk,
                            "before": {k: str(b4.get(k))[:100] for k in dk[:3]},
                            "after": {k: str(after.get(k))[:100] for k in dk[:3]}}, checks, steps
        elif op == "copy":
            src, dst = st.get("src", "a"), st.get("dst", "b")
            a = objs.get(src)
            if a is None:
                return None, checks, steps
            try:
                b = do_copy(a, route)
            except BaseException as e:  # noqa
                return {"clause": "CopyRaises", "exc": type(e).__name__ + ": " + str(e)[:100]}, checks, steps
            objs[dst] = b
            steps.append("%s = copy of %s via %s" % (dst, src, route))
            pb = proj(tm, b)
            pa = proj(tm, a)
            checks += 1
            dk = diff_keys(pa, pb)
            if src in tainted:
                # what an object reports after its own derived objects were edited is not constrained (its cached
                # hull, mass properties, point list ... feed other values), so neither is what a copy of it reports
                tainted.add(dst)
                dk = []
            if dk:
                return {"clause": "Faithful", "differs": dk, "orig": {k: str(pa.get(k))[:120] for k in dk},
                        "copy": {k: str(pb.get(k))[:120] for k in dk}}, checks, steps
            if type(b) is not type(a):
                return {"clause": "Faithful", "differs": ["type"], "orig": type(a).__name__, "copy": type(b).__name__}, checks, steps
    return None, checks, steps


def _chunk(args):
    tm = import_trimesh()
    kinds = {k.name: k for k in all_kinds()}
    out = []
    cnt = {}
    nchk = 0
    for idx, h, kname, route, fam in args:
        f, c, steps = replay(tm, kinds[kname], route, h, idx + seed(), fam)
        cnt[fam] = cnt.get(fam, 0) + 1
        nchk += c
        if f:
            f = dict(f)
            f.update({"kind": kname, "route": route, "family": fam, "steps": steps})
            out.append(f)
    return out, cnt, nchk


def deviation_of(f):
    """Name of the (possibly listed) known finding an observation belongs to; None: plain violation."""
    # vertex normals that were ASSIGNED are kept in the cache only; copy() and copy.deepcopy() promise an empty
    # cache (tests/test_copy.py asserts it), so the copy reports recomputed normals.  Only this exact observation:
    # the one projection key `vn`, by the two routes that drop the cache, on the mesh built with assigned normals.
    if (f["clause"] == "Faithful" and f["kind"] == "mesh_normals" and f.get("differs") == ["vn"]
            and f["route"] in ("copy", "copy.deepcopy")):
        return "AssignedVertexNormalsDroppedWithCache"
    return None


def effective_edits(tm):
    """Every catalogued edit must change the projection of the object it is applied to."""
    bad = []
    n = nd = 0
    for k in all_kinds():
        for cls, lst in k.edits(tm).items():
            for cname, fn in lst:
                o = k.make(tm)
                p0 = k.project(tm, o)
                try:
                    fn(o)
                except BaseException as e:  # noqa
                    bad.append((k.name, cname, "raised " + type(e).__name__))
                    continue
                n += 1
                if k.project(tm, o) == p0:
                    bad.append((k.name, cname, "no effect"))
        for cname, fn in k.dedits(tm):
            if k.dproject(tm, k.make(tm)) is None:
                continue
            o = k.make(tm)
            p0 = k.full(tm, o)
            try:
                fn(o)
            except BaseException as e:  # noqa
                bad.append((k.name, "derived " + cname, "raised " + type(e).__name__))
                continue
            nd += 1
            if k.full(tm, o) == p0:
                bad.append((k.name, "derived " + cname, "no effect"))
    return n, nd, bad


def discover_reads(tm, kind):
    """Public values an object of this kind can report: every property of its class plus the kind's
    own list of method calls / nested values, kept if it evaluates on a fresh object."""
    o = kind.make(tm)
    names = [n for n in sorted(dir(type(o))) if not n.startswith("_") and isinstance(getattr(type(o), n, None), property)]
    names += [e for e in kind.manual_reads if e not in names]
    ok = []
    for n in names:
        if do_read(o, n):
            ok.append(n)
    return ok


def run_tlc(tier):
    """All TLC runs of the check, side by side (each is a separate JVM)."""
    from concurrent.futures import ThreadPoolExecutor
    q = tier == "quick"
    jobs = [
        ("mc", "intended design: Faithful, Isolated (3 field classes, 2 objects)", cfg(6 if q else 7), {}),
        ("mc", "intended design with derived objects that view their source and are edited (2 field classes)",
         cfg(6 if q else 7, fields="F2", de=True, dvs=True), {}),
        ("mc", "intended design, chains of copies (3 objects, derived edits)", cfg(6 if q else 7, fields="F1", objs="Objs3", de=True, dvs=True), {}),
        ("mc", "intended design, chains of copies (3 objects, 2 field classes)", cfg(5 if q else 6, fields="F2", objs="Objs3"), {}),
        ("self:Isolated", "shared field", cfg(6, sh="ShMeta"), {}),
        ("self:Faithful", "dropped field", cfg(6, dr="DrParam"), {}),
        ("self:Faithful", "adopts unverified memo", cfg(6, auc=True), {}),
        ("self:Isolated", "memo handed over with the same derived objects, one of them edited", cfg(7, fields="F1", de=True, sd=True), {}),
        ("self:Isolated", "shared derived object that views the source's buffer, source edited in place",
         cfg(7, fields="F1", de=False, sd=True, dvs=True), {}),
        ("self:Isolated", "shared field along a chain of copies", cfg(7, fields="F2", objs="Objs3", sh="ShMeta"), {}),
        ("emit:base", "emit all histories depth %d" % (4 if q else 5), cfg(4 if q else 5, view=False, props=EMIT), dict(workers=1, timeout=1500)),
        ("emit:derived", "emit histories with derived-object edits depth %d" % (5 if q else 6),
         cfg(5 if q else 6, fields="F1", de=True, view=False, props=EMIT), dict(workers=1, timeout=1500)),
        ("emit:chain", "emit histories over 3 objects depth %d" % (4 if q else 5),
         cfg(4 if q else 5, fields="F2", objs="Objs3", view=False, props=EMIT), dict(workers=1, timeout=1500)),
    ]

    def one(ij):
        i, (what, name, c, kw) = ij
        d = tlc.prepare("c17/tlc%d" % i)
        kw = dict(kw)
        kw.setdefault("workers", 2)
        return tlc.run(d, "CopyHeap", c, **kw)
    with ThreadPoolExecutor(max_workers=7) as ex:
        results = list(ex.map(one, enumerate(jobs)))
    return [(j[0], j[1], r) for j, r in zip(jobs, results)]


def main(argv):
    tier = tier_from_args(argv)
    V = Verdict(PROP, tier)
    tm = import_trimesh()
    cov = {"tlc_runs": []}
    states = trans = 0
    emitted = {}
    selftests = []
    for what, name, r in run_tlc(tier):
        if what.startswith("self:"):
            want = what.split(":")[1]
            if r.violated != want:
                raise MachineryError(f"spec self-test '{name}': expected {want}, got {r.violated} {r.error}")
            selftests.append("%s -> %s" % (name, want))
            continue
        tlc.must(r, name)
        states += r.distinct
        trans += r.generated
        cov["tlc_runs"].append({"run": name, "distinct": r.distinct, "generated": r.generated, "wall_s": round(r.wall, 1)})
        if what.startswith("emit:"):
            emitted[what.split(":")[1]] = r.printed
    cov["spec_selftests"] = "; ".join(selftests) + ": all reported by TLC"

    def ncopies(h):
        return sum(s["op"] == "copy" for s in h)
    hists = [h for h in emitted["base"] if ncopies(h) >= 1]
    dhists = [h for h in emitted["derived"] if ncopies(h) >= 1 and any(s["op"] == "edit_derived" for s in h)]
    chists = [h for h in emitted["chain"] if ncopies(h) >= 2]
    if len(hists) < 200 or len(dhists) < 100 or len(chists) < 100:
        raise MachineryError("too few histories: base %d, derived %d, chain %d" % (len(hists), len(dhists), len(chists)))
    nedit, ndedit, bad = effective_edits(tm)
    if bad:
        raise MachineryError("edit catalogue entries without effect: %s" % bad[:5])
    kinds = all_kinds()
    dkinds = [k for k in kinds if k.dproject(tm, k.make(tm)) is not None]
    if len(dkinds) < 6 or ndedit < 15:
        raise MachineryError("derived-object family nearly empty: %d kinds, %d edits" % (len(dkinds), ndedit))
    for k in kinds:
        XREADS[k.name] = discover_reads(tm, k)
    nreads = {k.name: len(XREADS[k.name]) for k in kinds}
    if min(n for k, n in nreads.items() if not k.startswith("entity_")) < 15 or nreads["mesh_face_color"] < 70 \
            or nreads["scene"] < 35 or min(nreads.values()) < 8:
        raise MachineryError("catalogue of public values nearly empty: %s" % nreads)
    quick = tier == "quick"
    work = []
    per = 1 if quick else 3
    # base: TLC histories over the kinds (the 15 original kinds keep their share, the new ones come on top)
    old, new = kinds[:N_OLD_KINDS], kinds[N_OLD_KINDS:]
    for hi, h in enumerate(hists):
        for t in range(per):
            k = old[(hi + t * 5) % len(old)]
            route = k.routes[(hi // len(old) + t) % len(k.routes)]
            work.append((hi * 3 + t, h, k.name, route, "base"))
        if quick and hi % 2:
            continue
        k = new[(hi // (2 if quick else 1)) % len(new)]
        route = k.routes[(hi // len(new)) % len(k.routes)]
        work.append((hi * 3 + 1, h, k.name, route, "base"))
    # cells: every kind x route x every single cell edit on either side, cache warm and cold
    for k in kinds:
        for route in k.routes:
            for cls, lst in k.edits(tm).items():
                for ci in range(len(lst)):
                    for side in ("a", "b"):
                        for warm in (True, False):
                            h = ([{"op": "read", "x": "a", "f": cls}] if warm else []) + [{"op": "copy", "src": "a", "dst": "b"}] + \
                                ([{"op": "read", "x": "b", "f": cls}] if warm else []) + [{"op": "edit", "x": side, "f": cls, "ci": ci}]
                            work.append((ci, h, k.name, route, "cells"))
                    # edit the original in place, then copy without any read in between
                    h = [{"op": "read", "x": "a", "f": cls}, {"op": "edit_unnoticed", "x": "a", "f": cls, "ci": ci},
                         {"op": "copy", "src": "a", "dst": "b"}]
                    work.append((ci, h, k.name, route, "cells"))
    # derived: TLC histories with derived-object edits on every kind that hands out derived objects
    for hi, h in enumerate(dhists):
        for t in range(1 if quick else 3):
            k = dkinds[(hi + t) % len(dkinds)]
            route = k.routes[(hi // len(dkinds) + t) % len(k.routes)]
            work.append((hi + t, h, k.name, route, "derived"))
    # ... and systematically: every derived edit / every geometry edit x route x side after a warm copy
    for k in dkinds:
        for route in k.routes:
            for side in ("a", "b"):
                pre = [{"op": "read", "x": "a", "f": "geom"}, {"op": "copy", "src": "a", "dst": "b"}, {"op": "read", "x": "b", "f": "geom"}]
                for ci in range(len(k.dedits(tm))):
                    work.append((ci, pre + [{"op": "edit_derived", "x": side, "f": "geom", "ci": ci}], k.name, route, "derived"))
                for ci in range(len(k.edits(tm)["geom"])):
                    work.append((ci, pre + [{"op": "edit", "x": side, "f": "geom", "ci": ci}], k.name, route, "derived"))
    # chain: three objects
    for hi, h in enumerate(chists):
        for t in range(1 if quick else 2):
            k = kinds[(hi + t * 7) % len(kinds)]
            route = k.routes[(hi // len(kinds) + t) % len(k.routes)]
            work.append((hi + t, h, k.name, route, "chain"))
    # ... and systematically: two copies of one source / a copy of a copy, then one cell of each class edited on each object
    n = 0
    for k in kinds:
        for route in k.routes:
            for cls in sorted(k.edits(tm)):
                for second in ("a", "b"):
                    for side in ("a", "b", "c"):
                        h = [{"op": "copy", "src": "a", "dst": "b"}, {"op": "read", "x": "b", "f": cls},
                             {"op": "copy", "src": second, "dst": "c"}, {"op": "edit", "x": side, "f": cls}]
                        work.append((n, h, k.name, route, "chain"))
                        n += 1
    # reads: one public value, copy by every route, edit the copy; everything evaluated, copy
    for k in kinds:
        if quick and not k.representative:
            continue
        for route in k.routes:
            for i, e in enumerate(XREADS[k.name]):
                h = [{"op": "read", "x": "a", "expr": e}, {"op": "copy", "src": "a", "dst": "b"}, {"op": "edit", "x": "b", "f": "geom"}]
                work.append((i, h, k.name, route, "reads"))
    for k in kinds:
        for route in k.routes:
            h = [{"op": "read", "x": "a", "all": True}, {"op": "copy", "src": "a", "dst": "b"}, {"op": "read", "x": "b", "all": True},
                 {"op": "edit", "x": "a", "f": "geom"}, {"op": "edit", "x": "b", "f": "param"}]
            work.append((0, h, k.name, route, "reads"))
    t0 = time.time()
    res = pmap(_chunk, work, chunk=40)
    fam = {}
    for x in res:
        for f, n in x[1].items():
            fam[f] = fam.get(f, 0) + n
    nrep = sum(fam.values())
    nchk = sum(x[2] for x in res)
    need = {"base": 2000, "cells": 3000, "derived": 400, "chain": 1500, "reads": 300}
    for f, n in need.items():
        if fam.get(f, 0) < n:
            raise MachineryError("family '%s' nearly empty: %d replays (< %d)" % (f, fam.get(f, 0), n))
    # one VIOLATION per (clause, kind, what differs): the routes / histories that show it are listed with it
    grouped = {}
    for x in res:
        for f in x[0]:
            f["deviation"] = deviation_of(f)
            key = (f["clause"], f["kind"], json.dumps(f.get("differs") or f.get("changed_on_other") or f.get("exc")), f.get("cell", ""),
                   str(f["deviation"]))
            g = grouped.setdefault(key, dict(f, routes=[], occurrences=0))
            g["occurrences"] += 1
            if f["route"] not in g["routes"]:
                g["routes"].append(f["route"])
    for key in sorted(grouped):
        f = grouped[key]
        f.pop("route", None)
        V.violation("%s:%s" % (f["clause"], f["kind"]), f, f.pop("deviation"))
    cov.update({"states": states, "transitions": trans, "traces_validated_against_impl": nrep,
                "replays_by_family": fam, "faithful_or_isolated_checks": nchk, "kinds": [k.name for k in kinds],
                "kinds_with_derived_objects": [k.name for k in dkinds],
                "copy_routes": sorted({r for k in kinds for r in k.routes}),
                "edit_cells": nedit, "derived_object_edits": ndedit, "public_values_read_before_copy": nreads,
                "tlc_histories": {"base": len(hists), "derived": len(dhists), "chain": len(chists)},
                "replay_wall_s": round(time.time() - t0, 1),
                "samples": [hists[len(hists) // 2], dhists[len(dhists) // 2], chists[len(chists) // 2], work[-1][1]]})
    return V.finish("model_checking", cov, assumptions=[
        "edits are edits of data (arrays, parameters, metadata incl. nested containers, graph edges, encodings, images, "
        "user vertex/face attributes) or of a derived object a getter handed out (only ISOLATION is demanded for those: "
        "what an object reports after its own derived object was edited is not constrained)",
        "colours derived from the other colour kind, the `mutable` flag of primitives and `Trimesh.source` are not part of the copy contract",
    ])


if __name__ == "__main__":
    try:
        sys.exit(main(sys.argv[1:]))
    except MachineryError as e:
        print("MACHINERY-ERROR:", e)
        sys.exit(2)
