"""C17 - copies are faithful and share no mutable state with the original.

spec/CopyHeap.tla: objects as records of fields pointing to heap cells, per-object memo of
derived values, Copy as (deep | shared | dropped) per field.  TLC checks Faithful and Isolated
for the intended design (everything deep, memo verified before it is handed over), shows that
each deviation class (shared field, dropped field, adopted unverified memo) is detectable, and
emits every history read*/edit*/copy/edit*/read* up to a depth over abstract field classes
{geom, meta, param}.  Each history is replayed on real objects of every geometry kind and
every copy route (copy(), copy.copy, copy.deepcopy); fields are instantiated with concrete
editable cells.  Faithful: the full projection (data, parameters, visuals, metadata, derived
values) of the copy equals that of the original right after copying.  Isolated: an edit of
one side - in place or through the API - leaves the other side's projection unchanged.
An edit only counts if it changes the projection of the object it was applied to.
"""
import copy as pycopy
import io
import json
import sys
import time

import numpy as np

from harness import tlc
from harness.common import (MachineryError, Verdict, import_trimesh, pmap, seed,
                            tier_from_args)

PROP = "C17"

CFG = """CONSTANTS
  Fields <- F3
  Shared <- {sh}
  Dropped <- {dr}
  AdoptsUnverifiedCache = {auc}
  MaxDepth = {depth}
SPECIFICATION Spec
{view}
{props}
CHECK_DEADLOCK FALSE
"""


def cfg(depth, sh="None0", dr="None0", auc=False, view=True, props="INVARIANT Faithful\nPROPERTY Isolated"):
    return CFG.format(sh=sh, dr=dr, auc="TRUE" if auc else "FALSE", depth=depth,
                      view="VIEW View" if view else "", props=props)


def arr(x, nd=9):
    a = np.asarray(x)
    if a.dtype.kind == "f":
        return np.round(a.astype(np.float64), nd).tolist()
    return a.tolist()


def jmeta(md):
    def conv(o):
        if isinstance(o, np.ndarray):
            return o.tolist()
        if isinstance(o, (np.integer, np.floating)):
            return o.item()
        return str(o)
    return json.dumps(md, sort_keys=True, default=conv)


# ------------------------------------------------------------------ kinds
class Kind:
    name = ""
    routes = ("copy", "copy.copy", "copy.deepcopy")

    def make(self, tm):
        raise NotImplementedError

    def project(self, tm, o):
        raise NotImplementedError

    # abstract field class -> list of (cell name, edit function)
    def edits(self, tm):
        raise NotImplementedError

    def reads(self, o):
        """populate caches"""
        self.project(None, o)


def meta_edits():
    def nested(o):
        o.metadata["nest"]["list"].append(len(o.metadata["nest"]["list"]) + 100)

    def nested_dict(o):
        o.metadata["nest"]["k%d" % len(o.metadata["nest"])] = 1

    def top(o):
        o.metadata["top%d" % len(o.metadata)] = 7
    return [("metadata.nested_list", nested), ("metadata.nested_dict", nested_dict), ("metadata.top", top)]


def set_meta(o):
    o.metadata["nest"] = {"list": [1, 2], "x": {"y": 1}}
    o.metadata["name"] = "thing"


def _v0(o):
    o.vertices[0] += [0.5, 0.25, 0.125][: o.vertices.shape[1]]


def _vscale(o):
    o.vertices *= 1.5


def _vassign(o):
    o.vertices = np.array(o.vertices) + 1.0


class MeshKind(Kind):
    def __init__(self, variant):
        self.variant = variant
        self.name = "mesh_" + variant

    def make(self, tm):
        m = tm.creation.box(extents=[1, 2, 3])
        m = tm.Trimesh(vertices=np.array(m.vertices) + 1.0, faces=np.array(m.faces), process=False)
        if self.variant == "face_color":
            m.visual.face_colors = (np.arange(len(m.faces) * 4).reshape(-1, 4) * 5 % 255).astype(np.uint8)
        elif self.variant == "vertex_color":
            m.visual.vertex_colors = (np.arange(len(m.vertices) * 4).reshape(-1, 4) * 7 % 255).astype(np.uint8)
        elif self.variant == "painted":
            # nothing assigned: default colours looked at, then painted in place (the README idiom)
            m.visual.face_colors[0]
            m.visual.vertex_colors[::2] = [255, 0, 0, 255]
        elif self.variant == "texture":
            from PIL import Image
            img = Image.fromarray((np.arange(48).reshape(4, 4, 3) * 5).astype(np.uint8))
            uv = (np.arange(len(m.vertices) * 2).reshape(-1, 2) % 7) / 7.0
            m.visual = tm.visual.TextureVisuals(uv=uv, image=img)
        m.density = 2.0
        set_meta(m)
        return m

    def project(self, tm, m):
        p = {"v": arr(m.vertices), "f": arr(m.faces), "area": round(float(m.area), 9), "volume": round(float(m.volume), 9),
             "bounds": arr(m.bounds), "fn": arr(m.face_normals), "density": float(m.density), "meta": jmeta(m.metadata),
             "kind": str(m.visual.kind), "mass": round(float(m.mass), 9), "edges_unique": len(m.edges_unique)}
        # only the colours that are *defined* belong to the copy contract; colours derived from the
        # other kind are a cached by-product (their freshness is a C01/C07 matter, not a copy matter)
        if m.visual.kind == "face":
            p["fc"] = arr(m.visual.face_colors)
        elif m.visual.kind == "vertex":
            p["vc"] = arr(m.visual.vertex_colors)
        elif m.visual.kind == "texture":
            p["uv"] = arr(m.visual.uv)
            p["img"] = np.asarray(m.visual.material.image).tolist()
        return p

    def edits(self, tm):
        def f0(o):
            o.faces[0] = o.faces[0][::-1]

        def fassign(o):
            o.faces = np.array(o.faces)[::-1]
        geom = [("vertices[0]+=", _v0), ("vertices*=", _vscale), ("vertices=", _vassign), ("faces[0]=", f0), ("faces=", fassign),
                ("apply_translation", lambda o: o.apply_translation([1, 0, 0])), ("update_faces", lambda o: o.update_faces(np.arange(len(o.faces)) != 1))]
        param = [("density=", lambda o: setattr(o, "density", o.density + 1.0))]
        if self.variant == "face_color":
            def fc(o):
                c = np.array(o.visual.face_colors)
                c[0] = (c[0].astype(int) + 50) % 255
                o.visual.face_colors = c

            def fc_inplace(o):
                o.visual.face_colors[1] = [9, 8, 7, 255]
            param += [("visual.face_colors=", fc), ("visual.face_colors[1]=", fc_inplace)]
        elif self.variant == "painted":
            def paint_more(o):
                o.visual.vertex_colors[1::2] = [0, 0, 255, 255]
            param += [("visual.vertex_colors[1::2]=", paint_more)]
        elif self.variant == "vertex_color":
            def vc(o):
                c = np.array(o.visual.vertex_colors)
                c[0] = (c[0].astype(int) + 50) % 255
                o.visual.vertex_colors = c

            def vc_inplace(o):
                o.visual.vertex_colors[1] = [9, 8, 7, 255]
            param += [("visual.vertex_colors=", vc), ("visual.vertex_colors[1]=", vc_inplace)]
        elif self.variant == "texture":
            def uv(o):
                o.visual.uv[0] += 0.25

            def px(o):
                o.visual.material.image.putpixel((0, 0), (200, 100, 50))
            param += [("visual.uv[0]+=", uv), ("material.image.putpixel", px)]
        return {"geom": geom, "meta": meta_edits(), "param": param}


class PrimKind(Kind):
    def __init__(self, which):
        self.which = which
        self.name = "prim_" + which

    def make(self, tm):
        T = np.eye(4)
        T[:3, 3] = [1, 2, 3]
        T[:3, :3] = [[0, -1, 0], [1, 0, 0], [0, 0, 1]]
        P = tm.primitives
        if self.which == "box":
            p = P.Box(extents=[1, 2, 3], transform=T)
        elif self.which == "sphere":
            p = P.Sphere(radius=2.0, center=[1, 0, 0], subdivisions=1)
        elif self.which == "cylinder":
            p = P.Cylinder(radius=1.5, height=3.0, sections=5, transform=T)
        elif self.which == "capsule":
            p = P.Capsule(radius=1.0, height=2.0, sections=6, transform=T)
        else:
            from shapely.geometry import Polygon
            p = P.Extrusion(polygon=Polygon([(0, 0), (2, 0), (2, 1), (0, 1)]), height=2.0, transform=T)
        set_meta(p)
        return p

    def project(self, tm, p):
        pr = {}
        for k in sorted(p.primitive._defaults if hasattr(p.primitive, "_defaults") else []):
            v = getattr(p.primitive, k)
            pr[k] = arr(v) if isinstance(v, (np.ndarray, list, tuple, float, int, np.number)) else str(getattr(v, "wkt", v))
        return {"primitive": pr, "nv": len(p.vertices), "nf": len(p.faces), "volume": round(float(p.volume), 8),
                "bounds": arr(p.bounds, 8), "meta": jmeta(p.metadata), "area": round(float(p.area), 8)}

    def edits(self, tm):
        w = self.which

        def radius(o):
            o.primitive.radius = float(o.primitive.radius) * 1.5

        def height(o):
            o.primitive.height = float(o.primitive.height) + 1.0

        def extents(o):
            o.primitive.extents = np.array(o.primitive.extents) * [2, 1, 1]

        def transform(o):
            M = np.array(o.primitive.transform)
            M[:3, 3] += [1, 1, 0]
            o.primitive.transform = M
        def transform_inplace(o):
            o.primitive.transform[:3, 3] += [0.5, 0.0, 1.5]

        def scale2(o):
            o.apply_scale(2.0)

        def scale_transform(o):
            M = np.eye(4) * 1.5
            M[3, 3] = 1.0
            M[:3, 3] = [1, 0, 2]
            o.apply_transform(M)
        param = [("primitive.transform=", transform), ("primitive.transform[:3,3]+=", transform_inplace)]
        if w != "extrusion":
            param += [("apply_scale", scale2), ("apply_transform(similarity)", scale_transform)]
        if w == "box":
            def extents_inplace(o):
                o.primitive.extents[1] *= 3.0
            param.append(("primitive.extents[1]*=", extents_inplace))
        if w in ("sphere", "cylinder", "capsule"):
            param.append(("primitive.radius=", radius))
        if w in ("cylinder", "capsule", "extrusion"):
            param.append(("primitive.height=", height))
        if w == "box":
            param.append(("primitive.extents=", extents))
        geom = [("apply_translation", lambda o: o.apply_translation([0, 0, 2])),
                ("apply_transform", lambda o: o.apply_transform(tm.transformations.rotation_matrix(np.pi / 2, [1, 0, 0])))]
        return {"geom": geom, "meta": meta_edits(), "param": param}


class PathKind(Kind):
    def __init__(self, dim):
        self.dim = dim
        self.name = "path%dd" % dim

    def make(self, tm):
        from trimesh.path.entities import Arc, Line
        if self.dim == 2:
            v = np.array([[0, 0], [4, 0], [4, 3], [0, 3], [1, 1], [2, 2], [3, 1]], dtype=float)
            p = tm.path.Path2D(entities=[Line([0, 1, 2]), Line([2, 3, 0]), Arc([4, 5, 6], closed=True)], vertices=v, process=False)
        else:
            v = np.array([[0, 0, 0], [4, 0, 1], [4, 3, 0], [0, 3, 2]], dtype=float)
            p = tm.path.Path3D(entities=[Line([0, 1, 2]), Line([2, 3, 0])], vertices=v, process=False)
        set_meta(p)
        return p

    def project(self, tm, p):
        d = {"v": arr(p.vertices), "ents": [[type(e).__name__, arr(e.points), bool(e.closed)] for e in p.entities],
             "length": round(float(p.length), 9), "bounds": arr(p.bounds), "meta": jmeta(p.metadata),
             "paths": [arr(x) for x in p.paths], "discrete": [arr(x) for x in p.discrete]}
        if self.dim == 2:
            d["area"] = round(float(p.area), 9)
            d["nroot"] = len(p.root)
        return d

    def edits(self, tm):
        def ent_rev(o):
            o.entities[0].points = o.entities[0].points[::-1]

        def ent_inplace(o):
            o.entities[1].points[1] = 1

        def transform(o):
            M = np.eye(self.dim + 1)
            M[0, self.dim] = 2.0
            M[0, 0] = 2.0
            M[1, 1] = 2.0
            if self.dim == 3:
                M[2, 2] = 2.0
            o.apply_transform(M)
        geom = [("vertices[0]+=", _v0), ("vertices*=", _vscale), ("vertices=", _vassign), ("apply_transform", transform)]
        param = [("entities[0].points=", ent_rev), ("entities[1].points[1]=", ent_inplace)]
        return {"geom": geom, "meta": meta_edits(), "param": param}


class CloudKind(Kind):
    name = "pointcloud"

    def make(self, tm):
        v = np.arange(15, dtype=float).reshape(5, 3) * [1, 0.5, 2]
        c = (np.arange(20).reshape(5, 4) * 11 % 255).astype(np.uint8)
        p = tm.PointCloud(v, colors=c)
        set_meta(p)
        return p

    def project(self, tm, p):
        return {"v": arr(p.vertices), "c": arr(p.colors), "bounds": arr(p.bounds), "meta": jmeta(p.metadata),
                "centroid": arr(p.centroid), "extents": arr(p.extents)}

    def edits(self, tm):
        def col(o):
            c = np.array(o.colors)
            c[0] = (c[0].astype(int) + 40) % 255
            o.colors = c

        def col_inplace(o):
            o.colors[1] = [1, 2, 3, 255]
        geom = [("vertices[0]+=", _v0), ("vertices*=", _vscale), ("vertices=", _vassign),
                ("apply_translation", lambda o: o.apply_translation([1, 1, 1]))]
        return {"geom": geom, "meta": meta_edits(), "param": [("colors=", col), ("colors[1]=", col_inplace)]}


class SceneKind(Kind):
    name = "scene"

    def make(self, tm):
        m = tm.creation.box(extents=[1, 1, 2])
        t = tm.Trimesh(vertices=[[0, 0, 0], [1, 0, 0], [0, 1, 0], [0, 0, 1]], faces=[[0, 2, 1], [0, 1, 3], [1, 2, 3], [2, 0, 3]], process=False)
        s = tm.Scene()
        A = np.eye(4)
        A[:3, 3] = [2, 0, 0]
        B = tm.transformations.rotation_matrix(np.pi / 2, [0, 0, 1])
        B[:3, 3] = [0, 3, 0]
        s.add_geometry(m, node_name="n_box", geom_name="box", transform=A)
        s.add_geometry(t, node_name="n_tet", geom_name="tet", parent_node_name="n_box", transform=B)
        s.add_geometry(m, node_name="n_box2", geom_name="box", parent_node_name="n_tet", transform=A)
        set_meta(s)
        return s

    def project(self, tm, s):
        edges = sorted([[str(a), str(b), arr(d.get("matrix", np.eye(4))), str(d.get("geometry"))] for a, b, d in s.graph.to_edgelist()])
        geo = {k: {"v": arr(g.vertices), "f": arr(g.faces), "meta": jmeta(g.metadata)} for k, g in s.geometry.items()}
        return {"edges": edges, "geometry": geo, "bounds": arr(s.bounds), "meta": jmeta(s.metadata),
                "nodes_geometry": sorted(map(str, s.graph.nodes_geometry)), "area": round(float(s.area), 9),
                "world": {str(n): arr(s.graph.get(n)[0]) for n in sorted(s.graph.nodes_geometry)}}

    def edits(self, tm):
        def gv(o):
            o.geometry["tet"].vertices[0] += 0.5

        def gmeta(o):
            o.geometry["box"].metadata["edited"] = o.geometry["box"].metadata.get("edited", 0) + 1

        def edge(o):
            M = np.array(o.graph.get("n_tet", "n_box")[0])
            M[:3, 3] += [1, 0, 0]
            o.graph.update("n_tet", "n_box", matrix=M)

        def reparent(o):
            o.graph.update("n_box2", "world", matrix=np.eye(4))

        def delgeom(o):
            o.delete_geometry("tet")
        geom = [("geometry[tet].vertices[0]+=", gv), ("apply_transform", lambda o: o.apply_transform(np.diag([2.0, 2, 2, 1]))),
                ("geometry[box].metadata", gmeta)]
        param = [("graph.update(edge)", edge), ("graph.update(reparent)", reparent), ("delete_geometry", delgeom)]
        return {"geom": geom, "meta": meta_edits(), "param": param}


class VoxelKind(Kind):
    name = "voxel"

    def make(self, tm):
        d = np.array([[[1, 0], [1, 1], [0, 1]], [[0, 0], [1, 0], [1, 1]]], dtype=bool)
        T = np.diag([2.0, 2.0, 2.0, 1.0])
        T[:3, 3] = [1, 0, 0]
        v = tm.voxel.VoxelGrid(d, transform=T)
        set_meta(v)
        return v

    def project(self, tm, v):
        return {"shape": list(v.shape), "filled": sorted(map(tuple, np.asarray(v.sparse_indices).tolist())),
                "transform": arr(v.transform), "points": sorted(map(tuple, arr(v.points))), "volume": round(float(v.volume), 9),
                "meta": jmeta(v.metadata), "bounds": arr(v.bounds)}

    def edits(self, tm):
        def data(o):
            o.encoding.data[0, 0, 1] = ~o.encoding.data[0, 0, 1]

        def tr(o):
            o.transform[0, 3] += 1.0
        geom = [("encoding.data[...]=", data), ("apply_translation", lambda o: o.apply_translation([0, 1, 0]))]
        param = [("transform[0,3]+=", tr), ("apply_scale", lambda o: o.apply_scale(2.0))]
        return {"geom": geom, "meta": meta_edits(), "param": param}


def all_kinds():
    return [MeshKind("face_color"), MeshKind("vertex_color"), MeshKind("texture"), MeshKind("plain"), MeshKind("painted"),
            PrimKind("box"), PrimKind("sphere"), PrimKind("cylinder"), PrimKind("capsule"), PrimKind("extrusion"),
            PathKind(2), PathKind(3), CloudKind(), SceneKind(), VoxelKind()]


def do_copy(o, route):
    if route == "copy":
        return o.copy()
    if route == "copy.copy":
        return pycopy.copy(o)
    return pycopy.deepcopy(o)


def diff_keys(a, b):
    return sorted(k for k in set(a) | set(b) if a.get(k) != b.get(k))


def replay(tm, kind, route, h, rot):
    """-> (failure or None, n_checks, steps)"""
    objs = {"a": kind.make(tm)}
    ed = kind.edits(tm)
    steps = []
    checks = 0
    for j, st in enumerate(h):
        op = st["op"]
        if op == "read":
            o = objs.get(st["x"])
            if o is None:
                return None, checks, steps
            kind.project(tm, o)
            steps.append("read " + st["x"])
        elif op in ("edit", "edit_unnoticed"):
            o = objs.get(st["x"])
            if o is None:
                return None, checks, steps
            lst = ed[st["f"]]
            cname, fn = lst[(rot + j) % len(lst)]
            other = objs.get("b" if st["x"] == "a" else "a")
            before_self = kind.project(tm, o) if op == "edit" else None
            before_other = kind.project(tm, other) if other is not None else None
            if op == "edit_unnoticed" and other is None:
                pass  # no read between the edit and what follows
            try:
                fn(o)
            except BaseException as e:  # noqa
                steps.append("edit %s.%s raised %s" % (st["x"], cname, type(e).__name__))
                return None, checks, steps
            steps.append("%s %s.%s" % (op, st["x"], cname))
            if other is not None:
                after_other = kind.project(tm, other)
                checks += 1
                dk = diff_keys(before_other, after_other)
                if dk:
                    return {"clause": "Isolated", "cell": cname, "edited": st["x"], "changed_on_other": dk}, checks, steps
        elif op == "copy":
            a = objs["a"]
            try:
                b = do_copy(a, route)
            except BaseException as e:  # noqa
                return {"clause": "CopyRaises", "exc": type(e).__name__ + ": " + str(e)[:100]}, checks, steps
            objs["b"] = b
            steps.append("copy via " + route)
            pb = kind.project(tm, b)
            pa = kind.project(tm, a)
            checks += 1
            dk = diff_keys(pa, pb)
            if dk:
                return {"clause": "Faithful", "differs": dk, "orig": {k: str(pa.get(k))[:120] for k in dk},
                        "copy": {k: str(pb.get(k))[:120] for k in dk}}, checks, steps
            if type(b) is not type(a):
                return {"clause": "Faithful", "differs": ["type"], "orig": type(a).__name__, "copy": type(b).__name__}, checks, steps
    return None, checks, steps


def _chunk(args):
    tm = import_trimesh()
    kinds = {k.name: k for k in all_kinds()}
    out = []
    n = nchk = 0
    for idx, h, kname, route in args:
        f, c, steps = replay(tm, kinds[kname], route, h, idx + seed())
        n += 1
        nchk += c
        if f:
            f = dict(f)
            f.update({"kind": kname, "route": route, "steps": steps})
            out.append(f)
    return out, n, nchk


def effective_edits(tm):
    """Every catalogued edit must change the projection of the object it is applied to."""
    bad = []
    n = 0
    for k in all_kinds():
        for cls, lst in k.edits(tm).items():
            for cname, fn in lst:
                o = k.make(tm)
                p0 = k.project(tm, o)
                try:
                    fn(o)
                except BaseException as e:  # noqa
                    bad.append((k.name, cname, "raised " + type(e).__name__))
                    continue
                n += 1
                if k.project(tm, o) == p0:
                    bad.append((k.name, cname, "no effect"))
    return n, bad


def main(argv):
    tier = tier_from_args(argv)
    V = Verdict(PROP, tier)
    tm = import_trimesh()
    cov = {"tlc_runs": []}
    states = trans = 0

    def note(name, r):
        nonlocal states, trans
        states += r.distinct
        trans += r.generated
        cov["tlc_runs"].append({"run": name, "distinct": r.distinct, "generated": r.generated, "wall_s": round(r.wall, 1)})

    d = tlc.prepare("c17/mc")
    r = tlc.must(tlc.run(d, "CopyHeap", cfg(6 if tier == "quick" else 7)), "intended")
    note("intended design: Faithful, Isolated", r)
    for name, kw, want in (("shared field", dict(sh="ShMeta"), "Isolated"), ("dropped field", dict(dr="DrParam"), "Faithful"),
                           ("adopts unverified memo", dict(auc=True), "Faithful")):
        rr = tlc.run(d, "CopyHeap", cfg(5, **kw))
        if rr.violated != want:
            raise MachineryError(f"spec self-test '{name}': expected {want}, got {rr.violated} {rr.error}")
    cov["spec_selftests"] = "shared field -> Isolated, dropped field -> Faithful, adopted memo -> Faithful: all reported by TLC"
    d = tlc.prepare("c17/emit")
    depth = 4 if tier == "quick" else 5
    r = tlc.must(tlc.run(d, "CopyHeap", cfg(depth, view=False, props="INVARIANT EmitLeaf"), workers=1, timeout=1500), "emit")
    note(f"emit all histories depth {depth}", r)
    hists = [h for h in r.printed if any(s["op"] == "copy" for s in h)]
    if len(hists) < 200:
        raise MachineryError("too few histories with a copy")
    nedit, bad = effective_edits(tm)
    if bad:
        raise MachineryError("edit catalogue entries without effect: %s" % bad[:5])
    kinds = all_kinds()
    work = []
    i = 0
    per = 1 if tier == "quick" else 3
    for hi, h in enumerate(hists):
        for t in range(per):
            k = kinds[(hi + t * 5) % len(kinds)]
            route = k.routes[(hi // len(kinds) + t) % len(k.routes)]
            work.append((hi * 3 + t, h, k.name, route))
    # plus: every kind x route x every single cell edit on either side, cache warm and cold
    for k in kinds:
        for route in k.routes:
            for cls, lst in k.edits(tm).items():
                for ci in range(len(lst)):
                    for side in ("a", "b"):
                        for warm in (True, False):
                            h = ([{"op": "read", "x": "a", "f": cls}] if warm else []) + [{"op": "copy"}] + \
                                ([{"op": "read", "x": "b", "f": cls}] if warm else []) + [{"op": "edit", "x": side, "f": cls}]
                            # rot chosen so that (rot + j) % len == ci at the edit step
                            j = len(h) - 1
                            work.append(((ci - j) % len(lst) - seed(), h, k.name, route))
                    # edit the original in place, then copy without any read in between
                    h = [{"op": "read", "x": "a", "f": cls}, {"op": "edit_unnoticed", "x": "a", "f": cls}, {"op": "copy"}]
                    work.append(((ci - 1) % len(lst) - seed(), h, k.name, route))
    t0 = time.time()
    res = pmap(_chunk, work, chunk=60)
    nrep = sum(x[1] for x in res)
    nchk = sum(x[2] for x in res)
    for x in res:
        for f in x[0]:
            V.violation("%s:%s" % (f["clause"], f["kind"]), f)
    cov.update({"states": states, "transitions": trans, "traces_validated_against_impl": nrep,
                "faithful_or_isolated_checks": nchk, "kinds": [k.name for k in kinds], "copy_routes": list(Kind.routes),
                "edit_cells": nedit, "tlc_histories": len(hists), "replay_wall_s": round(time.time() - t0, 1),
                "samples": [hists[len(hists) // 2], work[-1][1]]})
    return V.finish("model_checking", cov, assumptions=[
        "user face/vertex attributes are not demanded of copies (the statement lists geometry, parameters, visuals, metadata)",
        "edits are edits of data (arrays, parameters, metadata incl. nested containers, graph edges, encodings, images)",
    ])


if __name__ == "__main__":
    try:
        sys.exit(main(sys.argv[1:]))
    except MachineryError as e:
        print("MACHINERY-ERROR:", e)
        sys.exit(2)
