"""C04 - homogeneous transforms act covariantly on every geometry.

Reference: spec/Covariance.tla (exact integer affine maps: p -> M.p, faces re-wound iff
det < 0, per-face identity kept, |det| volume law, centre of mass through M, s^2 area and
s^5 R I R^T inertia laws for similarities, B.A composition, inverse restores).
The harness applies single maps, all ordered pairs (A then B) and (M then M^-1) round trips
from a generator set covering rigid, similarity, mirror, anisotropic, shear and mirror-
anisotropic classes to every geometry kind (mesh with and without normals / other cached
values computed beforehand, point cloud, 2D and 3D path, Box / Cylinder / Sphere / Capsule
primitives, scene, voxel grid), snaps what the real object reports to integers and lets TLC
judge each record.  Curved primitives (irrational vertices) and the near-identity shortcut
boundaries are judged on the symbolic-term route: TLC's map is evaluated with numpy
(matrix times point) and compared within the documented granularity.
"""
import itertools
import sys

import numpy as np

from harness import tlc
from harness.common import (MachineryError, Verdict, import_trimesh, pmap, seed,
                            tier_from_args)

PROP = "C04"
CFG = "INIT Init\nNEXT Next\nINVARIANT Report\nINVARIANT RefLaws\nCHECK_DEADLOCK FALSE\n"

I3 = [[1, 0, 0], [0, 1, 0], [0, 0, 1]]
RZ = [[0, -1, 0], [1, 0, 0], [0, 0, 1]]
RX = [[1, 0, 0], [0, 0, -1], [0, 1, 0]]
RY = [[0, 0, 1], [0, 1, 0], [-1, 0, 0]]


def mm(A, B):
    return (np.array(A) @ np.array(B)).tolist()


def sc(L, k):
    return [[k * x for x in r] for r in L]


MAPS = {
    "translate": {"l": I3, "t": [2, -4, 6]},
    "rigid_z": {"l": RZ, "t": [4, 0, 2]},
    "rigid_xy": {"l": mm(RX, RY), "t": [0, 2, 0]},
    "similarity": {"l": sc(RZ, 2), "t": [2, 0, 0]},
    "scale": {"l": sc(I3, 2), "t": [0, 0, 0]},
    "mirror": {"l": [[-1, 0, 0], [0, 1, 0], [0, 0, 1]], "t": [0, 0, 0]},
    "mirror_rot": {"l": mm(RZ, [[1, 0, 0], [0, 1, 0], [0, 0, -1]]), "t": [0, 2, 2]},
    "point_reflect": {"l": sc(I3, -1), "t": [2, 2, 2]},
    "aniso": {"l": [[1, 0, 0], [0, 2, 0], [0, 0, 3]], "t": [0, 0, 2]},
    "shear": {"l": [[1, 1, 0], [0, 1, 0], [0, 0, 1]], "t": [2, 0, 0]},
    "shear2": {"l": [[1, 0, 2], [0, 1, 1], [0, 0, 1]], "t": [0, 0, 0]},
    "mirror_aniso": {"l": [[-1, 0, 0], [0, 2, 0], [0, 0, 1]], "t": [0, 4, 0]},
    "mirror_sim": {"l": sc([[0, 1, 0], [1, 0, 0], [0, 0, 1]], 2), "t": [0, 0, 0]},
}
PLANAR = ["translate", "rigid_z", "similarity", "scale", "mirror", "shear", "mirror_aniso", "mirror_sim"]   # keep z = 0 plane


def to4(e):
    M = np.eye(4)
    M[:3, :3] = e["l"]
    M[:3, 3] = e["t"]
    return M


def to3(e):
    M = np.eye(3)
    M[:2, :2] = np.array(e["l"])[:2, :2]
    M[:2, 2] = e["t"][:2]
    return M


def planar(e):
    L = np.array(e["l"])
    return {"l": [[int(L[0, 0]), int(L[0, 1]), 0], [int(L[1, 0]), int(L[1, 1]), 0], [0, 0, 1]], "t": [e["t"][0], e["t"][1], 0]}


class Off(Exception):
    pass


def snap(x, den, what):
    a = np.asarray(x, dtype=float) * den
    r = np.round(a)
    if a.size and (not np.isfinite(a).all() or np.abs(a - r).max() > 1e-6):
        raise Off(what)
    return r.astype(int).tolist()


# ------------------------------------------------------------------ geometry kinds
BOXV = np.array([[0, 0, 0], [0, 0, 2], [0, 4, 0], [0, 4, 2], [2, 0, 0], [2, 0, 2], [2, 4, 0], [2, 4, 2]], dtype=float)


def box_faces(tm):
    return np.array(tm.creation.box().faces)


TETV = np.array([[0, 0, 0], [4, 0, 0], [0, 8, 0], [0, 0, 12]], dtype=float)       # scalene faces
TETF = np.array([[0, 2, 1], [0, 1, 3], [1, 2, 3], [2, 0, 3]])


def mesh_obs(m, den, inertia=True):
    o = {"den": den, "pts": snap(m.vertices, den, "vertices"), "faces": (np.array(m.faces) + 1).tolist(),
         "has_vol": True, "vol6": int(round(float(m.volume) * 6 * den ** 3)),
         "has_com": True, "com": snap(np.array(m.center_mass) * 4, den, "center_mass"),
         "has_area": False, "area2": 0, "has_inertia": False, "inertia": [[0, 0, 0]] * 3}
    if abs(float(m.volume) * 6 * den ** 3 - o["vol6"]) > 1e-6:
        raise Off("volume")
    return o


def base_record(kind, pts, faces, names, restore):
    return {"kind": kind, "pts": np.asarray(pts).astype(int).tolist(), "faces": (np.asarray(faces) + 1).tolist() if len(faces) else [],
            "maps": [MAPS[n] for n in names], "names": list(names), "restore": restore, "exc": "",
            "vol6": 0, "com": [0, 0, 0], "comden": 4, "area2": 0, "inertia": [[0, 0, 0]] * 3}


EMPTY_OBS = {"den": 1, "pts": [], "faces": [], "has_vol": False, "vol6": 0, "has_com": False, "com": [0, 0, 0],
             "has_area": False, "area2": 0, "has_inertia": False, "inertia": [[0, 0, 0]] * 3}


def apply_all(obj, names, restore, planar2d=False):
    mats = [to3(MAPS[n]) if planar2d else to4(MAPS[n]) for n in names]
    for M in mats:
        buf = M.copy()
        obj.apply_transform(buf)
        # the matrix handed in stays the caller's: reusing the buffer afterwards must not move the geometry
        buf[...] = 3.25
    if restore:
        total = np.eye(3 if planar2d else 4)
        for M in mats:
            total = M @ total
        obj.apply_transform(np.linalg.inv(total))
    return obj


def run_case(tm, kind, names, restore, warm):
    """-> record"""
    den = 1
    try:
        if kind in ("mesh_box", "mesh_tet"):
            v, f = (BOXV, box_faces(tm)) if kind == "mesh_box" else (TETV, TETF)
            m = tm.Trimesh(v.copy(), f.copy(), process=False)
            r = base_record(kind, v, f, names, restore)
            r["vol6"] = int(round(float(m.volume) * 6))
            r["com"] = snap(np.array(m.center_mass) * 4, 1, "com0")
            if kind == "mesh_box":
                r["area2"] = int(round(float(m.area) * 2))
                r["inertia"] = snap(np.array(m.moment_inertia) * 3, 1, "inertia0")
            if warm == "normals":
                m.face_normals, m.vertex_normals
            elif warm == "all":
                for k in ("face_normals", "vertex_normals", "face_angles", "vertex_defects", "edges", "edges_unique", "face_adjacency", "area", "volume", "center_mass", "edges_unique_length", "area_faces", "face_adjacency_angles",
                          "moment_inertia", "bounds", "triangles", "edges_sparse", "faces_unique_edges", "is_watertight"):
                    getattr(m, k)
            apply_all(m, names, restore)
            o = mesh_obs(m, den)
            if kind == "mesh_box":
                o["has_area"] = True
                o["area2"] = int(round(float(m.area) * 2))
                if abs(float(m.area) * 2 - o["area2"]) > 1e-6:
                    o["has_area"] = False      # non-similar map: area not an integer law, not demanded
                try:
                    o["inertia"] = snap(np.array(m.moment_inertia) * 3, 1, "inertia")
                    o["has_inertia"] = True
                except Off:
                    o["has_inertia"] = False
            # normals stay outward: every face normal must agree with the winding of the moved triangle
            tri = np.array(m.triangles)
            cr = np.cross(tri[:, 1] - tri[:, 0], tri[:, 2] - tri[:, 0])
            fn = np.array(m.face_normals)
            nz = np.linalg.norm(cr, axis=1) > 1e-12
            if nz.any() and (np.abs(fn[nz] - cr[nz] / np.linalg.norm(cr[nz], axis=1)[:, None]).max() > 1e-9):
                r["exc"] = "normals_disagree_with_winding"
            # nothing computed before the transform may survive it with a wrong value
            fresh = tm.Trimesh(np.array(m.vertices), np.array(m.faces), process=False)
            for key, tol in (("face_angles", 1e-6), ("vertex_defects", 1e-6), ("vertex_normals", 1e-6), ("face_normals", 1e-9),
                             ("edges_unique_length", 1e-9), ("area_faces", 1e-9), ("face_adjacency_angles", 1e-6), ("triangles_center", 1e-9)):
                a, b = np.asarray(getattr(m, key), dtype=float), np.asarray(getattr(fresh, key), dtype=float)
                if a.shape != b.shape or not np.allclose(a, b, atol=tol * max(1.0, float(np.abs(b).max()) if b.size else 1.0)):
                    r["exc"] = "derived_value_differs_from_fresh_mesh:" + key
                    break
            r["obs"] = o
            return r
        if kind == "cloud":
            v = np.array([[0, 0, 0], [2, 2, 0], [0, 4, 2], [-2, 0, 2], [6, 6, 6]], dtype=float)
            c = (np.arange(20).reshape(5, 4) * 9 % 255).astype(np.uint8)
            p = tm.PointCloud(v.copy(), colors=c)
            r = base_record(kind, v, [], names, restore)
            if warm != "none":
                p.bounds, p.centroid
            apply_all(p, names, restore)
            o = dict(EMPTY_OBS)
            o["pts"] = snap(p.vertices, 1, "vertices")
            if not np.array_equal(np.array(p.colors), c):
                r["exc"] = "colors_changed"
            r["obs"] = o
            return r
        if kind in ("path3d", "path2d"):
            from trimesh.path.entities import Line
            if kind == "path3d":
                v = np.array([[0, 0, 0], [4, 0, 2], [4, 2, 0], [0, 2, 2]], dtype=float)
                p = tm.path.Path3D(entities=[Line([0, 1, 2]), Line([2, 3, 0])], vertices=v.copy(), process=False)
                r = base_record(kind, v, [], names, restore)
            else:
                v2 = np.array([[0, 0], [4, 0], [4, 2], [0, 2]], dtype=float)
                p = tm.path.Path2D(entities=[Line([0, 1, 2]), Line([2, 3, 0])], vertices=v2.copy(), process=False)
                r = base_record(kind, np.column_stack([v2, np.zeros(4)]), [], names, restore)
                r["maps"] = [planar(MAPS[n]) for n in names]
            if warm != "none":
                p.length, p.bounds, p.paths
                if kind == "path2d":
                    p.area, p.polygons_full
            apply_all(p, names, restore, planar2d=(kind == "path2d"))
            o = dict(EMPTY_OBS)
            pv = np.array(p.vertices)
            if kind == "path2d":
                pv = np.column_stack([pv, np.zeros(len(pv))])
            o["pts"] = snap(pv, 1, "vertices")
            ents = [list(map(int, e.points)) for e in p.entities]
            if ents != [[0, 1, 2], [2, 3, 0]]:
                r["exc"] = "entities_changed"
            r["obs"] = o
            return r
        if kind == "prim_box":
            T = np.eye(4)
            T[:3, 3] = [2, 4, 2]
            b = tm.primitives.Box(extents=[4, 8, 4], transform=T)
            v0 = np.array(b.vertices)
            f0 = np.array(b.faces)
            r = base_record(kind, v0, f0, names, restore)
            r["may_raise"] = True
            if warm != "none":
                b.volume, b.face_normals, b.bounds
            try:
                apply_all(b, names, restore)
            except ValueError:
                r["obs"] = None   # rejecting a map it cannot represent is the specified behaviour
                return r
            o = dict(EMPTY_OBS)
            o["pts"] = snap(b.vertices, 1, "vertices")
            o["faces"] = (np.array(b.faces) + 1).tolist()
            r["obs"] = o
            return r
        if kind in ("voxel", "voxel_identity"):
            d = np.array([[[1, 0], [1, 1], [0, 1]], [[0, 0], [1, 0], [1, 1]]], dtype=bool)
            T = np.diag([2.0, 2.0, 2.0, 1.0])
            T[:3, 3] = [2, 0, 4]
            if kind == "voxel_identity":
                T = np.eye(4)       # a grid that has not been placed yet (shortcuts for the identity live here)
            g = tm.voxel.VoxelGrid(d, transform=T)
            v0 = np.array(g.points)
            r = base_record(kind, v0, [], names, restore)
            if warm != "none":
                g.bounds, g.volume
            apply_all(g, names, restore)
            o = dict(EMPTY_OBS)
            o["pts"] = snap(g.points, 1, "points")
            r["obs"] = o
            return r
        if kind == "scene":
            m = tm.Trimesh(TETV.copy(), TETF.copy(), process=False)
            s = tm.Scene()
            A = to4(MAPS["rigid_z"])
            s.add_geometry(m, node_name="a", geom_name="tet", transform=A)
            s.graph.update(frame_to="b", frame_from="a", matrix=to4(MAPS["translate"]), geometry="tet")
            tri0 = np.array(s.triangles).reshape(-1, 3)
            r = base_record(kind, tri0, np.arange(len(tri0)).reshape(-1, 3), names, restore)
            if warm != "none":
                s.bounds, s.triangles
            apply_all(s, names, restore)
            if not np.array_equal(np.array(m.vertices), TETV):
                r["exc"] = "scene_transform_modified_geometry"
            o = dict(EMPTY_OBS)
            tri = np.array(s.triangles).reshape(-1, 3)
            o["pts"] = snap(tri, 1, "triangles")
            # Scene.triangles places points only (no re-winding is claimed for it): compare points
            r["faces"] = []
            r["obs"] = o
            return r
    except Off as e:
        r = base_record(kind, [[0, 0, 0]], [], names, restore)
        r["exc"] = "offlattice:" + str(e)
        r["obs"] = dict(EMPTY_OBS)
        return r
    raise MachineryError("unknown kind " + kind)


def curved_case(tm, which, names, restore):
    """Curved primitives and near-identity maps: numpy evaluates the map (symbolic-term route)."""
    P = tm.primitives
    T = np.eye(4)
    T[:3, :3] = RX
    T[:3, 3] = [1, 2, 3]
    p = {"sphere": lambda: P.Sphere(radius=2.0, center=[1, 2, 3], subdivisions=1),
         "cylinder": lambda: P.Cylinder(radius=1.5, height=3.0, sections=6, transform=T),
         "capsule": lambda: P.Capsule(radius=1.0, height=2.0, sections=6, transform=T)}[which]()
    v0 = np.array(p.vertices)
    f0 = np.array(p.faces)
    total = np.eye(4)
    for n in names:
        total = to4(MAPS[n]) @ total
    try:
        apply_all(p, names, restore)
    except ValueError:
        return None
    want = v0 if restore else (np.column_stack([v0, np.ones(len(v0))]) @ total.T)[:, :3]
    got = np.array(p.vertices)
    if which == "sphere":
        # a sphere is invariant under rotation about its centre and the library keeps its tessellation
        # axis aligned (tests/test_primitives.py relies on it), so "every point moves to M.p" is read for
        # the point SET: the centre maps through M and every vertex stays on the sphere of radius s.r
        c_want = np.array([1.0, 2.0, 3.0]) if restore else (total @ np.array([1.0, 2.0, 3.0, 1.0]))[:3]
        s = 1.0 if restore else abs(np.linalg.det(total[:3, :3])) ** (1.0 / 3.0)
        c_got = np.array(p.primitive.center)
        rad = np.linalg.norm(got - c_got, axis=1)
        if len(got) != len(v0) or np.abs(c_got - c_want).max() > 1e-8 * 10 or np.abs(rad - 2.0 * s).max() > 1e-8 * 10:
            return {"clause": "sphere_centre_and_radius", "kind": "prim_sphere", "maps": names, "restore": restore}
        if not p.is_watertight or p.volume <= 0:
            return {"clause": "solid_stays_valid", "kind": "prim_sphere", "maps": names}
        return None
    if got.shape != want.shape or np.abs(got - want).max() > 1e-8 * max(1.0, np.abs(want).max()):
        return {"clause": "points_move_to_Mp", "kind": "prim_" + which, "maps": names, "restore": restore,
                "max_error": float(np.abs(got - want).max()) if got.shape == want.shape else "shape"}
    if not np.array_equal(np.array(p.faces), f0) and np.linalg.det(total[:3, :3]) > 0:
        return {"clause": "faces_changed", "kind": "prim_" + which, "maps": names}
    if not p.is_watertight or p.volume <= 0:
        return {"clause": "solid_stays_valid", "kind": "prim_" + which, "maps": names}
    return None


def near_identity(tm):
    """Either side of the identity shortcuts: |M - I| <= 1e-8 (no-op) and rotation part <= 1e-6."""
    fails = []
    n = 0
    v, f = BOXV, box_faces(tm)
    for eps in (4e-9, 3e-8, 4e-7, 3e-6, 1e-4):
        for kind in ("translate", "rotate", "scale"):
            M = np.eye(4)
            if kind == "translate":
                M[0, 3] = eps
            elif kind == "rotate":
                M[:2, :2] = [[np.cos(eps), -np.sin(eps)], [np.sin(eps), np.cos(eps)]]
            else:
                M[0, 0] = 1 + eps
            for warm in (False, True):
                m = tm.Trimesh(v.copy(), f.copy(), process=False)
                if warm:
                    m.face_normals, m.vertex_normals, m.area, m.bounds
                m.apply_transform(M)
                n += 1
                want = (np.column_stack([v, np.ones(len(v))]) @ M.T)[:, :3]
                # documented granularity of the shortcut: 1e-8 absolute per unit of scale
                if np.abs(np.array(m.vertices) - want).max() > 1e-8 * 4.0 + 1e-12:
                    fails.append({"clause": "near_identity_points", "eps": eps, "kind": kind, "warm": warm,
                                  "err": float(np.abs(np.array(m.vertices) - want).max())})
                fresh = tm.Trimesh(np.array(m.vertices), np.array(m.faces), process=False)
                if np.abs(np.array(m.face_normals) - np.array(fresh.face_normals)).max() > 2e-6:
                    fails.append({"clause": "near_identity_normals", "eps": eps, "kind": kind, "warm": warm})
    return n, fails


def _chunk(args):
    tm = import_trimesh()
    out, fails = [], []
    for job in args:
        if job[0] == "exact":
            _, kind, names, restore, warm = job
            r = run_case(tm, kind, names, restore, warm)
            r["warm"] = warm
            out.append(r)
        else:
            _, which, names, restore = job
            f = curved_case(tm, which, names, restore)
            if f:
                fails.append(f)
    return out, fails, len(args)


def main(argv):
    tier = tier_from_args(argv)
    V = Verdict(PROP, tier)
    tm = import_trimesh()
    names = list(MAPS)
    kinds3 = ["mesh_box", "mesh_tet", "cloud", "path3d", "prim_box", "voxel", "voxel_identity", "scene"]
    jobs = []
    for kind in kinds3 + ["path2d"]:
        ns = PLANAR if kind == "path2d" else names
        warms = ["none", "normals", "all"] if kind.startswith("mesh") else ["none", "warm"]
        for n in ns:
            for warm in warms:
                jobs.append(("exact", kind, [n], False, warm))
                jobs.append(("exact", kind, [n], True, warm))
        pairs = list(itertools.product(ns, repeat=2))
        if tier == "quick" and kind not in ("mesh_box",):
            rs = np.random.RandomState(seed() + len(kind))
            pairs = [pairs[i] for i in rs.permutation(len(pairs))[:40]]
        for a, b in pairs:
            jobs.append(("exact", kind, [a, b], False, warms[-1] if (len(a) + len(b)) % 2 else "none"))
        if tier == "thorough":
            rs = np.random.RandomState(seed() + 99)
            for _ in range(150):
                tri = [ns[j] for j in rs.randint(len(ns), size=3)]
                jobs.append(("exact", kind, tri, bool(rs.randint(2)), warms[rs.randint(len(warms))]))
    for which in ("sphere", "cylinder", "capsule"):
        for n in names:
            jobs.append(("curved", which, [n], False))
            jobs.append(("curved", which, [n], True))
        for a, b in itertools.product(["rigid_z", "rigid_xy", "similarity", "translate", "scale"], repeat=2):
            jobs.append(("curved", which, [a, b], False))
    res = pmap(_chunk, jobs, chunk=30)
    cases, curved_fails = [], []
    for out, fails, _ in res:
        cases += out
        curved_fails += fails
    # primitives that legitimately refuse a map
    refused = [c for c in cases if c.get("may_raise") and c["obs"] is None]
    cases = [c for c in cases if c["obs"] is not None]
    meta = []
    for k, c in enumerate(cases):
        c["id"] = k
        meta.append({"kind": c.pop("kind"), "names": c.pop("names"), "warm": c.pop("warm"), "restore": c["restore"]})
        c.pop("may_raise", None)
    rejects, states, wall = tlc.validate_batches("c04", "Covariance", cases, CFG, timeout=1500)
    for cid, clause in sorted(rejects.items()):
        V.violation(f"{meta[cid]['kind']}:{clause}", dict(meta[cid], exc=cases[cid]["exc"], observed_points=cases[cid]["obs"]["pts"][:4]))
    for f in curved_fails:
        V.violation(f"{f['kind']}:{f['clause']}", f)
    n_near, near_fails = near_identity(tm)
    for f in near_fails:
        V.violation(f["clause"], f)
    bykind = {}
    for m in meta:
        bykind[m["kind"]] = bykind.get(m["kind"], 0) + 1
    cov = {"states": states, "transitions": states, "traces_validated_against_impl": len(cases),
           "cases_per_kind": bykind, "primitive_refusals_accepted": len(refused),
           "curved_primitive_cases": sum(1 for j in jobs if j[0] == "curved"), "near_identity_cases": n_near,
           "map_classes": names, "tlc_wall_s": round(wall, 1),
           "samples": [dict(meta[len(meta) // 3], maps=cases[len(meta) // 3]["maps"]), dict(meta[-1], maps=cases[-1]["maps"])]}
    return V.finish("model_checking", cov, assumptions=[
        "exact integer affine maps (cube rotations, mirrors, integer scales, unimodular shears, integer translations); lattice geometry",
        "primitives may refuse (ValueError) a map they cannot represent; curved primitives and near-identity maps are compared with numpy M.p at 1e-8 relative",
    ])


if __name__ == "__main__":
    try:
        sys.exit(main(sys.argv[1:]))
    except MachineryError as e:
        print("MACHINERY-ERROR:", e)
        sys.exit(2)
