"""C06 extension families (coverage audit): inputs the original enumeration of checks/c06.py never
reached although the property quantifies over them.

  empty     every 1-D / set function on empty input (the row functions already had n = 0)
  dtype     stored dtypes at their own limits (int8 .. uint64 above 2^63, int64 extremes), bool,
            strings and exact floats for the 1-D functions, unique_value_in_row and boolean_rows
  option    option combinations never taken: unique_ordered / unique_bincount return flags and
            minlength, the *values* returned by unique_ordered, unique_value_in_row(unique=),
            hashable_rows(allow_int), unique_float, blocks(digits=) on floats
  layout    the same data as non-contiguous column slice, Fortran order, negative strides,
            read-only, TrackedArray, list and tuple
  large     seeded random arrays of 6..40 rows / 6..24 elements (several groups, sort paths)
  bincount  unique_bincount on every magnitude / sign / integer dtype (run in short-lived
            child processes: numpy.bincount writes out of bounds for int64 max on the
            unchanged tree, and a huge allocation must not take the checker down)
  history   every record of these families: the input is unchanged by the call (`pure`) and a
            second identical call returns the same projection (`again`)

All expected values still come from spec/Grouping.tla (TLC batch validation); this file only
enumerates inputs, calls trimesh and projects / decodes results.
"""
import itertools
import json
import os
import subprocess
import sys

import numpy as np

from harness.common import MachineryError, import_trimesh, seed

BAD = -99  # decoded value of something that is not in the image of the embedding


# ------------------------------------------------------------------ embeddings
# name -> (dtype, zimg, oimg): zimg maps symbol 0 to the zero of the dtype (blocks only_nonzero),
# oimg is increasing (order-preserving: group_min, unique_bincount, unique_float)
def _e(dtype, z):
    return (dtype, z, sorted(z))


SEQ_EMB = {
    "i8lim": _e(np.int8, [0, 127, -128]),
    "i16lim": _e(np.int16, [0, 2 ** 15 - 1, -(2 ** 15)]),
    "i32lim": _e(np.int32, [0, 2 ** 31 - 1, -(2 ** 31)]),
    "i64lim": _e(np.int64, [0, 2 ** 63 - 1, -(2 ** 63)]),
    "u8lim": _e(np.uint8, [0, 255, 128]),
    "u16lim": _e(np.uint16, [0, 2 ** 16 - 1, 2 ** 15]),
    "u32lim": _e(np.uint32, [0, 2 ** 32 - 1, 2 ** 31]),
    "u64hi": _e(np.uint64, [0, 2 ** 64 - 1, 2 ** 63]),
    "u64mid": _e(np.uint64, [0, 2 ** 63, 2 ** 63 - 1]),
    "bool": _e(np.bool_, [False, True]),
    "str": ("U2", ["", "b", "ab"], ["", "ab", "b"]),
    "f64": _e(np.float64, [0.0, 0.5, -1.5]),
    "f32": _e(np.float32, [0.0, 0.5, -1.5]),
    "small": _e(np.int64, [0, 1, 2]),
}
INT_EMB = [k for k, v in SEQ_EMB.items() if np.dtype(v[0]).kind in "iu"]


def emb_array(sym, image, dtype):
    """embed an array of abstract symbols (any shape, possibly empty) through `image`"""
    sym = np.asarray(sym, dtype=np.int64)
    img = np.array(image, dtype=dtype)
    if sym.size == 0:
        return np.zeros(sym.shape, dtype=img.dtype)
    return img[sym]


def pyval(x):
    if isinstance(x, np.generic):
        x = x.item()
    if isinstance(x, bytes):
        x = x.decode()
    return x


def decoder(image, dtype):
    img = np.array(image, dtype=dtype)
    table = {pyval(v): k for k, v in enumerate(img)}

    def dec(arr):
        a = np.asarray(arr)
        flat = [table.get(pyval(x), BAD) for x in a.reshape(-1)]
        return np.array(flat, dtype=np.int64).reshape(a.shape).tolist() if a.ndim != 1 else flat
    return dec


def ints(x):
    """index arrays -> nested lists of python ints (a non-integer result is a machinery problem
    only if it is not even numeric)"""
    a = np.asarray(x)
    if a.dtype.kind not in "iub":
        raise TypeError("index result of dtype %s" % a.dtype)
    return a.astype(np.int64).tolist()


def groups(r):
    return [ints(x) for x in r]


# ------------------------------------------------------------------ layouts
def lay_1d(a, how, trimesh):
    if how == "strided":
        w = np.repeat(a, 2)
        if len(w):
            w[1::2] = a[::-1]          # the skipped elements differ from the kept ones
        return w[::2]
    if how == "negstride":
        return a[::-1].copy()[::-1]
    if how == "readonly":
        b = a.copy()
        b.flags.writeable = False
        return b
    if how == "tracked":
        return trimesh.caching.tracked_array(a.copy())
    if how == "list":
        return a.tolist()
    if how == "tuple":
        return tuple(a.tolist())
    raise MachineryError("layout " + how)


LAY_1D = ("strided", "negstride", "readonly", "tracked", "list", "tuple")


def lay_2d(a, how, trimesh):
    n, c = a.shape
    if how == "colslice":                          # columns 1..c of a wider array
        w = np.empty((n, c + 2), dtype=a.dtype)
        w[:, 1:c + 1] = a
        w[:, 0] = np.arange(n)
        w[:, -1] = np.arange(n)[::-1]
        return w[:, 1:c + 1]
    if how == "fortran":
        return np.asfortranarray(a.copy())
    if how == "negstride":
        return a[:, ::-1].copy()[:, ::-1]
    if how == "rowstep":
        w = np.repeat(a, 2, axis=0)
        if len(w):
            w[1::2] = a[::-1]
        return w[::2]
    if how == "readonly":
        b = a.copy()
        b.flags.writeable = False
        return b
    if how == "tracked":
        return trimesh.caching.tracked_array(a.copy())
    if how == "list":
        return a.tolist()
    if how == "tuple":
        return tuple(tuple(r) for r in a.tolist())
    raise MachineryError("layout " + how)


LAY_2D = ("colslice", "fortran", "negstride", "rowstep", "readonly", "tracked", "list", "tuple")


def snapshot(x):
    if isinstance(x, np.ndarray):
        return ("a", np.array(x, copy=True, subok=False), x.dtype, x.shape)
    return ("o", json.dumps(x, default=str))


def unchanged(x, snap):
    if snap[0] == "a":
        return x.dtype == snap[2] and x.shape == snap[3] and bool(np.array_equal(np.asarray(x), snap[1]))
    return json.dumps(x, default=str) == snap[1]


class Recorder:
    def __init__(self, fam="ext"):
        self.cases = []
        self.fam = fam

    def call(self, fn, rec, inputs, f):
        """f() -> JSON-able projection; called twice (repeatability), inputs compared with their
        snapshots afterwards (purity)"""
        rec = dict(rec)
        rec["fn"] = fn
        rec["fam"] = self.fam
        snaps = [snapshot(x) for x in inputs]
        try:
            r1 = f()
            r2 = f()
            if isinstance(r1, dict):
                rec.update(r1)
            else:
                rec["res"] = r1
            rec["exc"] = ""
            rec["again"] = bool(json.dumps(r1, sort_keys=True) == json.dumps(r2, sort_keys=True))
        except (MachineryError, KeyboardInterrupt, SystemExit):
            raise
        except BaseException as e:  # noqa
            rec.setdefault("res", [])
            rec["exc"] = type(e).__name__
            rec["again"] = True
        rec["pure"] = all(unchanged(x, s) for x, s in zip(inputs, snaps))
        self.cases.append(rec)


# ------------------------------------------------------------------ projections of single calls
def flat1(x):
    """a result that must be one 1-D array"""
    return isinstance(x, np.ndarray) and x.ndim == 1


WRONG_SHAPE = {"vals": [], "index": [], "inverse": [], "u": [], "inv": [], "cnt": [], "nret": -1}


def p_unique_ordered(g, data, dec, ri, rv):
    r = g.unique_ordered(data, return_index=ri, return_inverse=rv)
    if not ri and not rv:
        return {"vals": dec(r), "index": [], "inverse": [], "nret": 0} if flat1(r) else dict(WRONG_SHAPE)
    if not isinstance(r, (list, tuple)) or not all(flat1(x) for x in r) or len(r) != 1 + ri + rv:
        return dict(WRONG_SHAPE, nret=len(r) if isinstance(r, (list, tuple)) else -1)
    r = list(r)
    out = {"vals": dec(r[0]), "index": [], "inverse": [], "nret": len(r)}
    k = 1
    if ri:
        out["index"] = ints(r[k])
        k += 1
    if rv:
        out["inverse"] = ints(r[k])
    return out


def p_bincount(g, data, dec, ri, rc, minlength):
    r = g.unique_bincount(data, minlength=minlength, return_inverse=ri, return_counts=rc)
    if not ri and not rc:
        return {"u": dec(r), "inv": [], "cnt": [], "nret": 0} if flat1(r) else dict(WRONG_SHAPE)
    if not isinstance(r, (list, tuple)) or not all(flat1(x) for x in r) or len(r) != 1 + ri + rc:
        return dict(WRONG_SHAPE, nret=len(r) if isinstance(r, (list, tuple)) else -1)
    r = list(r)
    out = {"u": dec(r[0]), "inv": [], "cnt": [], "nret": len(r)}
    k = 1
    if ri:
        out["inv"] = ints(r[k])
        k += 1
    if rc:
        out["cnt"] = ints(r[k])
    return out


BLOCK_OPTS = [(w, nz, mn, mx) for w in (False, True) for nz in (False, True)
              for mn, mx in ((1, 0), (2, 0), (1, 2), (2, 3))]
BLOCK_OPTS_ALL = [(w, nz, mn, mx) for w in (False, True) for nz in (False, True) for mn in (1, 2, 3, 4)
                  for mx in (0, 1, 2, 3, 4) if not (mx and mx < mn)]


def seq_functions(R, g, sym, name, tag, trimesh, layout=None, block_opts=BLOCK_OPTS, labels=None):
    """all 1-D functions on the abstract sequence `sym` under embedding `name`"""
    dtype, zimg, oimg = SEQ_EMB[name]
    nsym = len(zimg)
    kind = np.dtype(dtype).kind
    base = {"data": list(sym), "emb": tag}

    def place(a):
        return a if layout is None else lay_1d(a, layout, trimesh)

    zdata = place(emb_array(sym, zimg, dtype))
    zdec = decoder(zimg, dtype)
    odata = place(emb_array(sym, oimg, dtype))
    odec = decoder(oimg, dtype)
    for mn, mx in ((0, 0), (2, 0), (1, 2)):
        R.call("group", dict(base, min_len=mn, max_len=mx), [zdata],
               lambda: groups(g.group(zdata, min_len=mn or None, max_len=mx or None)))
    for ri, rv in itertools.product((False, True), repeat=2):
        R.call("unique_ordered_opt", dict(base, ri=ri, rv=rv), [zdata],
               lambda: p_unique_ordered(g, zdata, zdec, ri, rv))
    if kind not in "US":
        # strings are outside merge_runs / blocks (they subtract / convert to numbers)
        if kind != "f":
            R.call("merge_runs", base, [zdata], lambda: zdec(g.merge_runs(zdata)))
        for w, nz, mn, mx in block_opts:
            R.call("blocks", dict(base, wrap=w, only_nonzero=nz, min_len=mn, max_len=mx), [zdata],
                   lambda: groups(g.blocks(zdata, min_len=mn, max_len=(np.inf if mx == 0 else mx), wrap=w,
                                           only_nonzero=nz)))
    # group_min: labels are the reversed sequence (or the given ones) under the same embedding and as
    # plain int64; a list of labels is outside the documented input (the function indexes it)
    if layout not in ("list", "tuple"):
        lab = list(sym)[::-1] if labels is None else list(labels)
        for lname in (name, "small"):
            ldt, _, limg = SEQ_EMB[lname]
            ldata = place(emb_array([min(s, len(limg) - 1) for s in lab], limg, ldt))
            lsym = [min(s, len(limg) - 1) for s in lab]
            R.call("group_min", {"groups": lsym, "data": list(sym), "emb": tag + "/" + lname}, [ldata, odata],
                   lambda: odec(g.group_min(ldata, odata)))
    # unique_bincount in this process only where one bin per value is harmless (< 2^17); an empty
    # list has no integer dtype (numpy makes it float64) and is refused as documented
    if kind in "iu" and max(abs(int(x)) for x in oimg) < 2 ** 17 and not (len(sym) == 0 and layout in ("list", "tuple")):
        for ri, rc in itertools.product((False, True), repeat=2):
            for ml in (0, 3):
                R.call("unique_bincount_opt", dict(base, ri=ri, rc=rc, minlength=ml), [odata],
                       lambda: p_bincount(g, odata, odec, ri, rc, ml))
    return nsym


def gen_seq_ext(chunk):
    """chunk items: (sym tuple, embedding name, layout or None, 'all' block options?)"""
    trimesh = import_trimesh()
    g = trimesh.grouping
    R = Recorder()
    for sym, name, layout, allopts in chunk:
        tag = name if layout is None else name + "@" + layout
        R.fam = "empty" if len(sym) == 0 else ("layout" if layout else "dtype")
        seq_functions(R, g, list(sym), name, tag, trimesh, layout=layout,
                      block_opts=BLOCK_OPTS_ALL if allopts else BLOCK_OPTS)
    return R.cases


def seq_ext_work(tier):
    big = tier == "thorough"
    work = []
    # empty input: every embedding, every block option
    for name in SEQ_EMB:
        work.append(((), name, None, True))
    for lay in LAY_1D:
        work.append(((), "small", lay, True))
    # dtype limits
    for name, (dtype, zimg, _o) in SEQ_EMB.items():
        if name == "small":
            continue
        nsym = len(zimg)
        for n in range(1, 6 if big else 5):
            for k, sym in enumerate(itertools.product(range(nsym), repeat=n)):
                if not big and n == 4 and nsym == 3 and (k + len(name)) % 3:
                    continue
                work.append((sym, name, None, False))
    # layouts / containers
    for n in range(1, 6 if big else 5):
        for k, sym in enumerate(itertools.product(range(3), repeat=n)):
            for j, lay in enumerate(LAY_1D):
                if big or n <= 2 or (k + j) % 3 == 0:
                    work.append((sym, "small" if (k + j) % 2 else "i64lim", lay, False))
    return work


# ------------------------------------------------------------------ rows
def eqmatrix(h):
    n = len(h)
    return [[bool(h[a] == h[b]) for b in range(n)] for a in range(n)]


ROW_INT = {
    "small": (np.int64, [0, 1, 2]),
    "i8lim": (np.int8, [-128, 0, 127]),
    "i32lim": (np.int32, [-(2 ** 31), 0, 2 ** 31 - 1]),
    "u64hi": (np.uint64, [0, 2 ** 63, 2 ** 64 - 1]),
    "i64lim": (np.int64, [-(2 ** 63), 0, 2 ** 63 - 1]),
    "bool": (np.bool_, [False, True]),
}


def row_image(name, cols):
    """images for the row functions: dtype limits plus the packing limit of this column count"""
    if name in ROW_INT:
        return ROW_INT[name]
    T = (2 ** (64 // cols - 1)) - 1 if cols <= 4 else 2 ** 31 - 1
    return {"below": (np.int64, [T - 3, T - 2, T - 1]), "at": (np.int64, [T - 2, T - 1, T]),
            "negat": (np.int64, [-T, -T + 1, -T + 2]), "spread": (np.int64, [-(T - 1), 0, T - 1]),
            "spread_at": (np.int64, [-T, 0, T])}[name]


def row_functions(R, g, rows, cols, name, tag, trimesh, layout=None, hashes=True):
    dtype, image = row_image(name, cols)
    n = len(rows)
    sym = np.array(rows, dtype=np.int64).reshape(n, cols)
    data = emb_array(sym, image, dtype)
    if layout is not None:
        data = lay_2d(data, layout, trimesh)
    base = {"data": [list(r) for r in rows], "emb": tag, "cols": cols}
    for ko in (False, True):
        R.call("unique_rows", dict(base, keep_order=ko), [data],
               lambda: [ints(x) for x in g.unique_rows(data, keep_order=ko)])
    for rc in (None, 1, 2, 3):
        def run():
            r = g.group_rows(data, require_count=rc)
            if rc == 1:
                return [[int(x)] for x in r]
            return groups(r)
        R.call("group_rows", dict(base, require_count=-1 if rc is None else rc), [data], run)
    if hashes:
        for ai in (True, False):
            R.call("hashable_rows", dict(base, allow_int=ai), [data],
                   lambda: {"eq": eqmatrix(g.hashable_rows(data, allow_int=ai))})


def gen_row_ext(chunk):
    trimesh = import_trimesh()
    g = trimesh.grouping
    R = Recorder()
    for cols, rows, name, layout in chunk:
        tag = name if layout is None else name + "@" + layout
        R.fam = "layout" if layout else "rows_ext"
        row_functions(R, g, rows, cols, name, tag, trimesh, layout=layout)
    return R.cases


def row_ext_work(tier, arrays):
    """arrays: the (cols, rows) list of checks/c06.py row_arrays(tier).  hashable_rows (never called
    directly before) on every array under the packing-limit images; layouts on a rotation"""
    big = tier == "thorough"
    work = []
    names = ["small", "below", "at", "negat", "spread", "spread_at", "i64lim", "u64hi", "i8lim", "i32lim", "bool"]
    for idx, (cols, rows) in enumerate(arrays):
        n = len(rows)
        if n > 3 and not big:
            continue
        for j, name in enumerate(names):
            if name == "bool" and any(s > 1 for r in rows for s in r):
                continue
            if big and (n <= 3 or (idx + j) % 4 == 0) or n <= 2 or (idx + j) % 8 == 0:
                work.append((cols, rows, name, None))
        if n >= 1:
            for j, lay in enumerate(LAY_2D):
                if big and (n <= 3 or (idx + j) % 4 == 0) or (idx + j) % 8 == 0 or n == 1 and cols <= 2:
                    work.append((cols, rows, ("below", "small", "at")[(idx + j) % 3], lay))
    return work


# ------------------------------------------------------------------ large seeded arrays
def gen_large(chunk):
    trimesh = import_trimesh()
    g = trimesh.grouping
    R = Recorder("large")
    for kind, k in chunk:
        rs = np.random.RandomState(seed() * 100003 + k * 17 + (0 if kind == "rows" else 7))
        if kind == "rows":
            cols = int(rs.randint(1, 8))
            n = int(rs.randint(6, 41))
            nsym = int(rs.randint(2, 4))
            # few distinct rows so that groups of 2 and 3 exist: rows drawn from a small pool
            pool = rs.randint(0, nsym, size=(int(rs.randint(2, 9)), cols))
            sym = pool[rs.randint(0, len(pool), size=n)]
            name = ("small", "below", "at", "negat", "spread", "spread_at", "i64lim", "u64hi", "i8lim")[k % 9]
            row_functions(R, g, sym.tolist(), cols, name, "large/" + name, trimesh, hashes=(k % 3 == 0))
        else:
            n = int(rs.randint(6, 25))
            nsym = 3
            # runs: repeat symbols with random run lengths so that blocks of every length occur
            sym = []
            while len(sym) < n:
                sym += [int(rs.randint(0, nsym))] * int(rs.randint(1, 5))
            sym = sym[:n]
            name = ("small", "i64lim", "u64hi", "i8lim", "bool", "f64", "u32lim")[k % 7]
            if name == "bool":
                sym = [min(s, 1) for s in sym]
            opts = [BLOCK_OPTS_ALL[(k * 5 + j * 7) % len(BLOCK_OPTS_ALL)] for j in range(6)]
            labels = [int(x) for x in rs.randint(0, 3, size=n)]
            seq_functions(R, g, sym, name, "large/" + name, trimesh, block_opts=opts, labels=labels)
    return R.cases


def large_work(tier):
    nr, ns = (1500, 1500) if tier == "thorough" else (260, 260)
    return [("rows", k) for k in range(nr)] + [("seq", k) for k in range(ns)]


# ------------------------------------------------------------------ options / other entry points
def gen_misc(chunk):
    trimesh = import_trimesh()
    g = trimesh.grouping
    R = Recorder("option")
    rs = np.random.RandomState(seed() + 23)
    for item in chunk:
        what = item[0]
        if what == "uvir":
            _, rows, name, uniq = item
            dtype, zimg, _o = SEQ_EMB[name]
            sym = np.array(rows, dtype=np.int64).reshape(len(rows), -1 if len(rows) else 3)
            data = emb_array(sym, zimg, dtype)
            ulist = list(range(len(zimg))) if uniq is None else list(uniq)
            uarg = None if uniq is None else emb_array(ulist, zimg, dtype)
            R.call("unique_value_in_row_u", {"data": [list(r) for r in rows], "uniq": ulist,
                                             "emb": name + ("" if uniq is None else "/unique")},
                   [data], lambda: np.asarray(g.unique_value_in_row(data, unique=uarg)).tolist())
        elif what == "ufloat":
            _, sym, digits = item
            a = np.array(sym, dtype=np.float64) - 1.0          # symbols -1, 0, 1: negative values too
            d = 8 if digits is None else digits
            data = (a + rs.uniform(-0.3, 0.3, size=a.shape)) * 10.0 ** (-d)
            R.call("unique_float", {"data": [s - 1 for s in sym], "emb": "float%s" % d}, [data],
                   lambda: [ints(x) for x in g.unique_float(data, return_index=True, return_inverse=True,
                                                          digits=digits)[1:]])
            for w, nz, mn, mx in BLOCK_OPTS[::3]:
                # rounding cell of symbol 1 is the zero cell here
                R.call("blocks", {"data": [s - 1 for s in sym], "wrap": w, "only_nonzero": nz, "min_len": mn,
                                  "max_len": mx, "emb": "float%s" % d}, [data],
                       lambda: groups(g.blocks(data, min_len=mn, max_len=(np.inf if mx == 0 else mx), wrap=w,
                                               only_nonzero=nz, digits=digits)))
        elif what == "frows":
            # float rows with negative cells, float32 storage, negative digits
            _, cols, rows, variant = item
            sym = np.array(rows, dtype=np.float64).reshape(len(rows), cols) - 1.0
            jit = rs.uniform(-0.3, 0.3, size=sym.shape)
            if variant == "neg3":
                data, digits = (sym + jit) * 1e-3, 3
            elif variant == "f32_3":
                data, digits = ((sym + jit) * 1e-3).astype(np.float32), 3
            elif variant == "neg8":
                data, digits = (sym + jit) * 1e-8, None
            else:  # tens: digits = -1
                data, digits = (sym + jit) * 10.0, -1
            base = {"data": [[int(x) - 1 for x in r] for r in rows], "emb": "float_" + variant, "cols": cols}
            for ko in (False, True):
                R.call("unique_rows", dict(base, keep_order=ko), [data],
                       lambda: [ints(x) for x in g.unique_rows(data, digits=digits, keep_order=ko)])
            for rc in (None, 2):
                R.call("group_rows", dict(base, require_count=-1 if rc is None else rc), [data],
                       lambda: groups(g.group_rows(data, require_count=rc, digits=digits)))
        elif what == "bool_rows":
            _, A, B, name, la, lb = item
            cols = len(A[0]) if len(A) else len(B[0])
            dtype, image = row_image(name, cols)
            a = emb_array(np.array(A, dtype=np.int64).reshape(len(A), cols), image, dtype)
            b = emb_array(np.array(B, dtype=np.int64).reshape(len(B), cols), image, dtype)
            if la:
                a = lay_2d(a, la, trimesh)
            if lb:
                b = lay_2d(b, lb, trimesh)
            dec = decoder(image, dtype)
            for opn, op in (("intersect", np.intersect1d), ("setdiff", np.setdiff1d)):
                R.call("boolean_rows", {"a": [list(r) for r in A], "b": [list(r) for r in B], "op": opn,
                                        "emb": name + "@" + str(la) + "," + str(lb), "cols": cols}, [a, b],
                       lambda: [list(r) for r in dec(g.boolean_rows(a, b, operation=op))])
        else:
            raise MachineryError("misc item " + str(what))
    return R.cases


def misc_work(tier):
    big = tier == "thorough"
    work = []
    # unique_value_in_row: 2..4 columns, dtypes, unique= superset / subset / empty data
    for name in ("small", "i8lim", "i64lim", "u64hi", "u64mid", "str", "bool", "f64"):
        nsym = len(SEQ_EMB[name][1])
        work.append(("uvir", [], name, None))
        for cols in (2, 3, 4):
            rowsc = list(itertools.product(range(nsym), repeat=cols))
            for k, r in enumerate(rowsc):
                for j, uniq in enumerate((None, tuple(range(nsym)), (0,), (1, nsym - 1))):
                    if big or name == "small" or (k + j) % 4 == 0:
                        r2 = rowsc[(k * 7 + 3) % len(rowsc)]
                        work.append(("uvir", [list(r), list(r2)], name, uniq))
    # unique_float and blocks(digits=) on floats inside rounding cells (symbols -1, 0, 1)
    for n in range(0, 6 if big else 5):
        for k, sym in enumerate(itertools.product(range(3), repeat=n)):
            for j, digits in enumerate((None, 3, 0)):
                if big or n <= 3 or (k + j) % 3 == 0:
                    work.append(("ufloat", list(sym), digits))
    # float rows: negative cells, float32, digits = -1
    rows2 = list(itertools.product(range(3), repeat=2))
    for n in range(0, 4 if big else 3):
        for k, seq in enumerate(itertools.product(rows2, repeat=n)):
            for j, variant in enumerate(("neg3", "f32_3", "neg8", "tens")):
                if big or n <= 1 or (k + j) % 2 == 0:
                    work.append(("frows", 2, [list(r) for r in seq], variant))
    pool3 = [(0, 0, 1), (0, 1, 0), (1, 0, 0), (2, 2, 2), (1, 0, 2)]
    for n in (1, 2, 3):
        for k, seq in enumerate(itertools.product(pool3, repeat=n)):
            if big or k % 3 == 0:
                work.append(("frows", 3, [list(r) for r in seq], ("neg3", "f32_3", "neg8", "tens")[k % 4]))
    # boolean_rows: empty operands, 1 / 3 / 5 columns, dtype limits, layouts of either operand
    pools = {1: [(0,), (1,), (2,)], 2: [(0, 0), (0, 1), (1, 0), (2, 2), (1, 1)],
             3: [(0, 0, 1), (0, 1, 0), (1, 0, 0), (2, 2, 2)], 5: [(0, 0, 0, 0, 1), (1, 0, 0, 0, 0), (2, 2, 2, 2, 2)]}
    names = ("small", "below", "spread_at", "i64lim", "u64hi", "i8lim", "i32lim")
    k = 0
    for cols, pool in pools.items():
        for na in range(0, 4):
            for nb in range(0, 3):
                if na == 0 and nb == 0:
                    continue
                for A in itertools.product(pool, repeat=na):
                    for B in itertools.product(pool, repeat=nb):
                        k += 1
                        if not big and na + nb >= 4 and k % 5:
                            continue
                        name = names[k % len(names)]
                        # python ints above int64 in a list are not an integer array (numpy: float64)
                        la = (None,) + (LAY_2D[:-2] if name == "u64hi" else LAY_2D)
                        work.append(("bool_rows", [list(r) for r in A], [list(r) for r in B], name,
                                     la[k % len(la)] if na else None, la[(k // 3) % len(la)] if nb else None))
    return work


# ------------------------------------------------------------------ all in-process families
GENS = {"seq": gen_seq_ext, "row": gen_row_ext, "large": gen_large, "misc": gen_misc}


def ext_work(tier, arrays):
    """(generator key, item) pairs, interleaved so that the chunks of pmap are of similar weight"""
    parts = [[("seq", w) for w in seq_ext_work(tier)], [("row", w) for w in row_ext_work(tier, arrays)],
             [("large", w) for w in large_work(tier)], [("misc", w) for w in misc_work(tier)]]
    out = []
    longest = max(len(p) for p in parts)
    for p in parts:
        # spread every family evenly over the whole list
        step = longest / max(1, len(p))
        out += [(int(k * step), k, it) for k, it in enumerate(p)]
    out.sort(key=lambda t: (t[0], t[1]))
    return [t[2] for t in out]


def gen_ext(chunk):
    cases = []
    by = {}
    for key, item in chunk:
        by.setdefault(key, []).append(item)
    for key, items in by.items():
        cases += GENS[key](items)
    return cases


# ------------------------------------------------------------------ unique_bincount, isolated
ISO_GROUPS = {
    # group -> embeddings (dtype, increasing image); each group runs in its own child process
    "big": {"big40": (np.int64, [1, 2 ** 40, 2 ** 40 + 1]), "big62": (np.int64, [0, 2 ** 62, 2 ** 62 + 1]),
            "u64hi": (np.uint64, [0, 2 ** 63, 2 ** 64 - 1]), "u64mid": (np.uint64, [0, 2 ** 63 - 1, 2 ** 63]),
            "neg": (np.int64, [-5, 0, 7]), "neghuge": (np.int64, [-(2 ** 62), -1, 3]),
            "p20": (np.int64, [2 ** 15 - 1, 2 ** 15, 2 ** 20])},
    "i64max": {"i64max": (np.int64, [0, 2 ** 63 - 2, 2 ** 63 - 1])},
    "i64lim": {"i64lim": (np.int64, [-(2 ** 63), 0, 2 ** 63 - 1])},
}


def iso_items(tier, group):
    items = []
    for name in ISO_GROUPS[group]:
        for n in range(0, 5 if tier == "thorough" else 4):
            for sym in itertools.product(range(3), repeat=n):
                for ri, rc in itertools.product((False, True), repeat=2):
                    for ml in (0, 2):
                        if ml and not (ri and rc):
                            continue
                        items.append((name, list(sym), ri, rc, ml))
    return items


def iso_child(tier, group):
    """runs in the child: one JSON record per line on stdout"""
    import resource
    trimesh = import_trimesh()
    g = trimesh.grouping
    # one bin per value must fail cleanly instead of taking the machine down
    lim = 6 * 2 ** 30
    resource.setrlimit(resource.RLIMIT_AS, (lim, lim))
    out = sys.stdout
    for k, (name, sym, ri, rc, ml) in enumerate(iso_items(tier, group)):
        dtype, image = ISO_GROUPS[group][name]
        data = emb_array(sym, image, dtype)
        dec = decoder(image, dtype)
        R = Recorder("bincount")
        R.call("unique_bincount_opt", {"data": sym, "emb": "iso/" + name, "ri": ri, "rc": rc, "minlength": ml, "k": k},
               [data], lambda: p_bincount(g, data, dec, ri, rc, ml))
        out.write(json.dumps(R.cases[0]) + "\n")
        out.flush()
    out.write(json.dumps({"done": True}) + "\n")
    out.flush()
    os._exit(0)      # skip interpreter teardown: the heap may be damaged (numpy.bincount at int64 max)


def iso_start(tier):
    procs = {}
    for group in ISO_GROUPS:
        procs[group] = subprocess.Popen([sys.executable, "-W", "ignore", "-m", "checks.c06_ext", tier, group],
                                        stdout=subprocess.PIPE, stderr=subprocess.PIPE, text=True)
    return procs


def iso_collect(tier, procs, timeout=600):
    cases, info = [], {}
    for group, p in procs.items():
        try:
            so, se = p.communicate(timeout=timeout)
        except subprocess.TimeoutExpired:
            p.kill()
            so, se = p.communicate()
        got = {}
        done = False
        for line in so.splitlines():
            try:
                r = json.loads(line)
            except ValueError:
                continue
            if r.get("done"):
                done = True
            elif "k" in r:
                got[r["k"]] = r
        if not got:
            # the first calls are on empty input: a child that reports nothing never got going
            raise MachineryError("isolated unique_bincount child %s failed (rc=%s): %s" % (group, p.returncode, se[-800:]))
        items = iso_items(tier, group)
        died = 0
        for k, (name, sym, ri, rc, ml) in enumerate(items):
            if k in got:
                r = got[k]
                del r["k"]
            else:
                # the child died (crash after heap corruption) before it reported this call
                died += 1
                r = {"fn": "unique_bincount_opt", "data": sym, "emb": "iso/" + name, "ri": ri, "rc": rc,
                     "minlength": ml, "res": [], "exc": "ProcessDied", "pure": True, "again": True,
                     "fam": "bincount"}
            cases.append(r)
        info[group] = {"calls": len(items), "reported": len(got), "finished": done, "died_before": died,
                       "returncode": p.returncode}
    return cases, info


if __name__ == "__main__":
    iso_child(sys.argv[1], sys.argv[2])
