"""C09 - scene-graph transforms are the product of current edges along the path.

spec -> code: TLC explores spec/SceneGraph.tla (implementation-shaped model with the
path cache, hash memo and hash-keyed transform cache), checks GetIsPathProduct and the
representation invariants on it, and emits behaviours (state cover at depth D, every
history at depth d, simulated long histories).  Each behaviour is replayed into the real
SceneGraph; every `get` and a closing all-pairs sweep are compared with RefGet as computed
by TLC.  The edge-list rebuild, copy() and to_flattened() are compared on the final state.
"""
import json
import os
import sys
import time

import numpy as np

from harness import tlc
from harness.common import (MachineryError, Verdict, import_trimesh, pmap, seed,
                            tier_from_args)

PROP = "C09"

CFG = """CONSTANTS
  Nodes <- {nodes}
  Base0 = "w"
  Gens <- {gens}
  GeomNames <- {geoms}
  MaxDepth = {depth}
  InitShape = "{shape}"
  Ghost = {ghost}
  ForgetDirty = {forget}
  KeepPaths = {keep}
SPECIFICATION Spec
{view}
{invs}
CHECK_DEADLOCK FALSE
"""

MC_INVS = "\n".join("INVARIANT " + i for i in
                    ["GetIsPathProduct", "EdgeIffParent", "ForestInv", "HashMemoFresh", "RefLaws"])


def cfg(nodes="Nodes4", gens="Gens2", geoms="Geoms0", depth=4, ghost=False, forget=False,
        keep=False, view=True, invs=MC_INVS, shape="empty"):
    b = lambda x: "TRUE" if x else "FALSE"
    return CFG.format(nodes=nodes, gens=gens, geoms=geoms, depth=depth, shape=shape, ghost=b(ghost),
                      forget=b(forget), keep=b(keep), view="VIEW View" if view else "", invs=invs)


# ------------------------------------------------------------------ adapter
def mat(m):
    k, x, y = m
    c, s = [(1, 0), (0, 1), (-1, 0), (0, -1)][k % 4]
    M = np.eye(4)
    M[0, 0], M[0, 1], M[1, 0], M[1, 1] = c, -s, s, c
    M[0, 3], M[1, 3] = x, y
    return M


def present(m, form):
    """The same matrix presented through the different kwargs SceneGraph.update accepts."""
    k, x, y = m
    ang = k * np.pi / 2.0
    if form == 0:
        return {"matrix": mat(m)}
    if form == 1:
        return {"quaternion": [np.cos(ang / 2), 0.0, 0.0, np.sin(ang / 2)], "translation": [x, y, 0.0]}
    if form == 2:
        if k % 4 == 0:
            return {"translation": [x, y, 0.0]}
        return {"axis": [0.0, 0.0, 1.0], "angle": ang, "translation": [x, y, 0.0]}
    return {"matrix": mat(m).tolist()}


def close(A, B):
    return A is not None and np.shape(A) == (4, 4) and np.allclose(A, B, rtol=0, atol=1e-9)


def do_get(g, a, b):
    """-> (matrix or None, geometry, exception name or None)"""
    try:
        if a == "-":
            M, geo = g.get(frame_to=b)
        else:
            M, geo = g.get(frame_to=b, frame_from=a)
        return np.array(M, dtype=float), geo, None
    except BaseException as e:  # noqa
        return None, None, type(e).__name__


def replay_one(SceneGraph, beh, variant):
    """Replay one TLC behaviour. Returns list of failures (dicts)."""
    fails = []
    g = SceneGraph(base_frame=beh.get("base0", "w"))
    for e in beh.get("init", []):
        g.update(frame_to=e["v"], frame_from=e["u"], matrix=mat(e["m"]))
    for i, st in enumerate(beh["h"]):
        op = st["op"]
        if op == "update":
            kw = present(st["m"], (variant + i) % 4)
            if st["g"] != "-":
                kw["geometry"] = st["g"]
            g.update(frame_to=st["v"], frame_from=st["u"], **kw)
            # the arrays handed to update() stay the caller's: scribbling on them afterwards must not
            # change the graph ("product of the CURRENT edge matrices" means the graph's own values)
            for val in kw.values():
                if isinstance(val, np.ndarray):
                    val[...] = 77.0
        elif op == "remove":
            g.transforms.remove_node(st["u"])
        elif op == "remove_geometry":
            g.remove_geometries(st["g"])
        elif op == "set_base":
            g.base_frame = st["b"]
        elif op == "get":
            M, geo, exc = do_get(g, st["a"], st["b"])
            if st["conn"]:
                if exc is not None or not close(M, mat(st["exp"])):
                    fails.append({"clause": "GetIsPathProduct", "step": i, "got": None if M is None else M.tolist(),
                                  "exc": exc, "exp": mat(st["exp"]).tolist()})
                    return fails
                if (geo or "-") != st["expg"]:
                    fails.append({"clause": "GetGeometry", "step": i, "got": geo, "exp": st["expg"]})
                    return fails
        else:
            raise MachineryError("unknown op " + op)
    # closing sweep over every ordered pair of present frames
    for q in beh["sweep"]:
        M, geo, exc = do_get(g, q["a"], q["b"])
        if q["conn"]:
            if exc is not None or not close(M, mat(q["exp"])):
                fails.append({"clause": "GetIsPathProduct(sweep)", "pair": [q["a"], q["b"]],
                              "got": None if M is None else M.tolist(), "exc": exc,
                              "exp": mat(q["exp"]).tolist()})
                return fails
            if (geo or "-") != q["expg"]:
                fails.append({"clause": "GetGeometry(sweep)", "pair": [q["a"], q["b"]], "got": geo, "exp": q["expg"]})
                return fails
    # T(a,c) = T(a,b).T(b,c), T(a,b) = T(b,a)^-1 and T(a,a) = I hold for the spec values (RefLaws);
    # equality with the spec values therefore implies them for the implementation.
    # edge list export rebuilds an equivalent graph; so does copy()
    has_parent = {e["v"] for e in beh["edges"]}
    for name, other in (("EdgelistRebuildsEquivalent", None), ("CopyEquivalent", "copy")):
        try:
            if other is None:
                h = SceneGraph(base_frame=g.base_frame)
                h.from_edgelist(g.to_edgelist())
            else:
                h = g.copy()
        except BaseException as e:  # noqa
            fails.append({"clause": name, "exc": type(e).__name__ + ": " + str(e)[:100]})
            return fails
        for q in beh["sweep"]:
            # frames without any edge do not appear in an edge list: only pairs joined by a path
            if not q["conn"] or q["a"] == q["b"]:
                continue
            M, geo, exc = do_get(h, q["a"], q["b"])
            # a root frame has no incoming edge to carry its geometry name in an edge list
            expg = q["expg"] if (other or q["b"] in has_parent) else (geo or "-")
            if exc is not None or not close(M, mat(q["exp"])) or (geo or "-") != expg:
                fails.append({"clause": name, "pair": [q["a"], q["b"]], "exc": exc,
                              "got": None if M is None else M.tolist(), "geo": geo,
                              "exp": mat(q["exp"]).tolist(), "expg": q["expg"]})
                return fails
    # to_flattened = world transform of every node reachable from the base frame
    base = beh["base"]
    want = {q["b"]: q for q in beh["sweep"] if q["a"] == base and q["b"] != base}
    if want and all(q["conn"] for q in want.values()):
        try:
            flat = g.to_flattened()
        except BaseException as e:  # noqa
            fails.append({"clause": "ToFlattened", "exc": type(e).__name__})
            return fails
        for n, q in want.items():
            if n not in flat or not close(np.array(flat[n]["transform"]), mat(q["exp"])):
                fails.append({"clause": "ToFlattened", "node": n})
                return fails
    return fails


def _pack(r):
    """Keep emitted behaviours as JSON text and drop TLC's raw output: decoded dicts of 10^5 behaviours
    took 8 GB in the parent, which the fork pool then multiplied (the thorough tier was OOM-killed)."""
    out = [json.dumps(x, separators=(",", ":")) for x in r.printed]
    r.stdout = ""
    return out


def _replay_chunk(chunk):
    trimesh = import_trimesh()
    from trimesh.scene.transforms import SceneGraph
    out = []
    n_get = 0
    for idx, beh in chunk:
        if isinstance(beh, str):
            beh = json.loads(beh)   # behaviours are kept as compact JSON text (memory: 150 k of them in thorough)
        f = replay_one(SceneGraph, beh, idx + seed())
        n_get += sum(1 for s in beh["h"] if s["op"] == "get") + len(beh["sweep"])
        if f:
            out.append({"behaviour": beh["h"], "fail": f[0]})
    return out, n_get, len(chunk)


def extra_unknown_frames(SceneGraph):
    """Reads of unknown / disconnected frames must not disturb later answers."""
    fails = []
    g = SceneGraph()
    g.update("a", "world", matrix=mat((1, 1, 0)))
    g.update("b", "a", matrix=mat((0, 0, 1)))
    want = mat((1, 1, 0)) @ mat((0, 0, 1))
    for bad in ("zz", "yy"):
        try:
            g.get(bad)
        except BaseException:  # noqa
            pass
        M, _, exc = do_get(g, "world", "b")
        if exc or not close(M, want):
            fails.append({"clause": "GetAfterFailedGet", "bad": bad, "exc": exc})
    return fails


def trace_repo_tests(tier, V, cov):
    """code -> spec: the repository's own scene-graph tests run under the recorder; TLC names the
    term every recorded get must equal, numpy evaluates it."""
    import subprocess
    from harness.common import VERIF, repo_dir
    d = tlc.prepare("c09/trace")
    trace = os.path.join(d, "trace.ndjson")
    env = dict(os.environ)
    env.update({"TRIMESH_VERIF": "1", "TRIMESH_VERIF_TRACE": trace,
                "PYTHONPATH": os.path.join(VERIF, "harness") + ":" + repo_dir() + ":" + env.get("PYTHONPATH", "")})
    if tier == "thorough":
        # the repository's own scene-graph tests under the recorder
        tests = ["tests/test_scenegraph.py", "tests/test_scene.py"]
        cmd = [sys.executable, "-W", "ignore", "-m", "pytest", "-p", "no:cacheprovider", "-p", "verif_recorder", "-q", "-x",
               "--rootdir", repo_dir()] + [os.path.join(repo_dir(), t) for t in tests]
        p = subprocess.run(cmd, cwd=d, env=env, capture_output=True, text=True, timeout=1500)
        cov["repo_tests_under_recorder"] = {"files": tests, "pytest_rc": p.returncode, "tail": p.stdout.strip().splitlines()[-1:]}
    else:
        # a random driver with arbitrary float matrices (rotations about random axes, scales, translations)
        cmd = [sys.executable, "-W", "ignore", os.path.join(VERIF, "harness", "sg_driver.py"), str(seed()), "150", "40"]
        p = subprocess.run(cmd, cwd=d, env=env, capture_output=True, text=True, timeout=1500)
        cov["driver_under_recorder"] = {"graphs": 150, "steps": 40, "rc": p.returncode}
        if p.returncode != 0:
            raise MachineryError("driver failed: " + p.stderr[-600:])
    if not os.path.exists(trace):
        raise MachineryError("recorder produced no trace: " + p.stdout[-500:] + p.stderr[-500:])
    events, mats = [], None
    for line in open(trace):
        ev = json.loads(line)
        if ev["ev"] == "tokens":
            mats = ev["mats"]
        else:
            events.append(ev)
    if mats is None or len(events) < 20:
        raise MachineryError("trace too short (%d events)" % len(events))
    cases = []
    for k, ev in enumerate(events):
        cases.append({"id": k, "a": ev["a"], "b": ev["b"], "parents": ev["parents"]})
    with open(os.path.join(d, "cases.ndjson"), "w") as f:
        for c in cases:
            f.write(json.dumps(c) + "\n")
    r = tlc.run(d, "TraceSceneGraph", "INIT Init\nNEXT Next\nINVARIANT Tell\nINVARIANT Acyclic\nCHECK_DEADLOCK FALSE\n", workers=1, timeout=900)
    if r.violated == "Acyclic":
        V.violation("ForestInv(recorded state)", {"what": "the parent map logged by the recorder contains a cycle although the driver only asked for acyclic updates"})
        return r.distinct, len(cases)
    tlc.must(r, "trace")
    if len(r.printed) < len(cases):
        raise MachineryError("TLC judged %d of %d recorded gets" % (len(r.printed), len(cases)))
    token = {"I": np.eye(4)}
    for k, M in enumerate(mats):
        token["m%d" % k] = np.array(M)
    nconn = 0
    for out in r.printed:
        ev = events[out["id"]]
        if not out["conn"]:
            continue
        nconn += 1
        want = np.eye(4)
        for item in out["term"]:
            M = token[ev["edges"].get(item["n"], "I")]
            want = want @ (np.linalg.inv(M) if item["inv"] else M)
        got = ev.get("res")
        scale = max(1.0, float(np.abs(want).max()))
        if ev["exc"] or got is None or not np.allclose(np.array(got), want, rtol=0, atol=1e-6 * scale):
            V.violation("GetIsPathProduct(recorded repo test)", {"a": ev["a"], "b": ev["b"], "parents": ev["parents"], "term": out["term"],
                                                                  "exc": ev["exc"], "got": got, "want": want.tolist()})
    cov["recorded_gets_judged"] = len(cases)
    cov["recorded_gets_connected"] = nconn
    return r.distinct, len(cases)


def main(argv):
    tier = tier_from_args(argv)
    V = Verdict(PROP, tier)
    trimesh = import_trimesh()
    from trimesh.scene.transforms import SceneGraph
    cov = {"tlc_runs": []}
    states = trans = 0

    def note(name, r):
        nonlocal states, trans
        states += r.distinct
        trans += r.generated
        cov["tlc_runs"].append({"run": name, "distinct": r.distinct, "generated": r.generated,
                                "depth": r.depth, "wall_s": round(r.wall, 1)})

    # 1. model checking of the implementation-shaped design (intended = as fixed)
    d = tlc.prepare("c09/mc")
    depth_mc = 4 if tier == "quick" else 5
    r = tlc.must(tlc.run(d, "SceneGraph", cfg(depth=depth_mc), timeout=1500), "mc")
    note(f"mc nodes=4 gens=2 depth={depth_mc}", r)
    r = tlc.must(tlc.run(d, "SceneGraph", cfg(depth=3 if tier == "quick" else 4, geoms="Geoms1"), timeout=1500), "mc-geom")
    note("mc with geometry", r)
    # spec self-tests: each seeded deviation must make TLC report GetIsPathProduct
    selftests = {}
    for flag in ("ghost", "forget", "keep"):
        rr = tlc.run(d, "SceneGraph", cfg(depth=8, invs="INVARIANT GetIsPathProduct", **{flag: True}), timeout=1500)
        selftests[flag] = rr.violated
        if rr.violated != "GetIsPathProduct":
            raise MachineryError(f"spec self-test {flag}: expected GetIsPathProduct violation, got {rr.violated} {rr.error}")
    cov["spec_selftests"] = selftests

    # 2. behaviours emitted by TLC
    behs = []
    d = tlc.prepare("c09/emit")
    # (a) state cover: one shortest history per distinct model state (caches included)
    dc = 3 if tier == "quick" else 4
    r = tlc.must(tlc.run(d, "SceneGraph", cfg(depth=dc, geoms="Geoms1", invs="INVARIANT EmitAll"), workers=1, timeout=1500), "emit-cover")
    note(f"emit state cover depth={dc}", r)
    behs += _pack(r)
    n_cover = len(r.printed)
    # (b) every history of length dl (no VIEW: hist is part of the state)
    dl = 3
    r = tlc.must(tlc.run(d, "SceneGraph", cfg(depth=dl, view=False, invs="INVARIANT EmitLeaf"), workers=1, timeout=1500), "emit-leaf")
    note(f"emit all histories depth={dl}", r)
    behs += _pack(r)
    n_leaf = len(r.printed)
    # (c) simulated long histories on 5 nodes, 3 generators
    # TLC's simulator evaluates invariants on every successor of the last state, so each simulated
    # trace yields ~100 emitted behaviours sharing a prefix
    nsim = 40 if tier == "quick" else 400
    dsim = 9 if tier == "quick" else 12
    r = tlc.run(d, "SceneGraph", cfg(nodes="Nodes5", gens="Gens3", geoms="Geoms1", depth=dsim, view=False,
                                     invs="INVARIANT EmitLeaf\nINVARIANT GetIsPathProduct"),
                workers=1, simulate=f"num={nsim}", depth=dsim + 1, seed=seed() + 7, timeout=1500)
    if r.violated or (r.error and r.error != "timeout"):
        raise MachineryError("simulation failed: %s %s" % (r.violated, r.error))
    note(f"simulate num={nsim} depth={dsim}", r)
    behs += _pack(r)
    n_sim = len(r.printed)
    # (d) from a pre-built chain world -> a -> b -> c: every history of length 3 and a deeper state cover, so
    # that "multi-hop query, re-parent, query again" needs no set-up steps
    r = tlc.must(tlc.run(d, "SceneGraph", cfg(depth=3, view=False, shape="chain", invs="INVARIANT EmitLeaf\nINVARIANT GetIsPathProduct"), workers=1, timeout=1500), "emit-chain")
    note("emit all histories depth=3 from a chain", r)
    behs += _pack(r)
    n_chain = len(r.printed)
    if tier == "thorough":
        r = tlc.must(tlc.run(d, "SceneGraph", cfg(depth=4, shape="chain", invs="INVARIANT EmitAll\nINVARIANT GetIsPathProduct"), workers=1, timeout=1500), "emit-chain-cover")
        note("emit state cover from a chain", r)
        behs += _pack(r)
        n_chain += len(r.printed)
    if n_cover < 100 or n_leaf < 100 or n_sim < nsim or n_chain < 1000:
        raise MachineryError(f"emission too small: cover={n_cover} leaf={n_leaf} sim={n_sim}")

    # 3. replay
    t0 = time.time()
    results = pmap(_replay_chunk, list(enumerate(behs)))
    n_get = sum(r[1] for r in results)
    n_beh = sum(r[2] for r in results)
    for out, _, _ in results:
        for f in out:
            V.violation(f["fail"]["clause"], f)
    for f in extra_unknown_frames(SceneGraph):
        V.violation(f["clause"], f)
    st_tr, n_rec = trace_repo_tests(tier, V, cov)
    states += st_tr
    trans += st_tr
    cov.update({
        "states": states, "transitions": trans,
        "traces_validated_against_impl": n_beh + n_rec,
        "gets_compared": n_get,
        "behaviours": {"state_cover": n_cover, "all_histories_depth3": n_leaf, "simulated": n_sim, "from_chain": n_chain},
        "exhaustive": True,
        "replay_wall_s": round(time.time() - t0, 1),
        "samples": [json.loads(behs[1])["h"], json.loads(behs[n_cover + n_leaf // 2])["h"], json.loads(behs[-1])["h"]],
    })
    return V.finish("model_checking", cov, assumptions=[
        "matrices range over SE(2,Z) embedded in 4x4 (rotations by multiples of 90 degrees about z, integer translations)",
        "forests of at most 5 named frames; histories up to the stated depths",
        "float comparison atol 1e-9 (quaternion / axis-angle presentations are not bit exact)",
    ])


if __name__ == "__main__":
    try:
        sys.exit(main(sys.argv[1:]))
    except MachineryError as e:
        print("MACHINERY-ERROR:", e)
        sys.exit(2)
