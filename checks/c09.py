"""C09 - scene-graph transforms are the product of current edges along the path.

spec -> code: TLC explores spec/SceneGraph.tla (implementation-shaped model with the
path cache, hash memo and hash-keyed transform cache), checks GetIsPathProduct and the
representation invariants on it, and emits behaviours (state cover at depth D, every
history at depth d, simulated long histories).  Each behaviour is replayed into the real
SceneGraph; every `get` and a closing all-pairs sweep are compared with RefGet as computed
by TLC.  The edge-list rebuild, copy() and to_flattened() are compared on the final state.

The group elements TLC works with (SE(2,Z)) are embedded into 4x4 floats through several faithful
representations (rotation about z / x / y, a mirrored one, conjugates by a non-uniform scale and by a
shear), the frame names through several kinds of hashables, and every abstract update / get goes
through one of the public entry points (update with and without frame_from, graph[v] = M, graph[v],
from_edgelist / load of one edge) and containers (float64 / float32 / Fortran / strided / integer
arrays, lists, tuples; quaternion and axis-angle in equivalent spellings): same behaviours, same
expected group elements, different concrete code paths.

code -> spec: SceneGraph.get events recorded from (a) the random driver under the recorder,
(b) checks/c09_driver.py (entry points, containers, frame-name kinds, forests of 20-39 frames, chains
of 64-1100 frames, Scene-level mutators) are judged by TLC (spec/TraceSceneGraph.tla names the term
every answer must equal).
"""
import functools
import json
import os
import random
import resource
import sys
import time

import numpy as np

from harness import tlc
from harness.common import (MachineryError, Verdict, import_trimesh, pmap, seed,
                            tier_from_args)

PROP = "C09"
TLC_TIMEOUT = 3600      # per TLC run; generous because the box is shared (a timeout is a machinery error, never a verdict)

CFG = """CONSTANTS
  Nodes <- {nodes}
  Base0 = "w"
  Gens <- {gens}
  GeomNames <- {geoms}
  MaxDepth = {depth}
  InitShape = "{shape}"
  Ghost = {ghost}
  ForgetDirty = {forget}
  KeepPaths = {keep}
SPECIFICATION Spec
{view}
{invs}
CHECK_DEADLOCK FALSE
"""

MC_INVS = "\n".join("INVARIANT " + i for i in
                    ["GetIsPathProduct", "EdgeIffParent", "ForestInv", "HashMemoFresh", "RefLaws"])


def cfg(nodes="Nodes4", gens="Gens2", geoms="Geoms0", depth=4, ghost=False, forget=False,
        keep=False, view=True, invs=MC_INVS, shape="empty"):
    b = lambda x: "TRUE" if x else "FALSE"
    return CFG.format(nodes=nodes, gens=gens, geoms=geoms, depth=depth, shape=shape, ghost=b(ghost),
                      forget=b(forget), keep=b(keep), view="VIEW View" if view else "", invs=invs)


# ------------------------------------------------------------------ adapter
def mat(m):
    k, x, y = m
    c, s = [(1, 0), (0, 1), (-1, 0), (0, -1)][k % 4]
    M = np.eye(4)
    M[0, 0], M[0, 1], M[1, 0], M[1, 1] = c, -s, s, c
    M[0, 3], M[1, 3] = x, y
    return M


def _conj():
    """change-of-basis matrices (all exactly representable, with exact inverses)"""
    P = np.zeros((4, 4))
    P[1, 0] = P[2, 1] = P[0, 2] = P[3, 3] = 1.0        # x -> y -> z -> x : the model's z axis becomes x
    S = np.diag([2.0, 1.0, 4.0, 1.0])
    H = np.eye(4)
    H[0, 1], H[2, 0] = 1.0, -1.0                        # integer shear, determinant 1
    # frames placed far from the origin: conjugation by a translation of ~10^8 leaves rotations as they are and
    # turns <<k,x,y>> (k # 0) into a matrix whose translation is of that size (integers < 2^53: still exact)
    F = np.eye(4)
    F[0, 3], F[1, 3] = FAR, 3 * FAR
    out = []
    for C in (np.eye(4), P, P @ P, np.eye(4), S, H, F):
        Ci = np.linalg.inv(C)
        Ci = np.round(Ci * 4) / 4
        if not np.array_equal(C @ Ci, np.eye(4)):
            raise MachineryError("change of basis not exact")
        out.append((C, Ci))
    return out


REPS = ("rot_z", "rot_x", "rot_y", "mirror", "scaled", "sheared", "far")
RIGID_REPS = (0, 1, 2)
FAR = float(2 ** 27)
FAR_REP = 6
_CONJ = None


@functools.lru_cache(maxsize=None)
def _rep_cached(r, k, x, y):
    global _CONJ
    if _CONJ is None:
        _CONJ = _conj()
    M = mat((k, x, y))
    if r == 3:
        # k |-> (-1)^k is a character of SE(2,Z): the representation stays faithful and becomes improper
        M[2, 2] = -1.0 if k % 2 else 1.0
    C, Ci = _CONJ[r]
    M = C @ M @ Ci
    M.flags.writeable = False
    return M


def rep(m, r):
    """the group element m = <<k,x,y>> in representation r (a group isomorphism onto its image, so the
    expected value of every query is the image of the element TLC computed)"""
    return _rep_cached(r, m[0] % 4, m[1], m[2])


FORMS_ANY = ("nd64", "list", "f32", "fortran", "strided", "int_or_tuple")
FORMS_FAR = tuple(f for f in FORMS_ANY if f != "f32")       # 2^29 + 1 is not a float32
FORMS_RIGID = FORMS_ANY + ("quat", "quat_neg_scaled", "axis_angle", "axis_scaled_neg")


def present(m, r, form):
    """-> (kwargs for update, [buffers the caller scribbles on afterwards])"""
    M = rep(m, r)
    if form == "nd64":
        v = np.array(M)
        return {"matrix": v}, [v]
    if form == "list":
        return {"matrix": M.tolist()}, []
    if form == "f32":
        v = M.astype(np.float32)
        return {"matrix": v}, [v]
    if form == "fortran":
        v = np.asfortranarray(np.array(M))
        return {"matrix": v}, [v]
    if form == "strided":
        big = np.zeros((8, 8))
        big[::2, ::2] = M
        return {"matrix": big[::2, ::2]}, [big]
    if form == "int_or_tuple":
        if np.array_equal(M, np.round(M)):
            v = np.round(M).astype(np.int64)
            return {"matrix": v}, [v]
        return {"matrix": tuple(tuple(row) for row in M.tolist())}, []
    # rigid representations only: rotation by k quarter turns about the image of z, translation (x, y, 0)
    k, x, y = m
    C = _CONJ[r][0][:3, :3]
    axis = C @ np.array([0.0, 0.0, 1.0])
    tr = C @ np.array([float(x), float(y), 0.0])
    ang = (k % 4) * np.pi / 2.0
    if form == "quat":
        q = np.r_[np.cos(ang / 2), np.sin(ang / 2) * axis]
        return {"quaternion": q, "translation": tr}, [q, tr]
    if form == "quat_neg_scaled":
        # q and any non-zero multiple of it (the negative included) name the same rotation
        q = -2.5 * np.r_[np.cos(ang / 2), np.sin(ang / 2) * axis]
        return {"quaternion": q.tolist(), "translation": tr.tolist()}, []
    if form == "axis_angle":
        if k % 4 == 0:
            return {"translation": tr}, [tr]
        return {"axis": axis, "angle": ang, "translation": tr}, [axis, tr]
    if form == "axis_scaled_neg":
        # an axis of any length, reversed together with the angle; a full turn more or less
        return {"axis": (-3.0 * axis).tolist(), "angle": -ang + (2 * np.pi if k % 2 else 0.0), "translation": tuple(tr)}, []
    raise MachineryError("unknown form " + form)


# frame names: the model's strings, or other hashables (falsy ones included).  No two names of one map have
# the same Python hash: see COLLIDING below.
NAMEMAPS = (
    {"w": "w", "a": "a", "b": "b", "c": "c", "d": "d"},
    {"w": "world", "a": 0, "b": "b!", "c": ("t", 1), "d": 7},
    {"w": "", "a": "a", "b": 1, "c": -1, "d": 2.5},
)
# distinct frame names with EQUAL Python hashes (hash("") == hash(0) == 0, hash(-1) == hash(-2) == -2 in
# CPython).  Replayed separately so that what only these names break is attributed to its own deviation id.
COLLIDING = {"w": "world", "a": 0, "b": "", "c": -1, "d": -2}


def close(A, B):
    """equal up to 1e-10 of the magnitude of the expected matrix (entries are integers / dyadic rationals; the
    slack is for quaternion / axis-angle spellings and for other orders of evaluating the same product)"""
    return A is not None and np.shape(A) == (4, 4) and np.allclose(A, B, rtol=0, atol=1e-10 * max(1.0, float(np.abs(B).max())))


def do_get(g, a, b, how=0):
    """-> (matrix or None, geometry, exception name or None); a == "-" means "from the base frame" """
    try:
        if a == "-":
            M, geo = (g[b] if how == 0 else g.get(b) if how == 1 else g.get(frame_to=b))
        elif how % 2:
            M, geo = g.get(b, a)
        else:
            M, geo = g.get(frame_to=b, frame_from=a)
        return np.array(M, dtype=float), geo, None
    except BaseException as e:  # noqa
        return None, None, type(e).__name__


def replay_one(SceneGraph, beh, variant, stats, colliding=False, force_rep=None):
    """Replay one TLC behaviour. Returns list of failures (dicts)."""
    fails = []
    rnd = random.Random(variant)
    r = variant % len(REPS) if force_rep is None else force_rep
    nm = COLLIDING if colliding else NAMEMAPS[(variant // len(REPS)) % len(NAMEMAPS)]
    forms = FORMS_RIGID if r in RIGID_REPS else FORMS_FAR if r == FAR_REP else FORMS_ANY
    stored = {}      # child -> (parent, matrix) as asked for so far (coverage counting only)
    E = lambda m: rep(m, r)       # noqa: E731
    N = lambda x: nm[x]           # noqa: E731
    ctx = {"rep": REPS[r], "names": [repr(nm[k]) for k in ("w", "a", "b", "c", "d")]}
    stats["rep:" + REPS[r]] = stats.get("rep:" + REPS[r], 0) + 1
    nk = "names:colliding" if colliding else "names:%d" % ((variant // len(REPS)) % len(NAMEMAPS))
    stats[nk] = stats.get(nk, 0) + 1

    def hit(k):
        stats[k] = stats.get(k, 0) + 1
    base = beh.get("base0", "w")
    g = SceneGraph(base_frame=N(base))
    for e in beh.get("init", []):
        g.update(frame_to=N(e["v"]), frame_from=N(e["u"]), matrix=np.array(E(e["m"])))
        stored[e["v"]] = (e["u"], e["m"])
    for i, st in enumerate(beh["h"]):
        op = st["op"]
        if op == "update":
            form = forms[rnd.randrange(len(forms))]
            kw, bufs = present(st["m"], r, form)
            geo = st["g"] != "-"
            if geo:
                kw["geometry"] = st["g"]
            if stored.get(st["v"], (None, None))[0] == st["u"] and stored[st["v"]][1] != st["m"]:
                hit("reupdate_of_an_existing_edge")
                if r == FAR_REP and st["m"][0] % 4 and stored[st["v"]][1][0] == st["m"][0]:
                    hit("reupdate_far_from_origin_small_change")
            stored[st["v"]] = (st["u"], st["m"])
            u, v = N(st["u"]), N(st["v"])
            # the same abstract update through the different public entry points
            opts = ["update", "update", "edgelist"]
            if st["u"] == base:
                opts += ["default_from", "default_from"]
                if not geo and "matrix" in kw:
                    opts += ["setitem", "setitem"]
            entry = opts[rnd.randrange(len(opts))]
            hit("form:" + form)
            hit("entry:" + entry)
            if entry == "update":
                g.update(frame_to=v, frame_from=u, **kw)
            elif entry == "default_from":
                if rnd.randrange(2):
                    g.update(v, **kw)
                else:
                    g.update(frame_to=v, frame_from=None, **kw)
            elif entry == "setitem":
                g[v] = kw["matrix"]
            elif rnd.randrange(2):
                g.from_edgelist([[u, v, kw]])
            else:
                g.load([(u, v, kw)])
            # the arrays handed in stay the caller's: scribbling on them afterwards must not
            # change the graph ("product of the CURRENT edge matrices" means the graph's own values)
            for buf in bufs:
                buf.fill(77)
        elif op == "remove":
            g.transforms.remove_node(N(st["u"]))
            stored = {c: pm for c, pm in stored.items() if c != st["u"] and pm[0] != st["u"]}
        elif op == "remove_geometry":
            g.remove_geometries(st["g"] if rnd.randrange(2) else [st["g"]])
        elif op == "set_base":
            g.base_frame = N(st["b"])
            base = st["b"]
        elif op == "get":
            how = rnd.randrange(3)
            hit("get:" + ("explicit" if st["a"] != "-" else ("getitem", "default_from", "default_from")[how]))
            M, geo, exc = do_get(g, "-" if st["a"] == "-" else N(st["a"]), N(st["b"]), how)
            if st["conn"]:
                if exc is not None or not close(M, E(st["exp"])):
                    fails.append({"clause": "GetIsPathProduct", "step": i, "got": None if M is None else M.tolist(),
                                  "exc": exc, "exp": E(st["exp"]).tolist(), **ctx})
                    return fails
                if (geo or "-") != st["expg"]:
                    fails.append({"clause": "GetGeometry", "step": i, "got": geo, "exp": st["expg"], **ctx})
                    return fails
        else:
            raise MachineryError("unknown op " + op)
    # a copy that is then changed must not reach back into the graph it was taken from: taken BEFORE the
    # closing sweep so that the sweep's (mostly uncached) queries would see shared dictionaries
    if beh["edges"] and rnd.randrange(4) == 0:
        hit("copy_then_diverge")
        ctx["copy_taken_and_changed_before_sweep"] = True
        try:
            h0 = g.copy()
            e = beh["edges"][0]
            h0.update(frame_to=N(e["v"]), frame_from=N(e["u"]), matrix=E(e["m"]) @ E((1, 1, 2)), geometry="only_in_copy")
            h0.remove_geometries("g1")
            h0.update(frame_to="only_in_copy", frame_from=N(e["v"]), matrix=np.array(E((1, 0, 1))))
            h0.transforms.remove_node(N(e["u"]))
        except BaseException as ex:  # noqa
            fails.append({"clause": "CopyEquivalent", "exc": type(ex).__name__ + ": " + str(ex)[:100], **ctx})
            return fails
    # closing sweep over every ordered pair of present frames
    for q in beh["sweep"]:
        M, geo, exc = do_get(g, N(q["a"]), N(q["b"]), rnd.randrange(2))
        if q["conn"]:
            if exc is not None or not close(M, E(q["exp"])):
                fails.append({"clause": "GetIsPathProduct(sweep)", "pair": [q["a"], q["b"]],
                              "got": None if M is None else M.tolist(), "exc": exc,
                              "exp": E(q["exp"]).tolist(), **ctx})
                return fails
            if (geo or "-") != q["expg"]:
                fails.append({"clause": "GetGeometry(sweep)", "pair": [q["a"], q["b"]], "got": geo, "exp": q["expg"], **ctx})
                return fails
    # T(a,c) = T(a,b).T(b,c), T(a,b) = T(b,a)^-1 and T(a,a) = I hold for the spec values (RefLaws);
    # equality with the spec values therefore implies them for the implementation.
    # edge list export rebuilds an equivalent graph; so does copy().  (Half of the behaviours: the final
    # forests repeat many times over among the emitted histories.)
    has_parent = {e["v"] for e in beh["edges"]}
    for name, other in ((("EdgelistRebuildsEquivalent", None), ("CopyEquivalent", "copy")) if rnd.randrange(2) else ()):
        hit("export:" + name)
        try:
            if other is None:
                h = SceneGraph(base_frame=g.base_frame)
                if rnd.randrange(2):
                    h.from_edgelist(g.to_edgelist())
                else:
                    h.load(g.to_edgelist())
            else:
                h = g.copy()
        except BaseException as e:  # noqa
            fails.append({"clause": name, "exc": type(e).__name__ + ": " + str(e)[:100], **ctx})
            return fails
        for q in beh["sweep"]:
            # frames without any edge do not appear in an edge list: only pairs joined by a path
            if not q["conn"] or q["a"] == q["b"]:
                continue
            M, geo, exc = do_get(h, N(q["a"]), N(q["b"]), 1)
            # a root frame has no incoming edge to carry its geometry name in an edge list
            expg = q["expg"] if (other or q["b"] in has_parent) else (geo or "-")
            if exc is not None or not close(M, E(q["exp"])) or (geo or "-") != expg:
                fails.append({"clause": name, "pair": [q["a"], q["b"]], "exc": exc,
                              "got": None if M is None else M.tolist(), "geo": geo,
                              "exp": E(q["exp"]).tolist(), "expg": q["expg"], **ctx})
                return fails
    # to_flattened = world transform of every node reachable from the base frame
    base = beh["base"]
    want = {q["b"]: q for q in beh["sweep"] if q["a"] == base and q["b"] != base}
    if want and all(q["conn"] for q in want.values()):
        hit("to_flattened")
        try:
            flat = g.to_flattened()
        except BaseException as e:  # noqa
            fails.append({"clause": "ToFlattened", "exc": type(e).__name__, **ctx})
            return fails
        for n, q in want.items():
            if N(n) not in flat or not close(np.array(flat[N(n)]["transform"]), E(q["exp"])):
                fails.append({"clause": "ToFlattened", "node": n, **ctx})
                return fails
    return fails


def _pack(r):
    """Keep emitted behaviours as JSON text and drop TLC's raw output: decoded dicts of 10^5 behaviours
    took 8 GB in the parent, which the fork pool then multiplied (the thorough tier was OOM-killed)."""
    out = [json.dumps(x, separators=(",", ":")) for x in r.printed]
    r.stdout = ""
    return out


def _replay_chunk(chunk):
    trimesh = import_trimesh()
    from trimesh.scene.transforms import SceneGraph
    out = []
    n_get = 0
    stats = {}
    for idx, beh, mode in chunk:
        colliding = mode == 1
        if isinstance(beh, str):
            beh = json.loads(beh)   # behaviours are kept as compact JSON text (memory: 150 k of them in thorough)
        f = replay_one(SceneGraph, beh, idx + 7919 * seed(), stats, colliding, FAR_REP if mode == 2 else None)
        n_get += sum(1 for s in beh["h"] if s["op"] == "get") + len(beh["sweep"])
        if f:
            out.append({"behaviour": beh["h"], "init": beh.get("init", []), "fail": f[0], "colliding_names": colliding})
    return out, n_get, len(chunk), stats


def extra_unknown_frames(SceneGraph):
    """Reads of unknown / disconnected frames must not disturb later answers.
    -> list of (failure dict, deviation id or None)"""
    fails = []
    g = SceneGraph()
    g.update("a", "world", matrix=mat((1, 1, 0)))
    g.update("b", "a", matrix=mat((0, 0, 1)))
    want = mat((1, 1, 0)) @ mat((0, 0, 1))
    flat0 = g.to_flattened()
    nodes0 = sorted(map(repr, g.nodes))
    for bad in ("zz", "yy"):
        try:
            g.get(bad)
        except BaseException:  # noqa
            pass
        M, _, exc = do_get(g, "world", "b")
        if exc or not close(M, want):
            fails.append(({"clause": "GetAfterFailedGet", "bad": bad, "exc": exc}, None))
    # ... nor the world transforms of the frames that exist (to_flattened answered before the failed queries)
    try:
        flat1, exc = g.to_flattened(), None
    except BaseException as e:  # noqa
        flat1, exc = None, type(e).__name__ + ": " + str(e)[:80]
    if flat1 is None or sorted(flat1) != sorted(flat0) or any(
            not close(np.array(flat1[k]["transform"]), np.array(flat0[k]["transform"])) for k in flat0):
        fails.append(({"clause": "ToFlattenedAfterFailedGet", "exc": exc, "frames_before": nodes0,
                       "frames_after": sorted(map(repr, g.nodes)),
                       "history": "update(a, world); update(b, a); to_flattened() ok; get('zz') raises; get('yy') raises; to_flattened()"},
                      "FailedGetInsertsFrame"))
    # a failed query FROM an unknown frame
    g = SceneGraph()
    g.update("a", "world", matrix=mat((1, 1, 0)))
    try:
        g.get("a", "qq")
    except BaseException:  # noqa
        pass
    try:
        ok = close(np.array(g.to_flattened()["a"]["transform"]), mat((1, 1, 0)))
    except BaseException:  # noqa
        ok = False
    if not ok:
        fails.append(({"clause": "ToFlattenedAfterFailedGet", "history": "update(a, world); get(a, frame_from='qq') raises; to_flattened()"},
                      "FailedGetInsertsFrame"))
    return fails


def _own_driver_events(tier):
    """histories of checks/c09_driver.py -> (events, {(fam, hid): mats}, coverage counters)"""
    from checks import c09_driver
    items = c09_driver.plan(tier, seed())
    res = pmap(c09_driver.run_chunk, items, chunk=max(1, len(items) // 64 + 1))
    events, mats, cnt = [], {}, {}
    for chunk in res:
        for evs, ms, cv in chunk:
            events += evs
            if evs:
                mats[(evs[0]["fam"], evs[0]["hid"])] = ms
            for k, v in cv.items():
                cnt[k] = max(cnt.get(k, 0), v) if k.endswith("max_depth") else cnt.get(k, 0) + v
    fam = {}
    for ev in events:
        fam[ev["fam"]] = fam.get(ev["fam"], 0) + 1
    cnt["events_by_family"] = fam
    # coverage guards: every family, every entry point, every container must really have been exercised
    quick = tier == "quick"
    need = {"entry": 600, "deep": 150, "scene": 150, "verydeep": 4}
    for k, n in need.items():
        if fam.get(k, 0) < n:
            raise MachineryError("own driver: family %s produced %d events (< %d)" % (k, fam.get(k, 0), n))
    for k in ("mut:setitem", "mut:update_default_from", "mut:update", "mut:edgelist_merge", "mut:edgelist_self", "mut:remove",
              "mut:set_base", "mut:copy", "mut:deep_reparent", "mut:deep_remove", "mut:scene_add_geometry",
              "mut:scene_apply_transform", "mut:scene_rezero", "mut:scene_camera_transform", "mut:scene_graph_setitem",
              "get:getitem", "get:get_default_from", "get:get", "get:to_flattened", "get:get_on_graph_left_by_copy") + tuple(
                  "container:" + c for c in c09_driver.CONTAINERS):
        if cnt.get(k, 0) < (5 if quick else 30):
            raise MachineryError("own driver: %s exercised only %d times" % (k, cnt.get(k, 0)))
    if cnt.get("deep_max_depth", 0) < 30 or cnt.get("verydeep_max_depth", 0) < 100:
        raise MachineryError("own driver: forests came out shallow: %r" % (cnt,))
    return events, mats, cnt


def _recorder_trace(tier, d, cov):
    """(a) the repository's own scene-graph tests / the random float driver under the recorder -> (events, mats)"""
    import subprocess
    from harness.common import VERIF, repo_dir
    trace = os.path.join(d, "trace.ndjson")
    env = dict(os.environ)
    env.update({"TRIMESH_VERIF": "1", "TRIMESH_VERIF_TRACE": trace,
                "PYTHONPATH": os.path.join(VERIF, "harness") + ":" + repo_dir() + ":" + env.get("PYTHONPATH", "")})
    if tier == "thorough":
        # the repository's own scene-graph tests under the recorder
        tests = ["tests/test_scenegraph.py", "tests/test_scene.py"]
        cmd = [sys.executable, "-W", "ignore", "-m", "pytest", "-p", "no:cacheprovider", "-p", "verif_recorder", "-q", "-x",
               "--rootdir", repo_dir()] + [os.path.join(repo_dir(), t) for t in tests]
        p = subprocess.run(cmd, cwd=d, env=env, capture_output=True, text=True, timeout=1500)
        cov["repo_tests_under_recorder"] = {"files": tests, "pytest_rc": p.returncode, "tail": p.stdout.strip().splitlines()[-1:]}
    else:
        # a random driver with arbitrary float matrices (rotations about random axes, scales, translations)
        cmd = [sys.executable, "-W", "ignore", os.path.join(VERIF, "harness", "sg_driver.py"), str(seed()), "150", "40"]
        p = subprocess.run(cmd, cwd=d, env=env, capture_output=True, text=True, timeout=1500)
        cov["driver_under_recorder"] = {"graphs": 150, "steps": 40, "rc": p.returncode}
        if p.returncode != 0:
            raise MachineryError("driver failed: " + p.stderr[-600:])
    if not os.path.exists(trace):
        raise MachineryError("recorder produced no trace: " + p.stdout[-500:] + p.stderr[-500:])
    events, mats = [], None
    for line in open(trace):
        ev = json.loads(line)
        if ev["ev"] == "tokens":
            mats = ev["mats"]
        else:
            events.append(ev)
    if mats is None or len(events) < 20:
        raise MachineryError("trace too short (%d events)" % len(events))
    return events, mats


def judge_traces(tier, V, cov, d, rec_events, rec_mats, own_events, own_mats):
    """code -> spec: TLC names the term every recorded get must equal, numpy evaluates it."""
    cases, src = [], []
    for ev in rec_events:
        par = {c: p_ for c, p_ in ev["parents"]}
        src.append(("rec", ev, {k: (np.eye(4) if t == "I" else np.array(rec_mats[int(t[1:])])) for k, t in ev["edges"].items()}))
        cases.append({"id": len(cases), "a": ev["a"], "b": ev["b"], "par": dict(par, zz_="-")})
    for ev in own_events:
        ms = own_mats[(ev["fam"], ev["hid"])]
        src.append(("own", ev, {k: np.array(ms[t]) for k, t in ev["edges"].items()}))
        cases.append({"id": len(cases), "a": ev["a"], "b": ev["b"], "par": dict(ev["par"], zz_="-")})
    with open(os.path.join(d, "cases.ndjson"), "w") as f:
        for c in cases:
            f.write(json.dumps(c) + "\n")
    r = tlc.run(d, "TraceSceneGraph", "INIT Init\nNEXT Next\nINVARIANT Tell\nCHECK_DEADLOCK FALSE\n", workers=1, timeout=1500)
    tlc.must(r, "trace")
    if len(r.printed) < len(cases):
        raise MachineryError("TLC judged %d of %d recorded gets" % (len(r.printed), len(cases)))
    nconn, nconn_own, longest, ncyc = 0, {}, 0, 0
    for out in r.printed:
        kind, ev, edge = src[out["id"]]
        if out["cyc"]:
            # the logged parent map has a cycle on the walk from one of the two frames: not a forest
            if kind == "own":
                raise MachineryError("the driver's own parent map contains a cycle: %r" % (ev["par"],))
            if tier == "thorough":
                ncyc += 1          # the repository's tests may build whatever they like: outside the property
            elif ncyc == 0:
                ncyc += 1
                V.violation("ForestInv(recorded state)", {"what": "the real parent map logged by the recorder contains a cycle "
                                                                  "although the random driver only asked for acyclic updates",
                                                          "parents": ev["parents"]})
            continue
        if not out["conn"]:
            continue
        nconn += 1
        longest = max(longest, len(out["term"]))
        want = np.eye(4)
        for item in out["term"]:
            M = edge.get(item["n"])
            if M is None:
                M = np.eye(4)
            want = want @ (np.linalg.inv(M) if item["inv"] else M)
        got = ev.get("res")
        scale = max(1.0, float(np.abs(want).max()))
        bad = bool(ev["exc"]) or got is None or not np.allclose(np.array(got), want, rtol=0, atol=1e-6 * scale)
        if kind == "rec":
            if bad:
                V.violation("GetIsPathProduct(recorded repo test)", {"a": ev["a"], "b": ev["b"], "parents": ev["parents"], "term": out["term"],
                                                                      "exc": ev["exc"], "got": got, "want": want.tolist()})
            continue
        nconn_own[ev["fam"]] = nconn_own.get(ev["fam"], 0) + 1
        if bad:
            term = out["term"] if len(out["term"]) <= 12 else out["term"][:6] + ["... %d factors ..." % len(out["term"])] + out["term"][-3:]
            detail = {"family": ev["fam"], "history": ev["hid"], "through": ev["how"], "a": ev["a_repr"], "b": ev["b_repr"],
                      "edges_on_path": len(out["term"]), "term": term, "exc": ev["exc"],
                      "got": got, "want": want.tolist() if len(out["term"]) <= 40 else "(product of %d factors)" % len(out["term"])}
            if ev["exc"] == "RecursionError":
                # numpy.linalg.multi_dot recurses once per factor: paths of about 1000 edges cannot be answered
                V.violation("GetIsPathProduct(long path)", detail, "DeepPathRecursion")
            else:
                V.violation("GetIsPathProduct(%s histories)" % ev["fam"], detail)
    for k, n in {"entry": 300, "deep": 100, "scene": 100, "verydeep": 4}.items():
        if nconn_own.get(k, 0) < n:
            raise MachineryError("own driver: only %d connected queries judged in family %s" % (nconn_own.get(k, 0), k))
    cov["recorded_gets_judged"] = len(rec_events)
    cov["own_driver_gets_judged"] = len(own_events)
    cov["own_driver_gets_connected"] = nconn_own
    cov["recorded_gets_connected"] = nconn - sum(nconn_own.values())
    cov["longest_path_judged"] = longest
    cov["recorded_gets_on_cyclic_parent_maps_not_judged"] = ncyc
    return r.distinct, len(cases)


def _run_jobs(jobs, parallel):
    """jobs: list of (name, cfg text, tlc.run kwargs, keep_printed).  The TLC runs are independent (own
    scratch directory each) and mostly single-worker: run side by side.  -> {name: (result, packed lines)}"""
    from concurrent.futures import ThreadPoolExecutor
    dirs = {j[0]: tlc.prepare("c09/" + j[0]) for j in jobs}

    def one(job):
        name, text, kw, keep = job
        c0 = resource.getrusage(resource.RUSAGE_CHILDREN)
        r = tlc.run(dirs[name], "SceneGraph", text, **kw)
        c1 = resource.getrusage(resource.RUSAGE_CHILDREN)
        r.cpu = (c1.ru_utime + c1.ru_stime) - (c0.ru_utime + c0.ru_stime)   # meaningful only when run serially
        lines = _pack(r) if keep else []
        r.printed = []
        return name, r, lines
    if parallel <= 1:
        res = [one(j) for j in jobs]
    else:
        with ThreadPoolExecutor(max_workers=parallel) as ex:
            res = list(ex.map(one, jobs))
    return {name: (r, lines) for name, r, lines in res}


def main(argv):
    tier = tier_from_args(argv)
    quick = tier == "quick"
    V = Verdict(PROP, tier)
    trimesh = import_trimesh()
    from trimesh.scene.transforms import SceneGraph
    cov = {"tlc_runs": []}
    states = trans = 0
    serial = os.environ.get("C09_SERIAL") == "1"

    def note(name, r):
        nonlocal states, trans
        states += r.distinct
        trans += r.generated
        cov["tlc_runs"].append({"run": name, "distinct": r.distinct, "generated": r.generated,
                                "depth": r.depth, "wall_s": round(r.wall, 1),
                                **({"cpu_s": round(r.cpu, 1)} if serial else {})})

    # ---- the TLC runs (all independent of each other)
    EMIT_GP = "INVARIANT GetIsPathProduct"
    dc = 3 if quick else 4
    nsim = 40 if quick else 400
    dsim = 9 if quick else 12
    jobs = []
    # 1. model checking of the implementation-shaped design (intended = as fixed).
    #    quick: the depth-3 run with geometry doubles as the state-cover emission (one run instead of two);
    #    the deeper runs without emission belong to the thorough tier.
    if not quick:
        jobs.append(("mc", cfg(depth=5), dict(timeout=TLC_TIMEOUT, java_opts=["-Xmx6g"]), False))
    # 2. behaviours emitted by TLC
    # (a) state cover: one shortest history per distinct model state (caches included); all invariants checked
    #     RefLaws (laws of the reference alone, the costly invariant, indifferent to geometry names) is checked by
    #     the 16-worker run above in thorough and by a run of its own, beside the others, in quick
    cover_invs = MC_INVS.replace("\nINVARIANT RefLaws", "")
    if quick:
        jobs.append(("laws", cfg(depth=3, invs="INVARIANT RefLaws"), dict(workers=1, timeout=TLC_TIMEOUT), False))
    jobs.append(("cover", cfg(depth=dc, geoms="Geoms1", invs=cover_invs + "\nINVARIANT EmitAll"), dict(workers=1, timeout=TLC_TIMEOUT), True))
    # (b) every history of length 3 (no VIEW: hist is part of the state)
    jobs.append(("leaf", cfg(depth=3, view=False, invs="INVARIANT EmitLeaf\n" + EMIT_GP), dict(workers=1, timeout=TLC_TIMEOUT), True))
    # (c) simulated long histories on 5 nodes, 3 generators.  TLC's simulator evaluates invariants on every
    #     successor of the last state, so each simulated trace yields ~100 emitted behaviours sharing a prefix
    jobs.append(("sim", cfg(nodes="Nodes5", gens="Gens3", geoms="Geoms1", depth=dsim, view=False, invs="INVARIANT EmitLeaf\n" + EMIT_GP),
                 dict(workers=1, simulate=f"num={nsim}", depth=dsim + 1, seed=seed() + 7, timeout=TLC_TIMEOUT), True))
    # (d) from a pre-built chain world -> a -> b -> c: every history of length 3 (and a deeper state cover in
    #     thorough), so that "multi-hop query, re-parent, query again" needs no set-up steps
    jobs.append(("chain", cfg(depth=3, view=False, shape="chain", invs="INVARIANT EmitLeaf\n" + EMIT_GP), dict(workers=1, timeout=TLC_TIMEOUT), True))
    # (e) re-updates of one edge by a matrix with the same rotation and a slightly different translation (3 frames,
    #     every history of length 3); replayed with the frames ~10^8 away from the origin for two thirds of them
    jobs.append(("samek", cfg(nodes="Nodes3", gens="GensK", depth=3, view=False, invs="INVARIANT EmitLeaf\n" + EMIT_GP), dict(workers=1, timeout=TLC_TIMEOUT), True))
    if not quick:
        jobs.append(("chaincover", cfg(depth=4, shape="chain", invs="INVARIANT EmitAll\n" + EMIT_GP), dict(workers=1, timeout=TLC_TIMEOUT), True))
    # spec self-tests: each seeded deviation must make TLC report GetIsPathProduct (from the chain the
    # shortest counterexamples are 2-3 steps, so these runs stop early)
    for flag in ("ghost", "forget", "keep"):
        jobs.append(("self_" + flag, cfg(depth=5, shape="chain", invs=EMIT_GP, **{flag: True}), dict(workers=1, timeout=TLC_TIMEOUT), False))

    # the recorder-driven trace (a subprocess) runs beside the TLC jobs; so do this check's own histories
    from concurrent.futures import ThreadPoolExecutor
    dtrace = tlc.prepare("c09/trace")
    t_own = time.time()
    own_events, own_mats, own_cnt = _own_driver_events(tier)       # fork pool first (before threads exist)
    cov["own_driver"] = dict(own_cnt, wall_s=round(time.time() - t_own, 1))
    with ThreadPoolExecutor(max_workers=1) as side:
        fut = side.submit(_recorder_trace, tier, dtrace, cov)
        done = _run_jobs(jobs, 1 if serial else (len(jobs) if quick else 3))
        rec_events, rec_mats = fut.result()

    selftests = {}
    for flag in ("ghost", "forget", "keep"):
        rr = done["self_" + flag][0]
        selftests[flag] = rr.violated
        if rr.violated != "GetIsPathProduct":
            raise MachineryError(f"spec self-test {flag}: expected GetIsPathProduct violation, got {rr.violated} {rr.error}")
    cov["spec_selftests"] = selftests
    if not quick:
        note("mc nodes=4 gens=2 depth=5", tlc.must(done["mc"][0], "mc"))
    else:
        note("laws of the reference (RefLaws) depth=3", tlc.must(done["laws"][0], "laws"))
    behs, fam_n = [], {}
    for name, label in (("cover", f"mc with geometry + emit state cover depth={dc}"), ("leaf", "emit all histories depth=3"),
                        ("sim", f"simulate num={nsim} depth={dsim}"), ("chain", "emit all histories depth=3 from a chain"),
                        ("chaincover", "emit state cover depth=4 from a chain"),
                        ("samek", "emit all histories depth=3, 3 frames, same-rotation matrices")):
        if name not in done:
            continue
        r, lines = done[name]
        if name == "sim":
            if r.violated or (r.error and r.error != "timeout"):
                raise MachineryError("simulation failed: %s %s" % (r.violated, r.error))
        else:
            tlc.must(r, name)
        note(label, r)
        fam_n[name] = len(lines)
        behs += lines
    n_cover, n_leaf, n_sim = fam_n["cover"], fam_n["leaf"], fam_n["sim"]
    n_chain = fam_n["chain"] + fam_n.get("chaincover", 0)
    if n_cover < 100 or n_leaf < 100 or n_sim < nsim or n_chain < 1000:
        raise MachineryError(f"emission too small: cover={n_cover} leaf={n_leaf} sim={n_sim} chain={n_chain}")

    # 3. replay
    t0 = time.time()
    n_samek = fam_n["samek"]
    if n_samek < 1000:
        raise MachineryError(f"emission too small: samek={n_samek}")
    k0 = len(behs) - n_samek
    work = [(i, b, 0 if i < k0 or i % 3 == 0 else 2) for i, b in enumerate(behs)]
    # the histories from the chain once more under frame names whose Python hashes collide
    c0 = n_cover + n_leaf + n_sim
    ncol = min(fam_n["chain"], 1500 if quick else 20000)
    step = max(1, fam_n["chain"] // ncol)
    work += [(i, behs[i], 1) for i in range(c0, c0 + fam_n["chain"], step)]
    results = pmap(_replay_chunk, work)
    n_get = sum(r[1] for r in results)
    n_beh = sum(r[2] for r in results)
    stats = {}
    for out, _, _, st in results:
        for k, v in st.items():
            stats[k] = stats.get(k, 0) + v
        for f in out:
            if f["colliding_names"]:
                # the same behaviour passed under names with distinct hashes (or is reported there as well)
                V.violation(f["fail"]["clause"] + "(frame names with equal hash())", f, "EdgeKeyHashCollision")
            else:
                V.violation(f["fail"]["clause"], f)
    # coverage guards of the adapter's variants: every representation, name kind, container / spelling and
    # entry point must have carried a fair share of the behaviours
    floor = max(50, n_beh // 400)
    need = (["rep:" + x for x in REPS] + ["names:%d" % k for k in range(len(NAMEMAPS))] + ["names:colliding"] + ["form:" + x for x in FORMS_RIGID]
            + ["entry:" + x for x in ("update", "default_from", "setitem", "edgelist")]
            + ["get:" + x for x in ("explicit", "getitem", "default_from")]
            + ["copy_then_diverge", "export:EdgelistRebuildsEquivalent", "export:CopyEquivalent", "to_flattened"])
    for k in need:
        if stats.get(k, 0) < floor:
            raise MachineryError("replay variant %s carried only %d of %d behaviours" % (k, stats.get(k, 0), n_beh))
    # magnitudes: an edge of size ~10^8 replaced by one that differs by a few units in a few entries
    if stats.get("reupdate_of_an_existing_edge", 0) < 1000 or stats.get("reupdate_far_from_origin_small_change", 0) < 200:
        raise MachineryError("re-updates of an existing edge came out nearly empty: %d, far from the origin with a small change: %d"
                             % (stats.get("reupdate_of_an_existing_edge", 0), stats.get("reupdate_far_from_origin_small_change", 0)))
    cov["replay_variants"] = dict(sorted(stats.items()))
    for f, dev in extra_unknown_frames(SceneGraph):
        V.violation(f["clause"], f, dev)
    st_tr, n_rec = judge_traces(tier, V, cov, dtrace, rec_events, rec_mats, own_events, own_mats)
    states += st_tr
    trans += st_tr
    ru_c, ru_s = resource.getrusage(resource.RUSAGE_CHILDREN), resource.getrusage(resource.RUSAGE_SELF)
    cov.update({
        "states": states, "transitions": trans,
        "traces_validated_against_impl": n_beh + n_rec,
        "gets_compared": n_get,
        "behaviours": {"state_cover": n_cover, "all_histories_depth3": n_leaf, "simulated": n_sim, "from_chain": n_chain,
                       "same_rotation_reupdates_3_frames": n_samek},
        "exhaustive": True,
        "replay_wall_s": round(time.time() - t0, 1),
        "cpu_s": {"children": round(ru_c.ru_utime + ru_c.ru_stime, 1), "self": round(ru_s.ru_utime + ru_s.ru_stime, 1)},
        "samples": [json.loads(behs[1])["h"], json.loads(behs[n_cover + n_leaf // 2])["h"], json.loads(behs[-1])["h"],
                    {k: own_events[len(own_events) // 2][k] for k in ("fam", "how", "a_repr", "b_repr", "par")}],
    })
    return V.finish("model_checking", cov, assumptions=[
        "TLC's matrices range over SE(2,Z); replayed through seven faithful 4x4 representations (rotation about z / x / y by "
        "multiples of 90 degrees with integer translations, a mirrored one, conjugates by diag(2,1,4), by an integer shear and "
        "by a translation of 2^27 - frames ~10^8 away from the origin)",
        "forests of at most 5 named frames for the TLC-emitted histories (depths as stated); 20-39 frames and chains of "
        "64-1100 frames for the driver's random histories with arbitrary float matrices (term named by TLC, evaluated by numpy, "
        "atol 1e-6 x magnitude)",
        "float comparison atol 1e-10 x magnitude of the expected matrix for the replay (quaternion / axis-angle presentations are not bit exact)",
        "near-rigid matrices (|M M^T - I| < 1e-5) are not used: SceneGraph(repair_rigid=1e-5) re-orthonormalises them by design",
    ])


if __name__ == "__main__":
    try:
        sys.exit(main(sys.argv[1:]))
    except MachineryError as e:
        print("MACHINERY-ERROR:", e)
        sys.exit(2)
