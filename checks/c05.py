"""C05 - topological queries equal their combinatorial definitions.

Reference semantics: spec/Topology.tla (directed edges stacked per face, sorted / unique
edges with occurrence counts, face adjacency = pairs of distinct faces on an edge occurring
exactly twice, unshared corners, vertex neighbours / incident faces / degree, face- and
vertex-connected components, Euler number, watertightness, winding consistency, closed
manifolds for the angle-defect clause).

code -> spec: Python enumerates face arrays (every array with few faces over 4 vertices,
seeded larger arrays grown along shared edges, a library of closed / non-manifold lattice
surfaces with flipped, duplicated, removed and collapsed faces), builds
trimesh.Trimesh(vertices, faces, process=False) on non-collinear lattice points, reads the
Trimesh properties and the free functions of trimesh.graph / trimesh.geometry with both graph
engines, projects them to JSON and has TLC validate every record against the reference.
Python computes no expected value.

Families added by the coverage audit (see `extra_items`): the engine None and the documented
options of connected_components (min_len, nodes = all / None / a subset) and of split
(only_watertight=True, the default call) on every record; `dt:` faces handed over in other
integer dtypes / containers / memory layouts; `empty` face arrays; `lift:` meshes whose referenced
vertices have large indices (2^8 .. 2^17, recorded through the order-preserving relabelling onto
0..nv-1); `free:` the free functions alone with indices around 2^31 .. 2^62 (the packed-row
thresholds of grouping.hashable_rows); `hist:` a mesh whose queries were all read before its faces
were replaced (assignment, update_faces) or that went through the constructor's process().
"""
import itertools
import json
import logging
import sys

import numpy as np

from harness import tlc
from harness.common import (MachineryError, Verdict, import_trimesh, pmap, seed,
                            tier_from_args)

PROP = "C05"
CFG = "INIT Init\nNEXT Next\nINVARIANT Report\nINVARIANT RefSane\nCHECK_DEADLOCK FALSE\n"
ENGINES = ("scipy", "networkx", "auto")   # auto: engine=None
MAXV = 14
# one point per vertex index on the moment curve: no three collinear, so every face with
# three distinct indices is a proper triangle; all coordinates are small exact integers
COORDS = np.array([[t, t * t, t * t * t] for t in range(1, MAXV + 1)], dtype=np.float64)
COORD_KEY = {tuple(c): k for k, c in enumerate(COORDS.tolist())}


# ------------------------------------------------------------------ projection
def ints(a):
    a = np.asarray(a)
    if a.size and a.dtype.kind not in "iub":
        raise TypeError("not integral")
    return a.astype(np.int64).reshape(-1).tolist()


def rows(a, width):
    a = np.asarray(a)
    if a.size == 0:
        return []
    if a.dtype.kind not in "iub" or a.ndim != 2 or a.shape[1] != width:
        raise TypeError("shape")
    return a.astype(np.int64).tolist()


def ragged(seq):
    return [[int(x) for x in r] for r in seq]


def decode_split(meshes, faces, vid_of):
    """Sub-meshes -> lists of face ids of the parent.  Vertices are identified by their
    (unique) coordinates; a face of a part is matched to the lowest unused parent face with the
    same ordered index triple (identical parent faces are interchangeable), -1 if there is none."""
    pool = {}
    for fid, f in enumerate(faces):
        pool.setdefault(tuple(f), []).append(fid)
    pool = {k: v[::-1] for k, v in pool.items()}
    out = []
    for s in meshes:
        vid = [vid_of(v) for v in np.asarray(s.vertices).tolist()]
        comp = []
        for f in np.asarray(s.faces).tolist():
            key = tuple(vid[j] for j in f)
            comp.append(pool[key].pop() if pool.get(key) else -1)
        out.append(comp)
    return out


# how a face / edge array is handed to the library (the property quantifies over integer arrays)
def _strided(a):
    a = np.array(a, dtype=np.int64).reshape(len(a), -1)
    big = np.zeros((a.shape[0], 2 * a.shape[1]), dtype=np.int64)
    big[:, ::2] = a
    return big[:, ::2]


def _readonly(a):
    a = np.array(a, dtype=np.int64)
    a.setflags(write=False)
    return a


CONV = {
    "int64": lambda a: np.array(a, dtype=np.int64),
    "int8": lambda a: np.array(a, dtype=np.int8),
    "uint8": lambda a: np.array(a, dtype=np.uint8),
    "int16": lambda a: np.array(a, dtype=np.int16),
    "uint16": lambda a: np.array(a, dtype=np.uint16),
    "int32": lambda a: np.array(a, dtype=np.int32),
    "uint32": lambda a: np.array(a, dtype=np.uint32),
    "uint64": lambda a: np.array(a, dtype=np.uint64),
    "list": lambda a: np.array(a, dtype=np.int64).tolist(),
    "tuple": lambda a: tuple(tuple(r) for r in np.array(a, dtype=np.int64).tolist()),
    "fortran": lambda a: np.asfortranarray(np.array(a, dtype=np.int64)),
    "strided": _strided,
    "readonly": _readonly,
    "tracked": None,   # trimesh.caching.tracked_array, filled in by the worker
}
_BIG = {}


def big_coords(n):
    """moment-curve points for n vertices (exact in float64 up to n = 2^17; beyond that only the
    first coordinate, which is what identifies a vertex, needs to be exact)"""
    if n not in _BIG:
        _BIG.clear()
        t = np.arange(1, n + 1, dtype=np.float64)
        _BIG[n] = np.column_stack([t, t * t, t * t * t])
    return _BIG[n]


def pick_options(k, n, nv):
    """the (min_len, nodes) option pair of this record, and the node subsets"""
    j = k + seed()
    rs = np.random.RandomState(7919 * (j % 100003) + 13)
    ml = (2, 3, 4, 1)[(j // 3) % 4]
    mode = ("all", "none", "sub")[j % 3]
    fn = [int(x) for x in rs.permutation(n)[:max(1, rs.randint(1, n + 1))]] if n else []
    vn = [int(x) for x in rs.permutation(nv)[:max(1, rs.randint(1, nv + 1))]] if nv else []
    return ml, mode, fn, vn


def observe(trimesh, item, k):
    flat, nv, tag, claim, opt = item
    if opt.get("free"):
        return observe_free(trimesh, item, k)
    if opt.get("coords") is not None:
        return observe_gauss(trimesh, item, k)
    faces = [list(flat[j:j + 3]) for j in range(0, len(flat), 3)]
    g, geo = trimesh.graph, trimesh.geometry
    cname = opt.get("conv", "int64")
    conv0 = CONV[cname] or (lambda a: trimesh.caching.tracked_array(np.array(a, dtype=np.int64)))
    # an empty (0, k) array keeps its shape (a list cannot carry it)
    conv = lambda a: conv0(a) if np.asarray(a).size else np.array(a, dtype=np.int64)
    arr = (lambda a: conv(a)) if cname not in ("list", "tuple") else (lambda a: np.array(a, dtype=np.int64))
    lift = opt.get("lift")
    rec = {"kind": "mesh", "tag": tag, "claim": claim, "exc": "", "bcx": 0, "stray": 0,
           "src": {"flat": [int(x) for x in flat], "nv": int(nv), "opt": opt, "k": int(k)}}
    cur = ["?"]

    def rd(name, thunk):
        cur[0] = name
        return thunk()

    try:
        # ------------------------------------------------------------ the object under test
        if lift is not None:
            L = np.array(lift, dtype=np.int64)
            nvreal = int(opt["nvbig"])
            verts = big_coords(nvreal)
            inv = {int(b): j for j, b in enumerate(L.tolist())}
            vid_of = lambda v: inv.get(int(v[0]) - 1, -7)
            rec["bcx"] = nvreal - nv
        else:
            L = np.arange(nv, dtype=np.int64)
            nvreal = nv
            verts = COORDS[:nv]
            inv = None
            vid_of = lambda v: COORD_KEY.get(tuple(v), -7)
        F = L[np.array(faces, dtype=np.int64).reshape(-1, 3)]

        def ul(a):     # vertex ids of the real mesh -> labels of the record (-1 is padding)
            a = np.asarray(a)
            if a.size and a.dtype.kind not in "iub":
                raise TypeError("not integral")
            if inv is None:
                return a
            return np.array([x if x == -1 else inv.get(x, -7) for x in a.reshape(-1).tolist()],
                            dtype=np.int64).reshape(a.shape)

        hist = opt.get("hist")
        if hist and hist[0] == "process":
            # the constructor's default: merge_vertices() and friends run first
            m = rd("Trimesh()", lambda: trimesh.Trimesh(vertices=verts.copy(), faces=conv(F)))
            faces = np.asarray(m.faces).tolist()
            nv = nvreal = len(m.vertices)
            F = np.array(faces, dtype=np.int64).reshape(-1, 3)
            L = np.arange(nv, dtype=np.int64)
            key = {tuple(v): j for j, v in enumerate(np.asarray(m.vertices).tolist())}
            vid_of = lambda v: key.get(tuple(v), -7)
        elif hist:
            # every query is read on other faces first, then the faces are replaced
            F1 = np.array(hist[1], dtype=np.int64).reshape(-1, 3)
            m = trimesh.Trimesh(vertices=verts.copy(), faces=F1.copy(), process=False)
            for name in WARM:
                rd("warm:" + name, lambda: getattr(m, name))
            rd("warm:split", lambda: m.split(only_watertight=False, repair=False))
            if hist[0] == "assign":
                cur[0] = "faces="
                m.faces = conv(F)
            else:
                rd("update_faces", lambda: m.update_faces(np.array(hist[2], dtype=bool)))
        else:
            m = rd("Trimesh", lambda: trimesh.Trimesh(vertices=verts.copy(), faces=conv(F), process=False))
        if np.asarray(m.faces).tolist() != F.tolist() or len(m.vertices) != nvreal:
            raise MachineryError(f"the mesh under test does not hold the intended arrays: {tag} {faces} {nv}")
        n = len(faces)
        rec["faces"], rec["nv"] = faces, nv
        sel = L.tolist()       # rows of per-vertex results that belong to the record's labels

        first = k % 2 == 0  # read the by-product before / after the value that computes it
        if first:
            rec["ef"] = rd("edges_face", lambda: ints(m.edges_face))
            rec["eui"] = rd("edges_unique_inverse", lambda: ints(m.edges_unique_inverse))
            rec["fae"] = rd("face_adjacency_edges", lambda: rows(ul(m.face_adjacency_edges), 2))
            rec["wc"] = rd("is_winding_consistent", lambda: bool(m.is_winding_consistent))
        rec["edges"] = rd("edges", lambda: rows(ul(m.edges), 2))
        rec["es"] = rd("edges_sorted", lambda: rows(ul(m.edges_sorted), 2))
        rec["eu"] = rd("edges_unique", lambda: rows(ul(m.edges_unique), 2))
        rec["fue"] = rd("faces_unique_edges", lambda: rows(m.faces_unique_edges, 3))
        rec["fa"] = rd("face_adjacency", lambda: rows(m.face_adjacency, 2))
        rec["fau"] = rd("face_adjacency_unshared", lambda: rows(ul(m.face_adjacency_unshared), 2))
        rec["wt"] = rd("is_watertight", lambda: bool(m.is_watertight))
        if not first:
            rec["ef"] = rd("edges_face", lambda: ints(m.edges_face))
            rec["eui"] = rd("edges_unique_inverse", lambda: ints(m.edges_unique_inverse))
            rec["fae"] = rd("face_adjacency_edges", lambda: rows(ul(m.face_adjacency_edges), 2))
            rec["wc"] = rd("is_winding_consistent", lambda: bool(m.is_winding_consistent))
        vn = rd("vertex_neighbors", lambda: m.vertex_neighbors)
        vf = rd("vertex_faces", lambda: np.asarray(m.vertex_faces))
        vd = rd("vertex_degree", lambda: np.asarray(m.vertex_degree))
        if len(vn) != nvreal or len(vf) != nvreal or len(vd) != nvreal:
            raise ValueError("per-vertex shape")
        rec["vn"] = rd("vertex_neighbors", lambda: ragged(ul(vn[j]).tolist() for j in sel))
        rec["vf"] = rd("vertex_faces", lambda: ragged(vf[sel].tolist()))
        rec["vd"] = rd("vertex_degree", lambda: ints(vd[sel]))
        if lift is not None:
            out = np.ones(nvreal, dtype=bool)
            out[L] = False
            rec["stray"] = int(sum(1 for j in np.nonzero(out)[0].tolist() if len(vn[j])) +
                               np.count_nonzero((vf[out] != -1).any(axis=1)) + np.count_nonzero(vd[out]))
        rec["bc"] = rd("body_count", lambda: int(m.body_count))
        rec["eul"] = rd("euler_number", lambda: int(m.euler_number))
        rec["split"] = rd("split", lambda: decode_split(m.split(only_watertight=False, repair=False), faces, vid_of))
        rec["vag"] = rd("vertex_adjacency_graph", lambda: [[int(a), int(b)] for a, b in ul(np.array(
            list(g.vertex_adjacency_graph(m).edges()), dtype=np.int64).reshape(-1, 2)).tolist()])
        sp = rd("faces_sparse", lambda: m.faces_sparse.tocoo())
        rec["fsp"] = rd("faces_sparse", lambda: sorted(set(zip(ul(sp.row).tolist(), ints(sp.col)))))
        # free functions
        e2, i2 = rd("faces_to_edges", lambda: geo.faces_to_edges(conv(F), return_index=True))
        rec["f2e"], rec["f2ei"] = rows(ul(e2), 2), ints(i2)
        rec["f2e0"] = rd("faces_to_edges_noindex", lambda: rows(ul(geo.faces_to_edges(conv(F))), 2))
        a2, ae2 = rd("graph.face_adjacency", lambda: g.face_adjacency(faces=conv(F), return_edges=True))
        rec["gfa"], rec["gfae"] = rows(a2, 2), rows(ul(ae2), 2)
        rec["gfam"] = rd("graph.face_adjacency_m", lambda: rows(g.face_adjacency(mesh=m), 2))
        rec["vfi"] = rd("vertex_face_indices", lambda: ragged(np.asarray(geo.vertex_face_indices(
            nvreal, arr(F), geo.index_sparse(nvreal, conv(F)) if k % 3 == 0 else m.faces_sparse))[sel].tolist()))
        rec["cut"] = n // 2
        rec["she"] = rd("shared_edges", lambda: rows(ul(g.shared_edges(conv(F[:n // 2]), conv(F[n // 2:]))), 2)) \
            if n >= 2 else []
        adj = np.asarray(m.face_adjacency).reshape(-1, 2)
        vedges = np.asarray(m.edges if first else m.edges_unique).reshape(-1, 2)
        ml, mode, fnodes, vnodes = pick_options(k, n, nv)
        rec["cc"], rec["vcc"], rec["gsplit"], rec["wsplit"] = {}, {}, {}, {}
        rec["ccx"] = {"ml": ml, "mode": mode, "fnodes": fnodes, "vnodes": vnodes, "f": {}, "v": {}}
        fN = {"all": np.arange(n), "none": None, "sub": np.array(fnodes, dtype=np.int64)}[mode]
        vN = {"all": L.copy(), "none": None, "sub": L[np.array(vnodes, dtype=np.int64)]}[mode]
        for e in ENGINES:
            en = None if e == "auto" else e
            rec["cc"][e] = rd("components_f:" + e, lambda: ragged(
                g.connected_components(conv(adj), nodes=np.arange(n), min_len=1, engine=en)))
            rec["vcc"][e] = rd("components_v:" + e, lambda: ragged(ul(np.asarray(c)).tolist() for c in
                g.connected_components(conv(vedges), nodes=L.copy(), engine=en)))
            rec["gsplit"][e] = rd("graph.split:" + e, lambda: decode_split(
                g.split(m, only_watertight=False, engine=en, repair=False), faces, vid_of))
            rec["ccx"]["f"][e] = rd(f"components_f:{e}:{ml}:{mode}", lambda: ragged(
                g.connected_components(conv(adj), nodes=fN, min_len=ml, engine=en)))
            rec["ccx"]["v"][e] = rd(f"components_v:{e}:{ml}:{mode}", lambda: ragged(ul(np.asarray(c)).tolist() for c in
                g.connected_components(conv(vedges), nodes=vN, min_len=ml, engine=en)))
            rec["wsplit"][e] = rd("split_watertight:" + e, lambda: decode_split(
                g.split(m, only_watertight=True, engine=en), faces, vid_of))
        rec["wsplit"]["dflt"] = rd("split()", lambda: decode_split(m.split(), faces, vid_of))
        rec["ccl"] = rd("component_labels_f", lambda: ints(g.connected_component_labels(conv(adj), node_count=n))
                        if n else [])
        rec["vccl"] = rd("component_labels_v", lambda: ints(np.asarray(
            g.connected_component_labels(conv(vedges), node_count=nvreal))[sel]))
        w = rd("graph.is_watertight", lambda: g.is_watertight(arr(np.asarray(m.edges)), arr(np.asarray(m.edges_sorted)))
               if first else g.is_watertight(arr(np.asarray(m.edges))))
        rec["gwt"], rec["gwc"] = bool(w[0]), bool(w[1])
        # angle defects: only where every face is a proper triangle
        rec["hasdefect"] = bool(lift is None and n > 0 and all(len(set(f)) == 3 for f in faces))
        rec["defect"] = 0
        if rec["hasdefect"]:
            tot = rd("vertex_defects", lambda: float(np.sum(m.vertex_defects)))
            if not np.isfinite(tot):
                raise ValueError("nonfinite")
            rec["defect"] = int(round(tot / (2.0 * np.pi) * 1e6))
    except MachineryError:
        raise
    except BaseException as e:  # noqa
        rec["exc"] = f"{cur[0]}:{type(e).__name__}"[:44]
        rec.setdefault("faces", faces)
        rec.setdefault("nv", nv)
    return rec


WARM = ("edges", "edges_sorted", "edges_unique", "edges_unique_inverse", "edges_face", "faces_unique_edges",
        "face_adjacency", "face_adjacency_edges", "face_adjacency_unshared", "is_watertight",
        "is_winding_consistent", "vertex_neighbors", "vertex_faces", "vertex_degree", "body_count",
        "euler_number", "vertex_adjacency_graph", "faces_sparse", "edges_sparse", "referenced_vertices")


def observe_free(trimesh, item, k):
    """free functions of trimesh.graph / trimesh.geometry on faces whose vertex indices are far
    beyond any vertex array; results come back through the inverse of the relabelling"""
    flat, nv, tag, claim, opt = item
    faces = [list(flat[j:j + 3]) for j in range(0, len(flat), 3)]
    g, geo = trimesh.graph, trimesh.geometry
    L = np.array(opt["lift"], dtype=np.int64)
    inv = {int(b): j for j, b in enumerate(L.tolist())}
    n = len(faces)
    F = L[np.array(faces, dtype=np.int64).reshape(-1, 3)]
    rec = {"kind": "free", "tag": tag, "claim": 0, "exc": "", "faces": faces, "nv": nv, "cut": n // 2,
           "hascc": bool(opt["cc"]), "src": {"flat": [int(x) for x in flat], "nv": int(nv), "opt": opt, "k": int(k)}}
    cur = ["?"]

    def rd(name, thunk):
        cur[0] = name
        return thunk()

    def ul(a):
        a = np.asarray(a)
        if a.size and a.dtype.kind not in "iub":
            raise TypeError("not integral")
        return np.array([inv.get(x, -7) for x in a.reshape(-1).tolist()], dtype=np.int64).reshape(a.shape)

    try:
        e2, i2 = rd("faces_to_edges", lambda: geo.faces_to_edges(F.copy(), return_index=True))
        rec["f2e"], rec["f2ei"] = rows(ul(e2), 2), ints(i2)
        rec["f2e0"] = rd("faces_to_edges_noindex", lambda: rows(ul(geo.faces_to_edges(F.copy())), 2))
        a2, ae2 = rd("graph.face_adjacency", lambda: g.face_adjacency(faces=F.copy(), return_edges=True))
        rec["gfa"], rec["gfae"] = rows(a2, 2), rows(ul(ae2), 2)
        E = np.asarray(e2)
        w = rd("graph.is_watertight", lambda: g.is_watertight(E.copy()) if k % 2 else
               g.is_watertight(E.copy(), np.sort(E, axis=1)))
        rec["gwt"], rec["gwc"] = bool(w[0]), bool(w[1])
        rec["she"] = rd("shared_edges", lambda: rows(ul(g.shared_edges(F[:n // 2].copy(), F[n // 2:].copy())), 2)) \
            if n >= 2 else []
        rec["cc"] = {}
        for e in ENGINES:
            rec["cc"][e] = rd("components_v:" + e, lambda: ragged(ul(np.asarray(c)).tolist() for c in
                g.connected_components(E.copy(), engine=None if e == "auto" else e))) if opt["cc"] else []
    except BaseException as e:  # noqa
        rec["exc"] = f"{cur[0]}:{type(e).__name__}"[:44]
    return rec


def observe_gauss(trimesh, item, k):
    """angle defects of a closed lattice surface with many nearly flat vertices"""
    flat, nv, tag, claim, opt = item
    faces = [list(flat[j:j + 3]) for j in range(0, len(flat), 3)]
    rec = {"kind": "gauss", "tag": tag, "claim": claim, "exc": "", "faces": faces, "nv": nv,
           "src": {"flat": [int(x) for x in flat], "nv": int(nv), "opt": opt, "k": int(k)}}
    cur = ["?"]
    try:
        cur[0] = "Trimesh"
        m = trimesh.Trimesh(vertices=np.array(opt["coords"], dtype=np.float64),
                            faces=np.array(faces, dtype=np.int64), process=False)
        if np.asarray(m.faces).tolist() != faces or len(m.vertices) != nv:
            raise MachineryError("the mesh under test does not hold the intended arrays")
        if k % 2:     # the defects on a cold object, or after the topology was read
            cur[0] = "euler_number"
            rec["eul"], rec["wt"] = int(m.euler_number), bool(m.is_watertight)
        cur[0] = "vertex_defects"
        d = np.asarray(m.vertex_defects, dtype=np.float64)
        tot = float(np.sum(d))
        if not np.isfinite(tot):
            raise ValueError("nonfinite")
        rec["vdn"] = [int(x) for x in d.shape]
        rec["defect8"] = int(round(tot / (2.0 * np.pi) * 1e8))
        # how the input looks to the library (for the coverage guard only, never judged)
        rec["small"] = int(np.count_nonzero((np.abs(d) > 1e-9) & (np.abs(d) < 1e-5)))
        cur[0] = "euler_number"
        rec["eul"], rec["wt"] = int(m.euler_number), bool(m.is_watertight)
    except MachineryError:
        raise
    except BaseException as e:  # noqa
        rec["exc"] = f"{cur[0]}:{type(e).__name__}"[:44]
    return rec


def gen_records(chunk):
    trimesh = import_trimesh()
    logging.getLogger("trimesh").setLevel(logging.CRITICAL)
    return [observe(trimesh, item, k) for k, item in chunk]


# ------------------------------------------------------------------ inputs
def pick_nv(flat, k, lo=4):
    top = max(flat) + 1
    return max(top, [top, lo, top + 1, lo + 2][(k + seed()) % 4])


def exhaustive(nmax, V=4):
    k = 0
    for n in range(1, nmax + 1):
        for flat in itertools.product(range(V), repeat=3 * n):
            yield (flat, pick_nv(flat, k, V), f"exh{n}", 0)
            k += 1


def grown(rs, n, V):
    """n faces over V vertices: faces attached along existing edges in either direction,
    repeated / reversed / rotated copies, collapsed corners, and uniform faces"""
    faces = []
    for _ in range(n):
        u = rs.rand()
        if faces and u < 0.55:
            f = faces[rs.randint(len(faces))]
            j = rs.randint(3)
            a, b = f[j], f[(j + 1) % 3]
            if rs.rand() < 0.7:
                a, b = b, a
            c = rs.randint(V)
            new = [a, b, c]
            r = rs.randint(3)
            new = new[r:] + new[:r]
        elif faces and u < 0.70:
            f = list(faces[rs.randint(len(faces))])
            r = rs.randint(3)
            new = f[r:] + f[:r]
            if rs.rand() < 0.5:
                new = new[::-1]
        elif u < 0.90:
            new = [int(x) for x in rs.choice(V, 3, replace=False)]
        else:
            new = [int(x) for x in rs.randint(V, size=3)]
        faces.append([int(x) for x in new])
    return faces


def sampled(count, ns, Vs, rs):
    for k in range(count):
        n = ns[k % len(ns)]
        V = Vs[(k // len(ns)) % len(Vs)]
        if k % 3 == 0:
            faces = rs.randint(V, size=(n, 3)).tolist()
        else:
            faces = grown(rs, n, V)
        flat = tuple(int(x) for f in faces for x in f)
        extra = [0, 0, 1, 2][rs.randint(4)]
        nv = max(max(flat) + 1, V if rs.rand() < 0.5 else max(flat) + 1) + extra
        yield (flat, min(nv, MAXV), f"rnd{n}", 0)


def quads(qs):
    out = []
    for a, b, c, d in qs:
        out += [[a, b, c], [a, c, d]]
    return out


def library():
    """name -> (faces, vertex count, is a closed manifold)"""
    tet = [[0, 2, 1], [0, 1, 3], [1, 2, 3], [0, 3, 2]]
    octa = [[0, 2, 4], [2, 1, 4], [1, 3, 4], [3, 0, 4], [2, 0, 5], [1, 2, 5], [3, 1, 5], [0, 3, 5]]
    cube = quads([[0, 2, 3, 1], [4, 5, 7, 6], [0, 1, 5, 4], [2, 6, 7, 3], [0, 4, 6, 2], [1, 3, 7, 5]])
    vid = lambda i, j: 3 * (i % 3) + (j % 3)
    torus = quads([[vid(i, j), vid(i + 1, j), vid(i + 1, j + 1), vid(i, j + 1)] for i in range(3) for j in range(3)])
    sh = lambda fs, mp: [[mp[x] for x in f] for f in fs]
    return {
        "tetrahedron": (tet, 4, True),
        "octahedron": (octa, 6, True),
        "cube": (cube, 8, True),
        "torus3x3": (torus, 9, True),
        "two_tetrahedra": (tet + sh(tet, [4, 5, 6, 7]), 8, True),
        "tetrahedra_sharing_vertex": (tet + sh(tet, [3, 4, 5, 6]), 7, False),
        "tetrahedra_sharing_edge": (tet + sh(tet, [2, 3, 4, 5]), 6, False),
        "pillow": ([[0, 1, 2], [0, 2, 1]], 3, True),
        "disc_fan": ([[0, 1, 2], [0, 2, 3], [0, 3, 4], [0, 4, 1]], 5, False),
        "moebius": ([[0, 1, 2], [1, 3, 2], [2, 3, 4], [3, 0, 4], [4, 0, 1]], 5, False),
    }


def variants(rs, per):
    for name, (base, nv0, closed) in library().items():
        for k in range(per):
            faces = [list(f) for f in base]
            nv, claim, ops = nv0, (1 if closed else 2), []
            if k >= 1:
                perm = rs.permutation(nv0)
                faces = [[int(perm[x]) for x in f] for f in faces]
                faces = [f[r:] + f[:r] for f, r in zip(faces, rs.randint(3, size=len(faces)))]
                order = rs.permutation(len(faces))
                faces = [faces[j] for j in order]
            kind = 0 if k < 2 else (k - 2) % 7 + 1
            if kind == 1:      # flip some faces (still the same closed surface, winding broken)
                for j in rs.choice(len(faces), 1 + rs.randint(min(3, len(faces))), replace=False):
                    faces[j] = faces[j][::-1]
                ops.append("flip")
            elif kind == 2:    # flip all: winding consistent again
                faces = [f[::-1] for f in faces]
                ops.append("flipall")
            elif kind == 3:    # duplicate a face, same or reversed
                f = faces[rs.randint(len(faces))]
                faces.insert(rs.randint(len(faces) + 1), f[::-1] if rs.rand() < 0.5 else list(f))
                claim = 2
                ops.append("dup")
            elif kind == 4:    # remove one or two faces
                if len(faces) > 2:
                    for _ in range(1 + rs.randint(2)):
                        faces.pop(rs.randint(len(faces)))
                    claim = 2
                    ops.append("remove")
            elif kind == 5:    # collapse a corner of one face
                f = faces[rs.randint(len(faces))]
                j = rs.randint(3)
                f[j] = f[(j + 1) % 3]
                claim = 2
                ops.append("collapse")
            elif kind == 6:    # unreferenced vertices
                nv += 1 + rs.randint(2)
                claim = 2
                ops.append("unreferenced")
            elif kind == 7:    # several at once, unlabelled
                for j in rs.choice(len(faces), 2, replace=False):
                    faces[j] = faces[j][::-1]
                faces.append(list(faces[0]))
                if rs.rand() < 0.5:
                    faces.pop(rs.randint(len(faces)))
                nv += rs.randint(2)
                claim = 0
                ops.append("mixed")
            flat = tuple(int(x) for f in faces for x in f)
            yield (flat, nv, "lib:" + name + ":" + "+".join(ops or ["base"]), claim)


DTYPES = ("int8", "uint8", "int16", "uint16", "int32", "uint32", "uint64", "list", "tuple", "fortran",
          "strided", "readonly", "tracked")


def lift_labels(rs, V, s):
    """V strictly increasing vertex indices around 2^s: the patterns on which a packed row key
    (grouping.hashable_rows) or a narrow intermediate dtype would collide or wrap"""
    top = 2 ** s
    kind = rs.randint(4)
    if kind == 0:
        h = max(1, V // 2)
        ids = list(range(h)) + [top + j for j in range(V - h)]
    elif kind == 1:
        ids = sorted(int(x) for x in top - 6 + rs.choice(12, V, replace=False))
    elif kind == 2:
        step = max(1, top // 8)
        ids = sorted({int(x) * step + int(rs.randint(2)) for x in rs.choice(12, V, replace=False)})
        while len(ids) < V:
            ids.append(ids[-1] + 1)
    else:
        ids = sorted(int(x) for x in set(rs.randint(0, top + 100, size=4 * V).tolist()))[:V]
        while len(ids) < V:
            ids.append(ids[-1] + 1)
    return [int(x) for x in ids]


def bait(rs, s):
    """edges that differ only across bit s: (0, T+2) / (T, T+3) collide under a key a ^ (b << s),
    (0, T+2) / (1, 2) under a key a * 2^s + b; the three faces carrying them are not adjacent"""
    top = 2 ** s
    V = 7 + int(rs.randint(2))
    ids = [0, 1, 2] + [top + j for j in range(V - 3)]
    faces = [[0, 5, int(rs.randint(V))], [1, 2, int(rs.randint(V))], [3, 6, int(rs.randint(V))]]
    faces = [f[r:] + f[:r] if rs.rand() < 0.5 else (f[r:] + f[:r])[::-1] for f, r in zip(faces, rs.randint(3, size=3))]
    faces += grown(rs, int(rs.randint(0, 4)), V)
    faces = [faces[q] for q in rs.permutation(len(faces))]
    return tuple(int(x) for f in faces for x in f), V, ids


def gentle_surfaces(rs, count):
    """closed lattice surfaces (spheres) with nearly flat vertices: integer coordinates, spacing of
    hundreds to thousands and height steps of a few units, so that single angle defects lie between
    1e-8 and 1e-5 while every triangle stays well shaped.
      lens:  a convex lattice polygon around the origin, one apex a few units above it and one below
             (either a few units or about a radius away);
      slab:  a (k+1) x (k+1) height field with small integer heights over a coarse lattice, closed by
             a fan from a point far below to its boundary."""
    for j in range(count):
        if j % 2 == 0:
            R = int(rs.randint(400, 3000))
            ring = [[[R, 0], [0, R], [-R, 0], [0, -R]],
                    [[2 * R, 0], [R, 2 * R], [-R, 2 * R], [-2 * R, 0], [-R, -2 * R], [R, -2 * R]],
                    [[R, 0], [R, R], [0, R], [-R, R], [-R, 0], [-R, -R], [0, -R], [R, -R]],
                    [[3 * R, R], [-R, 2 * R], [-2 * R, -R], [R, -3 * R]]][int(rs.randint(4))]
            h = int(rs.randint(1, 4))
            H = int(rs.randint(1, 4)) if rs.rand() < 0.5 else R + int(rs.randint(R))
            n = len(ring)
            coords = [[x, y, int(rs.randint(2)) if rs.rand() < 0.3 else 0] for x, y in ring] + [[0, 0, h + 1], [0, 0, -H - 1]]
            faces = [[q, (q + 1) % n, n] for q in range(n)] + [[(q + 1) % n, q, n + 1] for q in range(n)]
            name = "lens"
        else:
            kk = int(rs.randint(3, 7))
            L = int(rs.randint(300, 2500))
            bump = int(rs.randint(3))
            vid = lambda a, b: a * (kk + 1) + b
            coords = []
            for a in range(kk + 1):
                for b in range(kk + 1):
                    z = [int(rs.randint(0, 3)), ((a - kk // 2) ** 2 + (b - kk // 2) ** 2) // 2,
                         (a * b) % 3 + int(rs.randint(2))][bump]
                    coords.append([a * L, b * L, int(z)])
            faces = []
            for a in range(kk):
                for b in range(kk):
                    q = [vid(a, b), vid(a + 1, b), vid(a + 1, b + 1), vid(a, b + 1)]
                    if (a + b + j) % 2:
                        faces += [[q[0], q[1], q[2]], [q[0], q[2], q[3]]]
                    else:
                        faces += [[q[0], q[1], q[3]], [q[1], q[2], q[3]]]
            border = [vid(a, 0) for a in range(kk)] + [vid(kk, b) for b in range(kk)] + \
                     [vid(a, kk) for a in range(kk, 0, -1)] + [vid(0, b) for b in range(kk, 0, -1)]
            apex = len(coords)
            coords.append([kk * L // 2, kk * L // 2, -kk * L])
            faces += [[border[(q + 1) % len(border)], border[q], apex] for q in range(len(border))]
            name = "slab"
        if rs.rand() < 0.5:      # relabel and reorder: the sum may not depend on the presentation
            perm = rs.permutation(len(coords))
            newc = [None] * len(coords)
            for old, new in enumerate(perm):
                newc[int(new)] = coords[old]
            coords = newc
            faces = [[int(perm[x]) for x in f] for f in faces]
            faces = [faces[q] for q in rs.permutation(len(faces))]
        if rs.rand() < 0.3:
            faces = [f[::-1] for f in faces]
        yield (tuple(int(x) for f in faces for x in f), len(coords), "gauss:" + name, 1,
               {"coords": [[int(x) for x in c] for c in coords]})


def extra_items(tier, rs):
    """the families added by the coverage audit (module docstring)"""
    big = tier == "thorough"
    lib = library()
    out = []
    # faces handed over in another integer dtype / container / memory layout
    for cn in DTYPES:
        for flat, nv, _t, _c in sampled(40 if big else 9, (2, 3, 4, 5), (4, 5, 6), rs):
            out.append((flat, nv, "dt:" + cn, 0, {"conv": cn}))
        for name in ("cube", "tetrahedra_sharing_edge", "pillow"):
            base, nv0, closed = lib[name]
            out.append((tuple(x for f in base for x in f), nv0, "dt:" + cn, 1 if closed else 2, {"conv": cn}))
    # no faces at all
    for nv in (1, 2, 3, 5, 9):
        out.append(((), nv, "empty", 0, {}))
    # meshes whose referenced vertices have large indices
    for s, cnt in ((8, 40), (12, 30), (15, 20), (16, 30), (17, 8)):
        for j, (flat, V, _t, _c) in enumerate(sampled(cnt * (10 if big else 1), (2, 3, 4, 5, 6), (4, 5, 6, 7, 8), rs)):
            if j % 3 == 2:
                flat, V, ids = bait(rs, s)
            else:
                ids = lift_labels(rs, V, s)
            out.append((flat, V, f"lift:2^{s}", 0, {"lift": ids, "nvbig": ids[-1] + 1 + int(rs.randint(3))}))
    # free functions alone, indices beyond any mesh
    for s, cnt in ((16, 30), (21, 30), (31, 60), (32, 50), (33, 30), (40, 30), (62, 40)):
        for j, (flat, V, _t, _c) in enumerate(sampled(cnt * (8 if big else 1), (1, 2, 3, 4, 5, 6), (4, 5, 6, 7, 8), rs)):
            if j % 3 == 2:
                flat, V, ids = bait(rs, s)
            else:
                ids = lift_labels(rs, V, s)
            out.append((flat, V, f"free:2^{s}", 0, {"free": 1, "lift": ids, "cc": int(s <= 21)}))
    # queries read before the faces were replaced; the constructor's default processing
    for j, (flat, nv, _t, _c) in enumerate(sampled(1500 if big else 180, (2, 3, 4, 5), (4, 5, 6), rs)):
        how = ("assign", "update", "process")[j % 3]
        n = len(flat) // 3
        if how == "assign":
            other = rs.randint(max(flat) + 1, size=3 * int(rs.randint(1, 6)))
            opt = {"hist": ["assign", [int(x) for x in other]]}
        elif how == "update":
            keep = [True] * n + [False] * int(rs.randint(1, 4))
            keep = [keep[q] for q in rs.permutation(len(keep))]
            f1, q = [], 0
            for kp in keep:
                if kp:
                    f1 += [int(x) for x in flat[3 * q:3 * q + 3]]
                    q += 1
                else:
                    f1 += [int(x) for x in rs.randint(max(flat) + 1, size=3)]
            opt = {"hist": ["update", f1, keep]}
        else:
            opt = {"hist": ["process"]}
        out.append((flat, nv, "hist:" + how, 0, opt))
    # Gauss-Bonnet where many vertices carry a small share of the curvature
    out += list(gentle_surfaces(rs, 600 if big else 70))
    return out


FAMILY_MIN = {"dt": 140, "empty": 5, "lift": 100, "free": 250, "hist": 150, "gauss": 60}


def work_items(tier):
    rs = np.random.RandomState(seed() + 505)
    if tier == "thorough":
        items = list(exhaustive(3))
        items += list(sampled(60000, (3, 4, 5, 6, 7), (4, 5, 6, 7, 8), rs))
        items += list(variants(rs, 150))
    else:
        items = list(exhaustive(2))
        items += list(sampled(4300, (3, 4), (4, 5, 6), rs))
        items += list(variants(rs, 16))
    items = [it + ({},) for it in items]
    items += extra_items(tier, np.random.RandomState(seed() + 50505))
    return items


def input_stats(cases):
    st = {"degenerate_face": 0, "repeated_face": 0, "edge_three_or_more_times": 0, "unreferenced_vertex": 0,
          "watertight_observed": 0, "winding_inconsistent_observed": 0, "adjacent_pairs_observed": 0,
          "several_face_components_observed": 0, "several_bodies_observed": 0,
          "defect_clause_on_labelled_closed_manifold": 0,
          "min_len_left_a_component_out": 0, "nodes_none": 0, "nodes_subset": 0,
          "only_watertight_returned_a_part": 0, "only_watertight_repaired_a_part": 0,
          "only_watertight_left_a_component_out": 0, "vertex_index_65536_or_more": 0,
          "vertex_index_2_31_or_more": 0, "free_with_components": 0,
          "gauss_records_with_5_or_more_small_defects": 0, "gauss_small_defect_vertices": 0}
    for c in cases:
        top = max(c["src"]["opt"].get("lift") or [0])
        st["vertex_index_65536_or_more"] += bool(top >= 65536 and c["kind"] == "mesh")
        st["vertex_index_2_31_or_more"] += top >= 2 ** 31
        if c["kind"] == "free":
            st["free_with_components"] += bool(c["hascc"] and c["exc"] == "")
            continue
        if c["kind"] == "gauss":
            st["gauss_records_with_5_or_more_small_defects"] += bool(c["exc"] == "" and c["small"] >= 5)
            st["gauss_small_defect_vertices"] += c["small"] if c["exc"] == "" else 0
            continue
        fs = c["faces"]
        cnt = {}
        for f in fs:
            for j in range(3):
                e = tuple(sorted((f[j], f[(j + 1) % 3])))
                cnt[e] = cnt.get(e, 0) + 1
        st["degenerate_face"] += any(len(set(f)) < 3 for f in fs)
        st["repeated_face"] += len({tuple(sorted(f)) for f in fs}) < len(fs)
        st["edge_three_or_more_times"] += any(v >= 3 for v in cnt.values())
        st["unreferenced_vertex"] += len({x for f in fs for x in f}) < c["nv"]
        if c["exc"] == "":
            st["watertight_observed"] += c["wt"]
            st["winding_inconsistent_observed"] += not c["wc"]
            st["adjacent_pairs_observed"] += len(c["fa"]) > 0
            st["several_face_components_observed"] += len(c["split"]) > 1
            st["several_bodies_observed"] += c["bc"] > 1
            st["defect_clause_on_labelled_closed_manifold"] += bool(c["hasdefect"] and c["claim"] == 1)
            x = c["ccx"]
            st["min_len_left_a_component_out"] += bool(x["mode"] == "all" and len(x["f"]["scipy"]) < len(c["cc"]["scipy"]))
            st["nodes_none"] += x["mode"] == "none"
            st["nodes_subset"] += x["mode"] == "sub"
            w = c["wsplit"]["scipy"]
            st["only_watertight_returned_a_part"] += len(w) > 0
            st["only_watertight_repaired_a_part"] += any(-1 in part for part in w)
            st["only_watertight_left_a_component_out"] += len(w) < len(c["split"])
    return {k: int(v) for k, v in st.items()}


def check_clause_names():
    """harness/tlc.py reads one REJECT tuple per output line and TLC wraps lines at 80 columns:
    a clause name that is too long would be lost silently, so refuse to run with one."""
    import os
    import re
    from harness.common import SPEC_DIR
    text = open(os.path.join(SPEC_DIR, "Topology.tla")).read()
    text = text[text.index("validator"):]
    lits = re.findall(r'"([A-Za-z_0-9]+)"', text)
    whole = [x for x in lits if not x.startswith("_")]
    suffix = [x for x in lits if x.startswith("_")] or [""]
    what = re.findall(r'Ok\w+\([^"\n]*"(\w+)"\)', text)
    if not whole or max(map(len, whole)) > 48 or (what and max(map(len, what)) + max(map(len, suffix)) > 54):
        raise MachineryError("a clause name in Topology.tla is too long for one TLC output line")


def main(argv):
    tier = tier_from_args(argv)
    V = Verdict(PROP, tier)
    import_trimesh()
    check_clause_names()
    if "--replay" in argv:
        rp = json.load(open(argv[argv.index("--replay") + 1]))
        # the record number decides the order of reads and the option pair: keep it
        items = sorted({v["detail"]["src"]["k"]: (tuple(v["detail"]["src"]["flat"]), v["detail"]["src"]["nv"], "replay", 0,
                                                  v["detail"]["src"]["opt"]) for v in rp["violations"]}.items())
    else:
        items = work_items(tier)
    if len(items) < 1 or ("--replay" not in argv and len(items) < 3000):
        raise MachineryError("too few inputs enumerated")
    if "--replay" not in argv:
        items = list(enumerate(items))
    round_size = 24000   # records are a few kB each: keeps the parent below ~2 GB
    states = 0
    wall = 0.0
    total = 0
    bytag = {}
    stats = {}
    samples = []
    nrej = 0
    for r0 in range(0, len(items), round_size):
        part = items[r0:r0 + round_size]
        res = pmap(gen_records, part, chunk=max(50, min(1500, len(part) // 64 + 1)))
        cases = [c for r in res for c in r]
        if len(cases) != len(part):
            raise MachineryError("lost records")
        for (k, _), c in zip(part, cases):
            c["id"] = k
        rejects, st, w = tlc.validate_batches("c05", "Topology", cases, CFG, timeout=1500)
        states += st
        wall += w
        total += len(cases)
        byid = {c["id"]: c for c in cases}
        for cid, clause in sorted(rejects.items()):
            c = byid[cid]
            nrej += 1
            V.violation(clause, {k: v for k, v in c.items() if k != "id"})
        for c in cases:
            t = c["tag"].split(":")[0] if c["tag"].startswith("rnd") or ":" not in c["tag"] \
                else ":".join(c["tag"].split(":")[:2])
            bytag[t] = bytag.get(t, 0) + 1
        for k, v in input_stats(cases).items():
            stats[k] = stats.get(k, 0) + v
        print(f"  records {r0 + len(part)}/{len(items)} validated, {nrej} rejected", file=sys.stderr, flush=True)
        samples += [cases[len(cases) // 3], cases[-1]]
    if "--replay" not in argv:
        # the audit families must all be there, whatever the verdict
        fam = {}
        for t, cnt in bytag.items():
            fam[t.split(":")[0]] = fam.get(t.split(":")[0], 0) + cnt
        short = {f: fam.get(f, 0) for f, lo in FAMILY_MIN.items() if fam.get(f, 0) < lo}
        short.update({"dt:" + cn: bytag.get("dt:" + cn, 0) for cn in DTYPES if bytag.get("dt:" + cn, 0) < 8})
        if short or stats["vertex_index_65536_or_more"] < 20 or stats["vertex_index_2_31_or_more"] < 150:
            raise MachineryError(f"a family of the enumeration came out nearly empty: {short} {stats}")
    if "--replay" not in argv and not V.violations:
        # nothing was rejected, so the recorded values are the reference's: make sure the
        # interesting situations were really met
        if stats["defect_clause_on_labelled_closed_manifold"] < 10 or stats["watertight_observed"] < 10 \
                or stats["adjacent_pairs_observed"] < 100 or stats["edge_three_or_more_times"] < 100 \
                or stats["min_len_left_a_component_out"] < 200 or stats["nodes_none"] < 500 \
                or stats["nodes_subset"] < 500 or stats["only_watertight_returned_a_part"] < 50 \
                or stats["only_watertight_repaired_a_part"] < 5 or stats["only_watertight_left_a_component_out"] < 500 \
                or stats["free_with_components"] < 40 \
                or stats["gauss_records_with_5_or_more_small_defects"] < 15 or stats["gauss_small_defect_vertices"] < 300:
            raise MachineryError(f"enumeration nearly empty: {stats}")
    cov = {
        "states": states, "transitions": states,
        "traces_validated_against_impl": total,
        "records_per_family": bytag,
        "exercised": stats,
        "engines": list(ENGINES),
        "rejected": nrej,
        "tlc_wall_s": round(wall, 1),
        "samples": samples[:4],
    }
    return V.finish("model_checking", cov, assumptions=[
        "face arrays of at most 3 faces over 4 vertices exhaustively (2 faces in the quick tier); larger arrays by seeded "
        "growth along shared edges and a library of closed / non-manifold surfaces with flipped, repeated, removed and "
        "collapsed faces",
        "queries read on a fresh Trimesh(process=False); staleness after mutation is property C01",
        "split(only_watertight=False) read with repair=False (hole filling is a documented extra of submesh, not a "
        "connectivity query); split(only_watertight=True) and the default split(): parts are whole components, an "
        "unrepaired part is watertight, every watertight component of >= 4 faces is returned, same answer for every "
        "engine; repaired parts and smaller components are not constrained",
        "a face with a repeated index counts once per face or once per corner at that vertex (both are direct counting), "
        "but vertex_faces, vertex_face_indices and vertex_degree must follow the same one of the two",
        "connected_components with min_len 1-4 and nodes = all / None / a random subset, engines scipy, networkx and None",
        "other integer dtypes / containers, empty face arrays, vertex indices up to 2^17 in meshes and up to 2^62 in the "
        "free functions (recorded through the order-preserving relabelling), queries read before the faces were replaced",
        "angle defects in fixed point: round(sum/2pi*1e6) within 5 units, vertices on the moment curve (no collinear triple); "
        "on the closed lattice surfaces with many nearly flat vertices (family gauss: lenses and height-field slabs, "
        "8-51 vertices, single defects 1e-8..1e-5) round(sum/2pi*1e8) within 2 + nv/50 units",
    ])


if __name__ == "__main__":
    try:
        sys.exit(main(sys.argv[1:]))
    except MachineryError as e:
        print("MACHINERY-ERROR:", e)
        sys.exit(2)
