"""C05 - topological queries equal their combinatorial definitions.

Reference semantics: spec/Topology.tla (directed edges stacked per face, sorted / unique
edges with occurrence counts, face adjacency = pairs of distinct faces on an edge occurring
exactly twice, unshared corners, vertex neighbours / incident faces / degree, face- and
vertex-connected components, Euler number, watertightness, winding consistency, closed
manifolds for the angle-defect clause).

code -> spec: Python enumerates face arrays (every array with few faces over 4 vertices,
seeded larger arrays grown along shared edges, a library of closed / non-manifold lattice
surfaces with flipped, duplicated, removed and collapsed faces), builds
trimesh.Trimesh(vertices, faces, process=False) on non-collinear lattice points, reads the
Trimesh properties and the free functions of trimesh.graph / trimesh.geometry with both graph
engines, projects them to JSON and has TLC validate every record against the reference.
Python computes no expected value.
"""
import itertools
import json
import logging
import sys

import numpy as np

from harness import tlc
from harness.common import (MachineryError, Verdict, import_trimesh, pmap, seed,
                            tier_from_args)

PROP = "C05"
CFG = "INIT Init\nNEXT Next\nINVARIANT Report\nINVARIANT RefSane\nCHECK_DEADLOCK FALSE\n"
ENGINES = ("scipy", "networkx")
MAXV = 14
# one point per vertex index on the moment curve: no three collinear, so every face with
# three distinct indices is a proper triangle; all coordinates are small exact integers
COORDS = np.array([[t, t * t, t * t * t] for t in range(1, MAXV + 1)], dtype=np.float64)
COORD_KEY = {tuple(c): k for k, c in enumerate(COORDS.tolist())}


# ------------------------------------------------------------------ projection
def ints(a):
    a = np.asarray(a)
    if a.size and a.dtype.kind not in "iub":
        raise TypeError("not integral")
    return a.astype(np.int64).reshape(-1).tolist()


def rows(a, width):
    a = np.asarray(a)
    if a.size == 0:
        return []
    if a.dtype.kind not in "iub" or a.ndim != 2 or a.shape[1] != width:
        raise TypeError("shape")
    return a.astype(np.int64).tolist()


def ragged(seq):
    return [[int(x) for x in r] for r in seq]


def decode_split(meshes, faces):
    """Sub-meshes -> lists of face ids of the parent.  Vertices are identified by their
    (unique) coordinates; a face of a part is matched to the lowest unused parent face with the
    same ordered index triple (identical parent faces are interchangeable), -1 if there is none."""
    pool = {}
    for fid, f in enumerate(faces):
        pool.setdefault(tuple(f), []).append(fid)
    pool = {k: v[::-1] for k, v in pool.items()}
    out = []
    for s in meshes:
        vid = [COORD_KEY.get(tuple(v), -1) for v in np.asarray(s.vertices).tolist()]
        comp = []
        for f in np.asarray(s.faces).tolist():
            key = tuple(vid[j] for j in f)
            comp.append(pool[key].pop() if pool.get(key) else -1)
        out.append(comp)
    return out


def observe(trimesh, item, k):
    faces, nv, tag, claim = item
    faces = [list(faces[j:j + 3]) for j in range(0, len(faces), 3)]
    n = len(faces)
    F = np.array(faces, dtype=np.int64).reshape(-1, 3)
    rec = {"faces": faces, "nv": nv, "tag": tag, "claim": claim, "exc": ""}
    g, geo = trimesh.graph, trimesh.geometry
    m = trimesh.Trimesh(vertices=COORDS[:nv].copy(), faces=F.copy(), process=False)
    if np.asarray(m.faces).tolist() != faces or len(m.vertices) != nv:
        raise MachineryError(f"Trimesh(process=False) did not keep the input arrays: {faces} {nv}")
    cur = ["?"]

    def rd(name, thunk):
        cur[0] = name
        return thunk()

    try:
        first = k % 2 == 0  # read the by-product before / after the value that computes it
        if first:
            rec["ef"] = rd("edges_face", lambda: ints(m.edges_face))
            rec["eui"] = rd("edges_unique_inverse", lambda: ints(m.edges_unique_inverse))
            rec["fae"] = rd("face_adjacency_edges", lambda: rows(m.face_adjacency_edges, 2))
            rec["wc"] = rd("is_winding_consistent", lambda: bool(m.is_winding_consistent))
        rec["edges"] = rd("edges", lambda: rows(m.edges, 2))
        rec["es"] = rd("edges_sorted", lambda: rows(m.edges_sorted, 2))
        rec["eu"] = rd("edges_unique", lambda: rows(m.edges_unique, 2))
        rec["fue"] = rd("faces_unique_edges", lambda: rows(m.faces_unique_edges, 3))
        rec["fa"] = rd("face_adjacency", lambda: rows(m.face_adjacency, 2))
        rec["fau"] = rd("face_adjacency_unshared", lambda: rows(m.face_adjacency_unshared, 2))
        rec["wt"] = rd("is_watertight", lambda: bool(m.is_watertight))
        if not first:
            rec["ef"] = rd("edges_face", lambda: ints(m.edges_face))
            rec["eui"] = rd("edges_unique_inverse", lambda: ints(m.edges_unique_inverse))
            rec["fae"] = rd("face_adjacency_edges", lambda: rows(m.face_adjacency_edges, 2))
            rec["wc"] = rd("is_winding_consistent", lambda: bool(m.is_winding_consistent))
        rec["vn"] = rd("vertex_neighbors", lambda: ragged(m.vertex_neighbors))
        rec["vf"] = rd("vertex_faces", lambda: ragged(np.asarray(m.vertex_faces).tolist()))
        rec["vd"] = rd("vertex_degree", lambda: ints(m.vertex_degree))
        rec["bc"] = rd("body_count", lambda: int(m.body_count))
        rec["eul"] = rd("euler_number", lambda: int(m.euler_number))
        rec["split"] = rd("split", lambda: decode_split(m.split(only_watertight=False, repair=False), faces))
        rec["vag"] = rd("vertex_adjacency_graph", lambda: [[int(a), int(b)] for a, b in g.vertex_adjacency_graph(m).edges()])
        # free functions
        e2, i2 = rd("faces_to_edges", lambda: geo.faces_to_edges(F.copy(), return_index=True))
        rec["f2e"], rec["f2ei"] = rows(e2, 2), ints(i2)
        a2, ae2 = rd("graph.face_adjacency", lambda: g.face_adjacency(faces=F.copy(), return_edges=True))
        rec["gfa"], rec["gfae"] = rows(a2, 2), rows(ae2, 2)
        rec["gfam"] = rd("graph.face_adjacency_m", lambda: rows(g.face_adjacency(mesh=m), 2))
        rec["vfi"] = rd("vertex_face_indices", lambda: ragged(np.asarray(
            geo.vertex_face_indices(nv, F.copy(), m.faces_sparse)).tolist()))
        adj = np.asarray(m.face_adjacency).reshape(-1, 2)
        vedges = np.asarray(m.edges if first else m.edges_unique).reshape(-1, 2)
        rec["cc"], rec["vcc"], rec["gsplit"] = {}, {}, {}
        for e in ENGINES:
            rec["cc"][e] = rd("components_f:" + e, lambda: ragged(
                g.connected_components(adj.copy(), nodes=np.arange(n), min_len=1, engine=e)))
            rec["vcc"][e] = rd("components_v:" + e, lambda: ragged(
                g.connected_components(vedges.copy(), nodes=np.arange(nv), engine=e)))
            rec["gsplit"][e] = rd("graph.split:" + e, lambda: decode_split(
                g.split(m, only_watertight=False, engine=e, repair=False), faces))
        rec["ccl"] = rd("component_labels_f", lambda: ints(g.connected_component_labels(adj.copy(), node_count=n)))
        rec["vccl"] = rd("component_labels_v", lambda: ints(g.connected_component_labels(vedges.copy(), node_count=nv)))
        w = rd("graph.is_watertight", lambda: g.is_watertight(np.asarray(m.edges).copy(), np.asarray(m.edges_sorted).copy())
               if first else g.is_watertight(np.asarray(m.edges).copy()))
        rec["gwt"], rec["gwc"] = bool(w[0]), bool(w[1])
        # angle defects: only where every face is a proper triangle
        rec["hasdefect"] = all(len(set(f)) == 3 for f in faces)
        rec["defect"] = 0
        if rec["hasdefect"]:
            tot = rd("vertex_defects", lambda: float(np.sum(m.vertex_defects)))
            if not np.isfinite(tot):
                raise ValueError("nonfinite")
            rec["defect"] = int(round(tot / (2.0 * np.pi) * 1e6))
    except MachineryError:
        raise
    except BaseException as e:  # noqa
        rec["exc"] = f"{cur[0]}:{type(e).__name__}"[:44]
    return rec


def gen_records(chunk):
    trimesh = import_trimesh()
    logging.getLogger("trimesh").setLevel(logging.CRITICAL)
    return [observe(trimesh, item, k) for k, item in chunk]


# ------------------------------------------------------------------ inputs
def pick_nv(flat, k, lo=4):
    top = max(flat) + 1
    return max(top, [top, lo, top + 1, lo + 2][(k + seed()) % 4])


def exhaustive(nmax, V=4):
    k = 0
    for n in range(1, nmax + 1):
        for flat in itertools.product(range(V), repeat=3 * n):
            yield (flat, pick_nv(flat, k, V), f"exh{n}", 0)
            k += 1


def grown(rs, n, V):
    """n faces over V vertices: faces attached along existing edges in either direction,
    repeated / reversed / rotated copies, collapsed corners, and uniform faces"""
    faces = []
    for _ in range(n):
        u = rs.rand()
        if faces and u < 0.55:
            f = faces[rs.randint(len(faces))]
            j = rs.randint(3)
            a, b = f[j], f[(j + 1) % 3]
            if rs.rand() < 0.7:
                a, b = b, a
            c = rs.randint(V)
            new = [a, b, c]
            r = rs.randint(3)
            new = new[r:] + new[:r]
        elif faces and u < 0.70:
            f = list(faces[rs.randint(len(faces))])
            r = rs.randint(3)
            new = f[r:] + f[:r]
            if rs.rand() < 0.5:
                new = new[::-1]
        elif u < 0.90:
            new = [int(x) for x in rs.choice(V, 3, replace=False)]
        else:
            new = [int(x) for x in rs.randint(V, size=3)]
        faces.append([int(x) for x in new])
    return faces


def sampled(count, ns, Vs, rs):
    for k in range(count):
        n = ns[k % len(ns)]
        V = Vs[(k // len(ns)) % len(Vs)]
        if k % 3 == 0:
            faces = rs.randint(V, size=(n, 3)).tolist()
        else:
            faces = grown(rs, n, V)
        flat = tuple(int(x) for f in faces for x in f)
        extra = [0, 0, 1, 2][rs.randint(4)]
        nv = max(max(flat) + 1, V if rs.rand() < 0.5 else max(flat) + 1) + extra
        yield (flat, min(nv, MAXV), f"rnd{n}", 0)


def quads(qs):
    out = []
    for a, b, c, d in qs:
        out += [[a, b, c], [a, c, d]]
    return out


def library():
    """name -> (faces, vertex count, is a closed manifold)"""
    tet = [[0, 2, 1], [0, 1, 3], [1, 2, 3], [0, 3, 2]]
    octa = [[0, 2, 4], [2, 1, 4], [1, 3, 4], [3, 0, 4], [2, 0, 5], [1, 2, 5], [3, 1, 5], [0, 3, 5]]
    cube = quads([[0, 2, 3, 1], [4, 5, 7, 6], [0, 1, 5, 4], [2, 6, 7, 3], [0, 4, 6, 2], [1, 3, 7, 5]])
    vid = lambda i, j: 3 * (i % 3) + (j % 3)
    torus = quads([[vid(i, j), vid(i + 1, j), vid(i + 1, j + 1), vid(i, j + 1)] for i in range(3) for j in range(3)])
    sh = lambda fs, mp: [[mp[x] for x in f] for f in fs]
    return {
        "tetrahedron": (tet, 4, True),
        "octahedron": (octa, 6, True),
        "cube": (cube, 8, True),
        "torus3x3": (torus, 9, True),
        "two_tetrahedra": (tet + sh(tet, [4, 5, 6, 7]), 8, True),
        "tetrahedra_sharing_vertex": (tet + sh(tet, [3, 4, 5, 6]), 7, False),
        "tetrahedra_sharing_edge": (tet + sh(tet, [2, 3, 4, 5]), 6, False),
        "pillow": ([[0, 1, 2], [0, 2, 1]], 3, True),
        "disc_fan": ([[0, 1, 2], [0, 2, 3], [0, 3, 4], [0, 4, 1]], 5, False),
        "moebius": ([[0, 1, 2], [1, 3, 2], [2, 3, 4], [3, 0, 4], [4, 0, 1]], 5, False),
    }


def variants(rs, per):
    for name, (base, nv0, closed) in library().items():
        for k in range(per):
            faces = [list(f) for f in base]
            nv, claim, ops = nv0, (1 if closed else 2), []
            if k >= 1:
                perm = rs.permutation(nv0)
                faces = [[int(perm[x]) for x in f] for f in faces]
                faces = [f[r:] + f[:r] for f, r in zip(faces, rs.randint(3, size=len(faces)))]
                order = rs.permutation(len(faces))
                faces = [faces[j] for j in order]
            kind = 0 if k < 2 else (k - 2) % 7 + 1
            if kind == 1:      # flip some faces (still the same closed surface, winding broken)
                for j in rs.choice(len(faces), 1 + rs.randint(min(3, len(faces))), replace=False):
                    faces[j] = faces[j][::-1]
                ops.append("flip")
            elif kind == 2:    # flip all: winding consistent again
                faces = [f[::-1] for f in faces]
                ops.append("flipall")
            elif kind == 3:    # duplicate a face, same or reversed
                f = faces[rs.randint(len(faces))]
                faces.insert(rs.randint(len(faces) + 1), f[::-1] if rs.rand() < 0.5 else list(f))
                claim = 2
                ops.append("dup")
            elif kind == 4:    # remove one or two faces
                if len(faces) > 2:
                    for _ in range(1 + rs.randint(2)):
                        faces.pop(rs.randint(len(faces)))
                    claim = 2
                    ops.append("remove")
            elif kind == 5:    # collapse a corner of one face
                f = faces[rs.randint(len(faces))]
                j = rs.randint(3)
                f[j] = f[(j + 1) % 3]
                claim = 2
                ops.append("collapse")
            elif kind == 6:    # unreferenced vertices
                nv += 1 + rs.randint(2)
                claim = 2
                ops.append("unreferenced")
            elif kind == 7:    # several at once, unlabelled
                for j in rs.choice(len(faces), 2, replace=False):
                    faces[j] = faces[j][::-1]
                faces.append(list(faces[0]))
                if rs.rand() < 0.5:
                    faces.pop(rs.randint(len(faces)))
                nv += rs.randint(2)
                claim = 0
                ops.append("mixed")
            flat = tuple(int(x) for f in faces for x in f)
            yield (flat, nv, "lib:" + name + ":" + "+".join(ops or ["base"]), claim)


def work_items(tier):
    rs = np.random.RandomState(seed() + 505)
    if tier == "thorough":
        items = list(exhaustive(3))
        items += list(sampled(60000, (3, 4, 5, 6, 7), (4, 5, 6, 7, 8), rs))
        items += list(variants(rs, 150))
    else:
        items = list(exhaustive(2))
        items += list(sampled(4500, (3, 4), (4, 5, 6), rs))
        items += list(variants(rs, 16))
    return items


def input_stats(cases):
    st = {"degenerate_face": 0, "repeated_face": 0, "edge_three_or_more_times": 0, "unreferenced_vertex": 0,
          "watertight_observed": 0, "winding_inconsistent_observed": 0, "adjacent_pairs_observed": 0,
          "several_face_components_observed": 0, "several_bodies_observed": 0,
          "defect_clause_on_labelled_closed_manifold": 0}
    for c in cases:
        fs = c["faces"]
        cnt = {}
        for f in fs:
            for j in range(3):
                e = tuple(sorted((f[j], f[(j + 1) % 3])))
                cnt[e] = cnt.get(e, 0) + 1
        st["degenerate_face"] += any(len(set(f)) < 3 for f in fs)
        st["repeated_face"] += len({tuple(sorted(f)) for f in fs}) < len(fs)
        st["edge_three_or_more_times"] += any(v >= 3 for v in cnt.values())
        st["unreferenced_vertex"] += len({x for f in fs for x in f}) < c["nv"]
        if c["exc"] == "":
            st["watertight_observed"] += c["wt"]
            st["winding_inconsistent_observed"] += not c["wc"]
            st["adjacent_pairs_observed"] += len(c["fa"]) > 0
            st["several_face_components_observed"] += len(c["split"]) > 1
            st["several_bodies_observed"] += c["bc"] > 1
            st["defect_clause_on_labelled_closed_manifold"] += bool(c["hasdefect"] and c["claim"] == 1)
    return {k: int(v) for k, v in st.items()}


def check_clause_names():
    """harness/tlc.py reads one REJECT tuple per output line and TLC wraps lines at 80 columns:
    a clause name that is too long would be lost silently, so refuse to run with one."""
    import os
    import re
    from harness.common import SPEC_DIR
    text = open(os.path.join(SPEC_DIR, "Topology.tla")).read()
    text = text[text.index("validator"):]
    lits = re.findall(r'"([A-Za-z_0-9]+)"', text)
    whole = [x for x in lits if not x.startswith("_")]
    suffix = [x for x in lits if x.startswith("_")] or [""]
    what = re.findall(r'Ok\w+\([^"\n]*"(\w+)"\)', text)
    if not whole or max(map(len, whole)) > 48 or (what and max(map(len, what)) + max(map(len, suffix)) > 54):
        raise MachineryError("a clause name in Topology.tla is too long for one TLC output line")


def main(argv):
    tier = tier_from_args(argv)
    V = Verdict(PROP, tier)
    import_trimesh()
    check_clause_names()
    if "--replay" in argv:
        rp = json.load(open(argv[argv.index("--replay") + 1]))
        items = [(tuple(x for f in v["detail"]["faces"] for x in f), v["detail"]["nv"], "replay", 0)
                 for v in rp["violations"]]
    else:
        items = work_items(tier)
    if len(items) < 1 or ("--replay" not in argv and len(items) < 3000):
        raise MachineryError("too few inputs enumerated")
    items = list(enumerate(items))
    round_size = 48000
    states = 0
    wall = 0.0
    total = 0
    bytag = {}
    stats = {}
    samples = []
    nrej = 0
    for r0 in range(0, len(items), round_size):
        part = items[r0:r0 + round_size]
        res = pmap(gen_records, part, chunk=max(50, min(1500, len(part) // 64 + 1)))
        cases = [c for r in res for c in r]
        if len(cases) != len(part):
            raise MachineryError("lost records")
        for (k, _), c in zip(part, cases):
            c["id"] = k
        rejects, st, w = tlc.validate_batches("c05", "Topology", cases, CFG, timeout=1500)
        states += st
        wall += w
        total += len(cases)
        byid = {c["id"]: c for c in cases}
        for cid, clause in sorted(rejects.items()):
            c = byid[cid]
            nrej += 1
            V.violation(clause, {k: v for k, v in c.items() if k != "id"})
        for c in cases:
            t = c["tag"].split(":")[0] if not c["tag"].startswith("lib:") else "lib:" + c["tag"].split(":")[1]
            bytag[t] = bytag.get(t, 0) + 1
        for k, v in input_stats(cases).items():
            stats[k] = stats.get(k, 0) + v
        samples += [cases[len(cases) // 3], cases[-1]]
    if "--replay" not in argv and not V.violations:
        # nothing was rejected, so the recorded values are the reference's: make sure the
        # interesting situations were really met
        if stats["defect_clause_on_labelled_closed_manifold"] < 10 or stats["watertight_observed"] < 10 \
                or stats["adjacent_pairs_observed"] < 100 or stats["edge_three_or_more_times"] < 100:
            raise MachineryError(f"enumeration nearly empty: {stats}")
    cov = {
        "states": states, "transitions": states,
        "traces_validated_against_impl": total,
        "records_per_family": bytag,
        "exercised": stats,
        "engines": list(ENGINES),
        "rejected": nrej,
        "tlc_wall_s": round(wall, 1),
        "samples": samples[:4],
    }
    return V.finish("model_checking", cov, assumptions=[
        "face arrays of at most 3 faces over 4 vertices exhaustively (2 faces in the quick tier); larger arrays by seeded "
        "growth along shared edges and a library of closed / non-manifold surfaces with flipped, repeated, removed and "
        "collapsed faces",
        "queries read on a fresh Trimesh(process=False); staleness after mutation is property C01",
        "split read with repair=False (hole filling is a documented extra of submesh, not a connectivity query)",
        "angle defects in fixed point: round(sum/2pi*1e6) within 5 units, vertices on the moment curve (no collinear triple)",
    ])


if __name__ == "__main__":
    try:
        sys.exit(main(sys.argv[1:]))
    except MachineryError as e:
        print("MACHINERY-ERROR:", e)
        sys.exit(2)
