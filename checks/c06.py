"""C06 - row grouping and uniqueness primitives are exact.

Reference semantics: spec/Grouping.tla (partitions, first occurrences, inverses, runs with
wrap-around, per-group minima) over a small abstract ordered alphabet.  The harness
enumerates every small abstract array, embeds the alphabet order-preservingly into int64
values below / at / above every bit-packing threshold (2^15, 2^20, 2^31, 2^63), negatives,
mixed signs, other integer dtypes and floats inside rounding cells, calls the real
trimesh.grouping functions, records (abstract input, options, result) and has TLC validate
every record in batch against the reference (code -> spec).

Coverage audit (checks/c06_ext.py): empty input of every function, stored dtypes at their own
limits (int8 .. uint64 above 2^63, bool, strings, exact floats), option combinations and entry
points never taken before (return flags / minlength / values of the 1-D uniques,
unique_value_in_row(unique=), hashable_rows(allow_int), unique_float, blocks(digits=)), memory
layouts and containers, larger seeded arrays, unique_bincount on every magnitude (isolated child
processes), and for all of those: input unchanged, second call identical.  An empty index group
is no longer ignored: a partition has no empty class.
"""
import itertools
import sys

import numpy as np

from checks import c06_ext
from harness import tlc
from harness.common import (MachineryError, Verdict, import_trimesh, pmap, seed,
                            tier_from_args)

PROP = "C06"
CFG = "INIT Init\nNEXT Next\nINVARIANT Report\nINVARIANT RefSane\nCHECK_DEADLOCK FALSE\n"


def thresholds(cols):
    if cols <= 4:
        return (2 ** (64 // cols - 1)) - 1
    return 2 ** 31 - 1


def int_embeddings(cols, nsym):
    """name -> list of python ints (image of symbols 0..nsym-1), injective"""
    T = thresholds(cols)
    k = nsym - 1
    e = {
        "small": list(range(nsym)),
        "neg": [s - 1 for s in range(nsym)],
        "below": [T - 1 - k + s for s in range(nsym)],          # max = T-1: packing used at its limit
        "at": [T - k + s for s in range(nsym)],                 # max = T
        "above": [T + 1 - k + s for s in range(nsym)],
        "negbelow": [-(T - 1) + s for s in range(nsym)],        # min = -T+1
        "negat": [-T + s for s in range(nsym)],
        "negabove": [-T - 1 + s for s in range(nsym)],
        "spread": [-(T - 1), 0, T - 1, 1, -1, 2][:nsym],
        "spread_at": [-T, 0, T, 1, -1, 2][:nsym],
        "pow2": [T + 1, 0, (T + 1) // 2, 1, 2, 3][:nsym],
    }
    if T < 2 ** 62:
        e["huge"] = [2 ** 62 + s for s in range(nsym)]
        e["neghuge"] = [-(2 ** 62) - s for s in range(nsym)]
        e["int64max"] = [2 ** 63 - 1 - s for s in range(nsym)]
        e["int64min"] = [-(2 ** 63) + s for s in range(nsym)]
    return {n: v for n, v in e.items() if all(-(2 ** 63) <= x < 2 ** 63 for x in v) and len(set(v)) == nsym}


def embed_int(arr, image, dtype=np.int64):
    img = np.array(image, dtype=np.int64)
    a = np.asarray(arr, dtype=np.int64)
    return img[a].astype(dtype) if a.size else a.reshape(np.shape(arr)).astype(dtype)


def embed_float(arr, digits, rs):
    a = np.asarray(arr, dtype=np.float64)
    d = 8 if digits is None else digits
    jitter = rs.uniform(-0.3, 0.3, size=a.shape)
    return (a + jitter) * 10.0 ** (-d)


def tolist(x):
    return np.asarray(x).tolist()


# ------------------------------------------------------------------ abstract inputs
def row_arrays(tier):
    """(cols, abstract 2D arrays as lists of rows)"""
    out = []
    big = tier == "thorough"
    for n in range(0, 6 if big else 5):
        for seq in itertools.product(range(3), repeat=n):
            out.append((1, [[s] for s in seq]))
    rows2 = list(itertools.product(range(3), repeat=2))
    for n in range(0, 5 if big else 4):
        for seq in itertools.product(rows2, repeat=n):
            out.append((2, [list(r) for r in seq]))
    pool3 = [(0, 0, 1), (0, 1, 0), (1, 0, 0), (0, 0, 0), (2, 2, 2), (1, 0, 2), (2, 0, 1)]
    pool4 = [(0, 0, 0, 1), (0, 0, 1, 0), (0, 1, 0, 0), (1, 0, 0, 0), (0, 0, 0, 0), (2, 2, 2, 2), (2, 0, 0, 2)]
    pool5 = [(0, 0, 0, 0, 1), (1, 0, 0, 0, 0), (0, 0, 1, 0, 0), (2, 2, 2, 2, 2), (0, 0, 0, 0, 0)]
    for cols, pool in ((3, pool3), (4, pool4), (5, pool5)):
        for n in range(1, 5 if big else 4):
            for seq in itertools.product(pool, repeat=n):
                out.append((cols, [list(r) for r in seq]))
    return out


def gen_row_cases(chunk):
    trimesh = import_trimesh()
    g = trimesh.grouping
    rs = np.random.RandomState(seed() + 11)
    cases = []

    def call(fn, rec, f):
        rec = dict(rec)
        rec["fn"] = fn
        try:
            rec["res"] = f()
            rec["exc"] = ""
        except BaseException as e:  # noqa
            rec["res"] = []
            rec["exc"] = type(e).__name__
        cases.append(rec)

    for cols, rows, embs in chunk:
        n = len(rows)
        abstract = np.array(rows, dtype=np.int64).reshape(n, cols)
        for ename, image, dtype in embs:
            if ename.startswith("float"):
                digits = {"float8": None, "float3": 3, "float0": 0}[ename]
                data = embed_float(abstract, digits, rs)
            else:
                digits = None
                data = embed_int(abstract, image, dtype)
            base = {"data": rows, "emb": ename, "cols": cols}
            for ko in ((True,) if ename.startswith("pair") else (False, True)):
                call("unique_rows", dict(base, keep_order=ko),
                     lambda: [tolist(x) for x in g.unique_rows(data, digits=digits, keep_order=ko)])
            for rc in ((None, 2) if ename.startswith("pair") else (None, 1, 2, 3)):
                def run():
                    r = g.group_rows(data, require_count=rc, digits=digits)
                    if rc == 1:
                        return [[int(x)] for x in r]
                    return [tolist(x) for x in r]
                call("group_rows", dict(base, require_count=-1 if rc is None else rc), run)
    return cases


def pair_work(tier):
    """Two-row arrays aimed at the bit-packing fields: for every pair of columns every
    combination of a 5-symbol alphabet {0, 1, 2, -H, +H} in those columns of both rows, the
    other columns equal; H at, just below and just above the packing limit of that width."""
    work = []
    for cols in (2, 3, 4):
        T = thresholds(cols)
        images = [("pair_below", [0, 1, 2, -(T - 1), T - 1]), ("pair_at", [0, 1, 2, -T, T]),
                  ("pair_above", [0, 1, 2, -(T + 1), T + 1]),
                  # far outside the packing range with small negatives: wrap-around of the unsigned offset
                  ("pair_double", [0, 1, -1, -2 * (T + 1), 2 * (T + 1), -2])]
        if tier == "thorough":
            images += [("pair_half", [0, 1, 2, -((T + 1) // 2), (T + 1) // 2]),
                       ("pair_quad", [0, 1, -1, -4 * (T + 1), 4 * (T + 1), 3])]
        for name, img in images:
            if max(abs(x) for x in img) >= 2 ** 63:
                continue
            for j in range(cols):
                for k in range(j + 1, cols):
                    for fill in (0, 1):
                        for a, b, a2, b2 in itertools.product(range(len(img)), repeat=4):
                            if (a, b) > (a2, b2):
                                continue
                            r1 = [fill] * cols
                            r2 = [fill] * cols
                            r1[j], r1[k], r2[j], r2[k] = a, b, a2, b2
                            work.append((cols, [r1, r2], [(name, img, np.int64)]))
    return work


def seq_cases(tier):
    """1-D functions on literal / embedded sequences; returns list of thunks producing records"""
    trimesh = import_trimesh()
    g = trimesh.grouping
    cases = []
    big = tier == "thorough"

    def call(fn, rec, f):
        rec = dict(rec)
        rec["fn"] = fn
        try:
            rec["res"] = f()
            rec["exc"] = ""
        except BaseException as e:  # noqa
            rec["res"] = []
            rec["exc"] = type(e).__name__
        cases.append(rec)

    images = {"small": [0, 1, 2], "big": [0, 2 ** 40, 2 ** 41], "neg": [0, -5, 7], "i64": [0, 2 ** 62, -(2 ** 62)]}
    maxn = 8 if big else 7
    for n in range(1, maxn):
        for seq in itertools.product(range(3), repeat=n):
            seq = list(seq)
            for iname, img in images.items():
                if iname != "small" and (n > 5 or sum(seq) % 2):
                    continue
                data = embed_int(seq, img)
                for wrap in (False, True):
                    for nz in (False, True):
                        for mn in (1, 2, 3, 4):
                            for mx in (0, 1, 2, 3, 4):
                                if mx and mx < mn:
                                    continue
                                call("blocks", {"data": seq, "wrap": wrap, "only_nonzero": nz, "min_len": mn,
                                                "max_len": mx, "emb": iname},
                                     lambda: [tolist(b) for b in g.blocks(
                                         data, min_len=mn, max_len=(np.inf if mx == 0 else mx), wrap=wrap,
                                         only_nonzero=nz)])
            if n <= 6:
                for iname, img in (("small", [0, 1, 2]), ("rev", [9, 4, -3]), ("big", [2 ** 62, 0, -(2 ** 62)])):
                    data = embed_int(seq, img)
                    inv_img = {v: k for k, v in enumerate(img)}
                    call("unique_ordered", {"data": seq, "emb": iname},
                         lambda: [tolist(x) for x in g.unique_ordered(data, return_index=True, return_inverse=True)[1:]])
                    call("merge_runs", {"data": seq, "emb": iname},
                         lambda: [inv_img[int(x)] for x in g.merge_runs(data)])
                    for mn, mx in ((0, 0), (2, 0), (0, 2), (2, 3), (1, 1)):
                        call("group", {"data": seq, "min_len": mn, "max_len": mx, "emb": iname},
                             lambda: [tolist(x) for x in g.group(data, min_len=mn or None, max_len=mx or None)])
                # float sequences for merge_runs / group
                fdata = np.array(seq, dtype=float) * 1e-3
                call("merge_runs", {"data": seq, "emb": "float3"},
                     lambda: [int(round(x * 1e3)) for x in g.merge_runs(fdata, digits=4)])
                lit = np.array([s * 3 for s in seq], dtype=np.int64)
                call("unique_bincount", {"data": [s * 3 for s in seq], "emb": "literal"},
                     lambda: [tolist(x) for x in g.unique_bincount(lit, return_inverse=True, return_counts=True)])
            if n <= 5:
                for labels in itertools.product(range(2), repeat=n):
                    if n > 4 and labels[0] != 0:
                        continue
                    gl = np.array([3 + 4 * x for x in labels])
                    call("group_min", {"groups": [3 + 4 * x for x in labels], "data": seq, "emb": "small"},
                         lambda: tolist(g.group_min(gl, np.array(seq))))
    # unique_value_in_row on every 3-column array of <= 3 rows over 3 symbols (face-like)
    rows3 = list(itertools.product(range(3), repeat=3))
    for n in (1, 2):
        for rows in itertools.product(rows3, repeat=n):
            arr = np.array(rows, dtype=np.int64)
            call("unique_value_in_row", {"data": [list(r) for r in rows], "emb": "small"},
                 lambda: g.unique_value_in_row(arr).tolist())
            call("unique_value_in_row", {"data": [list(r) for r in rows], "emb": "neg8"},
                 lambda: g.unique_value_in_row((arr - 1).astype(np.int8)).tolist())
    # boolean_rows
    rows2 = list(itertools.product(range(2), repeat=2)) + [(2, 2)]
    for na in range(1, 4):
        for nb in range(1, 3):
            for A in itertools.product(rows2, repeat=na):
                for B in itertools.product(rows2, repeat=nb):
                    for iname, img in (("small", [0, 1, 2]), ("big", [-(2 ** 40), 0, 2 ** 62])):
                        inv_img = {v: k for k, v in enumerate(img)}
                        a = embed_int(A, img)
                        b = embed_int(B, img)
                        for opn, op in (("intersect", np.intersect1d), ("setdiff", np.setdiff1d)):
                            call("boolean_rows", {"a": [list(r) for r in A], "b": [list(r) for r in B], "op": opn, "emb": iname},
                                 lambda: [[inv_img[int(x)] for x in row] for row in g.boolean_rows(a, b, operation=op)])
    return cases


def main(argv):
    tier = tier_from_args(argv)
    V = Verdict(PROP, tier)
    import_trimesh()
    # unique_bincount on huge / extreme values runs in short-lived children (started first)
    iso_procs = c06_ext.iso_start(tier)
    arrays = row_arrays(tier)
    work = []
    for idx, (cols, rows) in enumerate(arrays):
        nsym = 3
        embs = [(n, img, np.int64) for n, img in int_embeddings(cols, nsym).items()]
        embs.append(("small_i32", [0, 1, 2], np.int32))
        embs.append(("small_u8", [0, 1, 2], np.uint8))
        embs.append(("bool_like", [0, 1, 1][:nsym] if False else [0, 1, 2], np.int16))
        embs += [("float8", None, None), ("float3", None, None), ("float0", None, None)]
        if tier == "quick" and len(rows) >= 3:
            # rotate embeddings for the larger arrays; every embedding still meets every array size
            embs = [e for j, e in enumerate(embs) if (j + idx) % 3 == 0 or e[0] in ("below", "at", "spread")]
        work.append((cols, rows, embs))
    n_small = len(work)
    work += pair_work(tier)
    res = pmap(gen_row_cases, work, chunk=400)
    cases = [c for r in res for c in r]
    cases += seq_cases(tier)
    n_base = len(cases)
    for c in cases:
        c["fam"] = "base"
    # ---- audit families
    ext = pmap(c06_ext.gen_ext, c06_ext.ext_work(tier, arrays), chunk=100)
    cases += [c for r in ext for c in r]
    iso_cases, iso_info = c06_ext.iso_collect(tier, iso_procs)
    cases += iso_cases
    for k, c in enumerate(cases):
        c["id"] = k
    if n_base < 1000:
        raise MachineryError("too few cases")
    byfam, fam_fns, fam_embs = {}, {}, {}
    for c in cases:
        byfam[c["fam"]] = byfam.get(c["fam"], 0) + 1
        fam_fns.setdefault(c["fam"], set()).add(c["fn"])
        fam_embs.setdefault(c["fam"], set()).add(c["emb"].split("@")[0])
    need = {"empty": (1000, 6, 10), "dtype": (15000, 6, 10), "layout": (15000, 8, 3), "rows_ext": (20000, 3, 9),
            "large": (4000, 9, 9), "option": (5000, 5, 10), "bincount": (1500, 1, 9)}
    for fam, (n_min, fn_min, emb_min) in need.items():
        if byfam.get(fam, 0) < n_min or len(fam_fns.get(fam, ())) < fn_min or len(fam_embs.get(fam, ())) < emb_min:
            raise MachineryError("audit family %s nearly empty: %d records, %d functions, %d embeddings" % (
                fam, byfam.get(fam, 0), len(fam_fns.get(fam, ())), len(fam_embs.get(fam, ()))))
    if any(v["reported"] + v["died_before"] != v["calls"] or v["calls"] < 100 for v in iso_info.values()):
        raise MachineryError("isolated unique_bincount accounting: %r" % (iso_info,))
    rejects, states, wall = tlc.validate_batches("c06", "Grouping", cases, CFG)
    # classify
    byfn = {}
    for c in cases:
        byfn[c["fn"]] = byfn.get(c["fn"], 0) + 1
    for cid, clause in sorted(rejects.items()):
        c = cases[cid]
        detail = {k: v for k, v in c.items() if k != "id"}
        V.violation(f"{c['fn']}:{clause}", detail)
    distinct_inputs = len({(c["fn"], str(c.get("data", c.get("a"))), str(c.get("b"))) for c in cases})
    cov = {
        "states": states, "transitions": states,
        "traces_validated_against_impl": len(cases),
        "cases_per_function": byfn,
        "cases_per_family": byfam,
        "functions_per_family": {k: sorted(v) for k, v in fam_fns.items()},
        "isolated_unique_bincount": iso_info,
        "history_flags_checked": sum(1 for c in cases if "pure" in c),
        "distinct_abstract_inputs": distinct_inputs,
        "rejected": len(rejects),
        "embeddings": sorted({c["emb"].split("@")[0] for c in cases}),
        "layouts": sorted({x for c in cases if "@" in c["emb"] for x in c["emb"].split("@")[1].split(",")}),
        "exhaustive": True,
        "tlc_wall_s": round(wall, 1),
        "samples": [cases[len(cases) // 7], cases[len(cases) // 2], cases[-1]],
    }
    return V.finish("model_checking", cov, assumptions=[
        "partition of rows is invariant under order-preserving injective embeddings of the alphabet",
        "arrays of at most 5 rows (rows functions) / 7 elements (sequence functions) over 3 symbols, plus seeded "
        "arrays of 6..40 rows / 6..24 elements",
        "unique_bincount is not run on values in 2^21..2^39 (one bin per value: 16 GiB at 2^31)",
        "python lists of ints above int64 and string rows are outside 'integer arrays'; a list of labels "
        "for group_min is outside its documented input",
    ])


if __name__ == "__main__":
    try:
        sys.exit(main(sys.argv[1:]))
    except MachineryError as e:
        print("MACHINERY-ERROR:", e)
        sys.exit(2)
