"""C15 - families added by the coverage audit (records judged by spec/Solids.tla).

placed     creation functions / primitive constructors called with a lattice placement against the same
           call without one, primitives after apply_transform (emitted by the history replay), and results
           that must not change when a second shape is built and edited (M = identity)
segment    cylinder / annulus given by `segment=`
inertia    boxes exactly, closed forms of Cylinder / Sphere primitives against the smooth tensor and nested
           inscribed tessellations
solid      (existing record type) polygons with slanted integer edges, clockwise / rolled rings, the manifold
           and default engines, multi-segment / axis-parallel / closed sweep paths, partial capped revolutions
           under placements, default section counts, magnitudes 2^-14 .. 2^20
series     primitives over their resolution parameter (constructor and edit-after-read)
"""
import numpy as np

from harness.common import MachineryError, seed

K = 10000
I3 = np.eye(3)
RZ = np.array([[0, -1, 0], [1, 0, 0], [0, 0, 1]], dtype=float)
RX = np.array([[1, 0, 0], [0, 0, -1], [0, 1, 0]], dtype=float)
RY = np.array([[0, 0, 1], [0, 1, 0], [-1, 0, 0]], dtype=float)
MIR = np.diag([-1.0, 1.0, 1.0])


def fp(x):
    return int(round(float(x) * K))


def T4(lin=I3, t=(0, 0, 0)):
    M = np.eye(4)
    M[:3, :3] = lin
    M[:3, 3] = t
    return M


# lattice similarity maps x |-> (L x + t) / den with L = num * signed permutation: (L, t, den)
LATTICE = {
    "translate": (I3, (3, -2, 5), 1),
    "rot": (RZ @ RX, (1, 1, 1), 1),
    "mirror": (MIR, (0, 2, 0), 1),
    "mirror_rot": (RX @ MIR, (2, 0, 0), 1),
    "half_shift_rot": (2 * (RY @ RZ), (1, -3, 5), 2),          # rigid, translation by half integers
    "mirror_z": (np.diag([1.0, 1.0, -1.0]), (-1, 0, 4), 1),
}
SIMILAR = {
    "scale_t": (2 * I3, (1, 0, 0), 1),                        # the map the history replay always used
    "scale_about_point": (2 * I3, (-1, 0, -2), 1),            # scale_matrix(2, origin=(1, 0, 2))
    "similarity": (RZ, (2, 4, 6), 2),                         # half size, quarter turn, shift (1, 2, 3)
    "shrink_about_point": (I3, (1, -2, 3), 2),                # scale_matrix(0.5, origin=(1, -2, 3))
}


def lattice_matrix(spec):
    L, t, den = spec
    return T4(np.array(L, dtype=float) / den, np.array(t, dtype=float) / den)


def lattice_fields(spec):
    L, t, den = spec
    return {"M": [[int(round(v)) for v in row] for row in np.array(L)], "t": [int(v) for v in t], "den": int(den)}


def meas(m, k=1.0):
    b = np.array(m.bounds, dtype=float) / k
    return {"b": [[fp(x) for x in b[0]], [fp(x) for x in b[1]]], "com": [fp(x / k) for x in np.array(m.center_mass)],
            "vol": fp(float(m.volume) / k ** 3), "area": fp(float(m.area) / k ** 2)}


ZERO = {"b": [[0, 0, 0], [0, 0, 0]], "com": [0, 0, 0], "vol": 0, "area": 0}


def placed_record(kind, params, spec, pre, post, exc=""):
    r = {"rec": "placed", "kind": kind, "params": params, "exc": exc, "pre": pre, "post": post, "tol": 3}
    r.update(lattice_fields(spec))
    return r


# ------------------------------------------------------------------ polygons
POLYS2 = {
    "tri345": ([[0, 0], [4, 0], [0, 3]], []),
    "tri_hole": ([[0, 0], [12, 0], [0, 9]], [[[1, 1], [5, 1], [1, 4]]]),
    "u": ([[0, 0], [6, 0], [6, 6], [4, 6], [4, 2], [2, 2], [2, 6], [0, 6]], []),
    "collinear": ([[0, 0], [2, 0], [4, 0], [4, 4], [2, 4], [0, 4], [0, 2]], []),
    "three_holes": ([[0, 0], [12, 0], [12, 4], [0, 4]], [[[1, 1], [3, 1], [3, 3], [1, 3]], [[5, 1], [7, 1], [7, 3], [5, 3]], [[9, 1], [11, 1], [11, 3], [9, 3]]]),
    "centered": ([[-1, -1], [1, -1], [1, 1], [-1, 1]], []),
}


def oriented(shell, holes, orient):
    sh = [list(p) for p in shell]
    hs = [[list(p) for p in h] for h in holes]
    if orient in ("cw", "all_cw"):
        sh = sh[::-1]
    if orient in ("holes_cw", "all_cw"):
        hs = [h[::-1] for h in hs]
    if orient == "rolled":
        sh = sh[2:] + sh[:2]
        hs = [h[1:] + h[:1] for h in hs]
    return sh, hs


CLOSED_PATHS = {
    "square": [[0, 0, 0], [5, 0, 0], [5, 5, 0], [0, 5, 0], [0, 0, 0]],
    "tri3d": [[0, 0, 0], [5, 0, 1], [2, 5, 3], [0, 0, 0]],
    "vertical_loop": [[0, 0, 0], [0, 0, 5], [5, 0, 5], [5, 0, 0], [0, 0, 0]],
}


def closed_path(name):
    if name in CLOSED_PATHS:
        return np.array(CLOSED_PATHS[name], dtype=float)
    a = np.linspace(0, 2 * np.pi, 13) * (-1 if name == "circle_rev" else 1)
    pts = np.column_stack([5 * np.cos(a), 5 * np.sin(a), np.zeros(len(a))])
    pts[-1] = pts[0]
    return pts


REVOLVED = ("cylinder", "cone", "annulus", "uv_sphere", "capsule", "uv_sphere16", "capsule16", "torus", "revolve_partial")


def audit_jobs(tier, all_polys):
    """(kind, params) jobs producing `solid` records; kinds are handled by make_audit_shape."""
    s = seed()
    jobs = []
    quick = tier == "quick"
    # --- extrusions: engines x ring orientation x polygon class
    names = list(all_polys)
    others = ["translate", "rot", "mirror", "mirror_rot"]
    for pi, pname in enumerate(names):
        if pname == "centered":
            continue
        new_poly = pname in POLYS2
        for oi, orient in enumerate(("ccw", "cw", "holes_cw", "rolled", "all_cw")):
            if orient in ("holes_cw", "all_cw") and not all_polys[pname][1]:
                continue
            for ei, eng in enumerate(("earcut", "triangle", "manifold", None)):
                if not new_poly and orient == "ccw" and eng in ("earcut", "triangle"):
                    continue   # the original grid
                for h in (1, -2) if quick else (1, 3, -2):
                    pls = ["none", others[(pi + oi + ei + s) % 4]] if quick else ["none"] + others
                    for pl in pls:
                        if quick and pl != "none" and (h == 1) == bool((pi + oi + ei + s) % 2):
                            continue      # the placed variant takes one of the two heights in turn
                        jobs.append(("extrude2", {"polygon": pname, "orient": orient, "engine": eng, "height": h, "placement": pl}))
    # --- straight sweeps: any direction, several collinear segments, every engine: still the prism
    dirs = ([2, 3, 6], [-2, -3, -6], [0, 0, 7], [0, 0, -7], [7, 0, 0], [-7, 0, 0], [0, 7, 0], [0, -7, 0], [6, -2, -3])
    n = 0
    for pname in ("square", "ell", "square_hole", "tri345", "tri_hole", "u"):
        for orient in ("ccw", "cw"):
            for d in dirs:
                for nseg in (1, 2, 5):
                    for roll in (None, 0.7):
                        n += 1
                        engs = (None, "triangle", "manifold")
                        for eng in ([engs[(n + s) % 3]] if quick else engs):
                            if nseg == 1 and eng is None and orient == "ccw" and d in ([2, 3, 6], [0, 0, 7]) and pname in ("square", "ell", "square_hole"):
                                continue   # the original grid
                            if quick and (n + n // 2 + n // 6 + n // 54 + s) % 3:
                                continue      # a third of the grid, staggered so that every value of every axis stays in
                            jobs.append(("sweep_prism2", {"polygon": pname, "orient": orient, "direction": d, "nseg": nseg, "roll": roll, "engine": eng}))
    # --- closed sweep paths
    for pname in ("centered", "tri345", "square_hole"):
        for path in ("square", "tri3d", "vertical_loop", "circle", "circle_rev"):
            for connect in (True, False):
                jobs.append(("sweep_closed", {"polygon": pname, "path": path, "connect": connect}))
    # --- partial capped revolutions under placements; explicit full angle
    for pname in ("ring", "wedge", "tri"):
        for e in range(1, 8):
            for sec in (1, 2, 3, 5) if quick else (1, 2, 3, 4, 5, 8):
                if e >= 4 * sec:
                    continue      # each section must span less than half a turn
                for pl in ("mirror", "rot", "mirror_rot", "half_shift_rot"):
                    if quick and (e + sec + len(pl) + s) % 2:
                        continue
                    jobs.append(("revolve2", {"profile": pname, "sections": sec, "angle64": 8 * e, "cap": True, "placement": pl}))
        for cap in (False, True):
            jobs.append(("revolve2", {"profile": pname, "sections": 5, "angle64": 64, "cap": cap, "placement": "none"}))
        # --- default section counts (sections=None): 32 per turn, so a sixty-fourth of a turn asks for none
        for a64 in (1, 2, 3, 5, 8, 16, 31, 40, 63):
            jobs.append(("revolve2", {"profile": pname, "sections": None, "angle64": a64, "cap": True, "placement": "none"}))
    for kind in ("cylinder", "cone", "annulus"):
        for pl in ("none", "mirror"):
            jobs.append(("defaults", {"kind": kind, "placement": pl}))
    if not quick:
        for kind in ("uv_sphere", "capsule", "torus"):
            jobs.append(("defaults", {"kind": kind, "placement": "none"}))
    # --- magnitudes: the same shapes at scales 2^e (exact in doubles), measures normalised by the scale
    for e in (-14, -10, -7, 7, 14, 20) if quick else (-14, -12, -10, -9, -7, -3, 3, 7, 10, 14, 17, 20):
        for kind in ("box", "cylinder", "cone", "annulus", "uv_sphere", "capsule", "uv_sphere16", "capsule16", "torus", "icosphere", "revolve_partial", "extrude", "sweep"):
            jobs.append(("magnitude", {"kind": kind, "exp2": e}))
    # --- aspect ratios: slender rods and flat discs (height = 2^e radii), and fine detail next to large faces
    #     (a pin of radius 2^-d on the axis of a unit cylinder): a real face may be arbitrarily small against the
    #     bounding box of the shape
    for e in (-12, -6, 6, 12, 14, 16) if quick else (-16, -14, -12, -9, -6, -3, 3, 6, 9, 12, 13, 14, 16, 18):
        for kind in ("cylinder", "cone", "annulus", "capsule", "torus", "Cylinder", "Capsule"):
            for sec in (8, 32):
                jobs.append(("aspect", {"kind": kind, "exp2": e, "sections": sec}))
    for d in (6, 9, 11) if quick else (4, 6, 8, 9, 10, 11, 12):
        for sec in (16, 64):
            for where in ("bottom", "top", "both"):
                jobs.append(("fine_detail", {"pin_exp2": -d, "sections": sec, "where": where}))
    # --- other entry points reaching the same code
    for ext in ([1, 2, 3], [4, 1, 2]):
        for lo in ([0, 0, 0], [-3, 2, 5]):
            jobs.append(("box_bounds", {"extents": ext, "lo": lo}))
    for sec in (3, 6):
        jobs.append(("annulus_rmin0", {"sections": sec}))
    return jobs


def make_audit_shape(tm, kind, p, polys, profiles, placements):
    """-> (mesh, genus, bodies, flat or None, scale)"""
    from shapely.geometry import Polygon
    c = tm.creation

    def place(name):
        if name in (None, "none"):
            return None
        if name in placements and placements[name] is not None:
            return placements[name]
        return lattice_matrix(LATTICE[name])
    if kind == "extrude2":
        shell, holes = polys[p["polygon"]]
        sh, hs = oriented(shell, holes, p["orient"])
        kw = {} if p["engine"] is None else {"engine": p["engine"]}
        m = c.extrude_polygon(Polygon(sh, hs), height=p["height"], transform=place(p["placement"]), **kw)
        flat = {"shell": shell, "holes": holes, "height": p["height"]}
        if p["placement"] == "none":
            flat.update({"bkind": "prism", "bounds_fp": [[fp(x) for x in m.bounds[0]], [fp(x) for x in m.bounds[1]]]})
        return m, -1, 1, flat, 1.0
    if kind == "sweep_prism2":
        shell, holes = polys[p["polygon"]]
        sh, hs = oriented(shell, holes, p["orient"])
        d = np.array(p["direction"], dtype=float)
        path = np.array([1.0, 2.0, 3.0]) + np.outer(np.linspace(0, 1, p["nseg"] + 1), d)
        ang = None if p["roll"] is None else np.full(len(path), p["roll"])
        kw = {} if p["engine"] is None else {"engine": p["engine"]}
        m = c.sweep_polygon(Polygon(sh, hs), path, angles=ang, **kw)
        return m, -1, 1, {"shell": shell, "holes": holes, "height": 7}, 1.0
    if kind == "sweep_closed":
        shell, holes = polys[p["polygon"]]
        poly = Polygon(np.array(shell) * 0.1, [np.array(h) * 0.1 for h in holes])
        m = c.sweep_polygon(poly, closed_path(p["path"]), connect=p["connect"])
        # a profile with a hole swept round a closed path bounds a tube inside a tube: two shells
        return m, -1, (2 if holes and p["connect"] else 1), None, 1.0
    if kind == "revolve2":
        prof = np.array(profiles[p["profile"]], dtype=float)
        ang = p["angle64"] * 2 * np.pi / 64
        m = c.revolve(prof, angle=ang, cap=p["cap"], sections=p["sections"], transform=place(p["placement"]))
        genus = 1 if (p["angle64"] == 64 and p["profile"] in ("ring", "tri")) else 0
        return m, genus, 1, None, 1.0
    if kind == "defaults":
        tr = place(p["placement"])
        k = p["kind"]
        if k == "cylinder":
            return c.cylinder(radius=1.5, height=2.0, transform=tr), 0, 1, None, 1.0
        if k == "cone":
            return c.cone(radius=1.0, height=3.0, transform=tr), 0, 1, None, 1.0
        if k == "annulus":
            return c.annulus(r_min=1.0, r_max=2.0, height=1.5, transform=tr), 1, 1, None, 1.0
        if k == "uv_sphere":
            return c.uv_sphere(radius=1.5, transform=tr), 0, 1, None, 1.0
        if k == "capsule":
            return c.capsule(height=2.0, radius=1.0, transform=tr), 0, 1, None, 1.0
        return c.torus(3.0, 1.0, transform=tr), 1, 1, None, 1.0
    if kind == "magnitude":
        k = 2.0 ** p["exp2"]
        sub = p["kind"]
        if sub == "box":
            return c.box(extents=[k, 2 * k, 3 * k]), 0, 1, None, k
        if sub == "cylinder":
            return c.cylinder(radius=1.5 * k, height=2 * k, sections=8), 0, 1, None, k
        if sub == "cone":
            return c.cone(radius=k, height=3 * k, sections=8), 0, 1, None, k
        if sub == "annulus":
            return c.annulus(r_min=k, r_max=2 * k, height=1.5 * k, sections=8), 1, 1, None, k
        if sub == "uv_sphere":
            return c.uv_sphere(radius=1.5 * k, count=[6, 6]), 0, 1, None, k
        if sub == "capsule":
            return c.capsule(height=2 * k, radius=k, count=[6, 6]), 0, 1, None, k
        if sub == "uv_sphere16":
            return c.uv_sphere(radius=1.5 * k, count=[16, 16]), 0, 1, None, k
        if sub == "capsule16":
            return c.capsule(height=2 * k, radius=k, count=[16, 16]), 0, 1, None, k
        if sub == "torus":
            return c.torus(3 * k, k, major_sections=8, minor_sections=6), 1, 1, None, k
        if sub == "icosphere":
            return c.icosphere(subdivisions=1, radius=2 * k), 0, 1, None, k
        if sub == "revolve_partial":
            return c.revolve(np.array(profiles["ring"], dtype=float) * k, angle=np.pi / 2, cap=True, sections=3), 0, 1, None, k
        shell, holes = polys["square_hole"]
        poly = Polygon(np.array(shell, dtype=float) * k, [np.array(h, dtype=float) * k for h in holes])
        if sub == "extrude":
            return c.extrude_polygon(poly, height=2 * k), -1, 1, {"shell": shell, "holes": holes, "height": 2}, k
        return c.sweep_polygon(poly, np.array([[0, 0, 0], [2, 3, 6]], dtype=float) * k), -1, 1, {"shell": shell, "holes": holes, "height": 7}, k
    if kind == "aspect":
        e, sec, sub = p["exp2"], p["sections"], p["kind"]
        r, h = (1.0, 2.0 ** e) if e > 0 else (2.0 ** -e, 1.0)
        P = tm.primitives
        if sub == "cylinder":
            m, genus = c.cylinder(radius=r, height=h, sections=sec), 0
        elif sub == "cone":
            m, genus = c.cone(radius=r, height=h, sections=sec), 0
        elif sub == "annulus":
            m, genus = c.annulus(r_min=r / 2, r_max=r, height=h, sections=sec), 1
        elif sub == "capsule":
            m, genus = c.capsule(height=h, radius=r, count=[sec, sec]), 0
        elif sub == "torus":
            m, genus = c.torus(max(r, h) * 2, min(r, h), major_sections=sec, minor_sections=8), 1
        elif sub == "Cylinder":
            m, genus = P.Cylinder(radius=r, height=h, sections=sec).to_mesh(), 0
        else:
            m, genus = P.Capsule(radius=r, height=h, sections=sec).to_mesh(), 0
        # measures in units of r^2 h and r max(r, h) (judged for their sign only: the dimensions differ by 2^16)
        vunit = max(r, h) * min(r, h) ** 2 if sub == "torus" else r * r * (h + r) if sub in ("capsule", "Capsule") else r * r * h
        return m, genus, 1, None, (vunit, r * max(r, h))
    if kind == "fine_detail":
        d = 2.0 ** p["pin_exp2"]
        prof = [[0, 0]] + ([[d, 0]] if p["where"] in ("bottom", "both") else []) + [[1, 0], [1, 1]] + ([[d, 1]] if p["where"] in ("top", "both") else []) + [[0, 1]]
        return c.revolve(np.array(prof, dtype=float), sections=p["sections"]), 0, 1, None, 1.0
    if kind == "box_bounds":
        lo = np.array(p["lo"], dtype=float)
        e = p["extents"]
        m = c.box(bounds=[lo, lo + e])
        # judged as the prism over the rectangle [lo, lo + e] whose base is at lo_z: heights are recorded relative to it
        b = np.array(m.bounds, dtype=float) - [0, 0, lo[2]]
        x0, y0 = int(lo[0]), int(lo[1])
        flat = {"shell": [[x0, y0], [x0 + e[0], y0], [x0 + e[0], y0 + e[1]], [x0, y0 + e[1]]], "holes": [], "height": e[2], "bkind": "prism",
                "bounds_fp": [[fp(x) for x in b[0]], [fp(x) for x in b[1]]]}
        return m, 0, 1, flat, 1.0
    if kind == "annulus_rmin0":
        return c.annulus(r_min=0.0, r_max=2.0, height=1.5, sections=p["sections"]), 0, 1, None, 1.0
    raise MachineryError("unknown audit kind " + kind)


# ------------------------------------------------------------------ placed / segment / inertia records
def _creation_call(tm, kind, p, tr):
    from shapely.geometry import Polygon
    c, P = tm.creation, tm.primitives
    if kind == "box":
        return c.box(extents=p["extents"], transform=tr)
    if kind == "cylinder":
        return c.cylinder(radius=p["radius"], height=p["height"], sections=p["sections"], transform=tr)
    if kind == "cone":
        # the sign of a cone's height is not covered by the statement (cylinder / capsule take abs, cone does not)
        return c.cone(radius=p["radius"], height=abs(p["height"]), sections=p["sections"], transform=tr)
    if kind == "annulus":
        return c.annulus(r_min=p["radius"] / 2, r_max=p["radius"], height=p["height"], sections=p["sections"], transform=tr)
    if kind == "uv_sphere":
        return c.uv_sphere(radius=p["radius"], count=[p["sections"], p["sections"]], transform=tr)
    if kind == "capsule":
        return c.capsule(height=p["height"], radius=p["radius"], count=[p["sections"], p["sections"]], transform=tr)
    if kind == "torus":
        return c.torus(2 * p["radius"], p["radius"] / 2, major_sections=p["sections"], minor_sections=p["sections"], transform=tr)
    if kind == "revolve_full":
        return c.revolve(np.array([[1, 0], [3, 0], [1, 2], [1, 0]], dtype=float), sections=p["sections"], transform=tr)
    if kind == "revolve_partial":
        return c.revolve(np.array([[0, 0], [2, 0], [2, 2], [0, 2], [0, 0]], dtype=float), angle=3 * np.pi / 4, cap=True, sections=max(2, p["sections"] // 2), transform=tr)
    if kind.startswith("extrude_") and kind != "extrude_triangulation":
        eng = kind.split("_", 1)[1]
        poly = Polygon([[0, 0], [6, 0], [6, 6], [0, 6]], [[[2, 2], [4, 2], [4, 4], [2, 4]]])
        return c.extrude_polygon(poly, height=p["height"], transform=tr, engine=eng)
    if kind == "extrude_triangulation":
        v = np.array([[0, 0], [4, 0], [4, 3], [0, 3]], dtype=float)
        return c.extrude_triangulation(v, np.array([[0, 1, 2], [0, 2, 3]]), height=p["height"], transform=tr)
    if kind == "Box":
        return P.Box(extents=p["extents"], transform=tr)
    if kind == "Cylinder":
        return P.Cylinder(radius=p["radius"], height=p["height"], sections=p["sections"], transform=tr)
    if kind == "Capsule":
        return P.Capsule(radius=p["radius"], height=p["height"], sections=p["sections"], transform=tr)
    if kind == "Sphere":
        return P.Sphere(radius=p["radius"], subdivisions=1, transform=tr)
    if kind == "Extrusion":
        return P.Extrusion(polygon=Polygon([(0, 0), (2, 0), (2, 1), (0, 1)]), height=p["height"], transform=tr)
    raise MachineryError(kind)


PLACED_KINDS = ("box", "cylinder", "cone", "annulus", "uv_sphere", "capsule", "torus", "revolve_full", "revolve_partial", "extrude_earcut",
                "extrude_triangle", "extrude_manifold", "extrude_triangulation", "Box", "Cylinder", "Capsule", "Sphere", "Extrusion")


def placed_jobs(tier):
    s = seed()
    sets = [{"extents": [1, 2, 3], "radius": 1.5, "height": 2.0, "sections": 5}, {"extents": [4, 1, 2], "radius": 2.0, "height": -3.0, "sections": 8},
            {"extents": [0.5, 4, 1], "radius": 0.75, "height": 1.0, "sections": 3}, {"extents": [2, 2, 5], "radius": 3.0, "height": 0.5, "sections": 6}]
    jobs = []
    for ki, kind in enumerate(PLACED_KINDS):
        for si in ((0, 1 + (ki + s) % 3) if tier == "quick" else range(4)):
            for pl in LATTICE:
                jobs.append(("placed", {"kind": kind, "set": sets[si], "placement": pl}))
    for kind in ("box", "icosphere", "icosahedron", "cylinder", "uv_sphere", "extrude_earcut", "Box", "Cylinder"):
        for how in ("second_built_and_scaled", "second_edited_in_place"):
            jobs.append(("independent", {"kind": kind, "set": sets[s % 4], "how": how}))
    segs = {3: ([2, -1, 1], [2, -1, 5]), -3: ([2, -1, 5], [2, -1, 1]), 1: ([-2, 3, 1], [4, 3, 1]), -1: ([4, 3, 1], [-2, 3, 1]),
            2: ([0, -3, 2], [0, 2, 2]), -2: ([0, 2, 2], [0, -3, 2]), 0: ([1, 2, 3], [3, 5, 9]), 10: ([3, 5, 9], [1, 2, 3])}
    for kind in ("cylinder", "annulus"):
        for ax, (a, b) in segs.items():
            for sec in (3, 4, 7, 8) if tier == "quick" else (3, 4, 5, 6, 7, 8, 12, 32):
                jobs.append(("segment", {"kind": kind, "axis": abs(ax) % 10, "a": a, "b": b, "sections": sec}))
    for ext in ([1, 2, 3], [2, 2, 2], [4, 1, 3]):
        for pl in ["none"] + list(LATTICE):
            for how in ("creation", "primitive"):
                jobs.append(("box_inertia", {"extents": ext, "placement": pl, "how": how}))
    for kind in ("Cylinder", "Sphere", "cylinder", "cone", "annulus", "icosphere"):
        for pl in ("none", "rot", "mirror_rot"):
            jobs.append(("curved_inertia", {"kind": kind, "placement": pl}))
    return jobs


def _ico(tm, kind, p):
    return tm.creation.icosphere(subdivisions=1, radius=p["radius"]) if kind == "icosphere" else tm.creation.icosahedron()


def _smooth_inertia(kind, r, h, r_in=0.0):
    """closed-form tensors of the smooth shapes (unit density, about the centre of mass, axis z)"""
    if kind in ("Cylinder", "cylinder"):
        m = np.pi * r * r * h
        return np.diag([m * (3 * r * r + h * h) / 12, m * (3 * r * r + h * h) / 12, m * r * r / 2])
    if kind == "annulus":
        m = np.pi * (r * r - r_in * r_in) * h
        q = r * r + r_in * r_in
        return np.diag([m * (3 * q + h * h) / 12, m * (3 * q + h * h) / 12, m * q / 2])
    if kind == "cone":
        m = np.pi * r * r * h / 3
        return np.diag([m * (3 * r * r / 20 + 3 * h * h / 80)] * 2 + [3 * m * r * r / 10])
    m = 4 / 3 * np.pi * r ** 3
    return np.eye(3) * (0.4 * m * r * r)


def _tensor(a):
    return [[fp(x) for x in row] for row in np.array(a, dtype=float)]


def placed_chunk(jobs):
    from harness.common import import_trimesh
    tm = import_trimesh()
    out = []
    for what, p in jobs:
        kind = p.get("kind", what)
        try:
            if what == "placed":
                spec = LATTICE[p["placement"]]
                base = _creation_call(tm, kind, p["set"], None)
                placed = _creation_call(tm, kind, p["set"], lattice_matrix(spec))
                pre = meas(base.to_mesh() if hasattr(base, "to_mesh") else base)
                post = meas(placed.to_mesh() if hasattr(placed, "to_mesh") else placed)
                out.append(placed_record("placed:" + kind, p, spec, pre, post))
            elif what == "independent":
                mk = (lambda: _ico(tm, kind, p["set"])) if kind in ("icosphere", "icosahedron") else (lambda: _creation_call(tm, kind, p["set"], None))
                a = mk()
                pre = meas(a.to_mesh() if hasattr(a, "to_mesh") else a)
                b = mk()
                if p["how"] == "second_built_and_scaled":
                    b.apply_transform(T4(3 * I3, (5, 5, 5)))
                elif hasattr(b, "primitive"):
                    pr = b.primitive
                    if hasattr(pr, "extents"):
                        pr.extents[0] = 9.0
                    pr.transform[:3, 3] += 4.0
                else:
                    b.vertices[:] = np.array(b.vertices) * 2.5 + 1.0
                    b.faces[:] = np.array(b.faces)[:, ::-1]
                third = mk()
                post = meas(a.to_mesh() if hasattr(a, "to_mesh") else a)
                out.append(placed_record("independent:" + kind, p, (I3, (0, 0, 0), 1), pre, post))
                out.append(placed_record("independent_rebuilt:" + kind, p, (I3, (0, 0, 0), 1), pre, meas(third.to_mesh() if hasattr(third, "to_mesh") else third)))
            elif what == "segment":
                c = tm.creation
                a, b = np.array(p["a"], dtype=float), np.array(p["b"], dtype=float)
                h = float(np.linalg.norm(b - a))
                if kind == "cylinder":
                    m = c.cylinder(radius=1.5, segment=[a, b], sections=p["sections"])
                    ref = c.cylinder(radius=1.5, height=h, sections=p["sections"])
                else:
                    m = c.annulus(r_min=0.75, r_max=1.5, segment=[a, b], sections=p["sections"])
                    ref = c.annulus(r_min=0.75, r_max=1.5, height=h, sections=p["sections"])
                out.append({"rec": "segment", "kind": "segment:" + kind, "params": p, "exc": "", "axis": p["axis"], "a": p["a"], "b": p["b"], "r_fp": fp(1.5),
                            "bounds": [[fp(x) for x in m.bounds[0]], [fp(x) for x in m.bounds[1]]], "com": [fp(x) for x in m.center_mass],
                            "vol": fp(m.volume), "ref_vol": fp(ref.volume), "tol": 3,
                            "solid": bool(m.is_watertight and m.is_winding_consistent)})
            elif what == "box_inertia":
                spec = LATTICE.get(p["placement"])
                tr = None if spec is None else lattice_matrix(spec)
                m = tm.creation.box(extents=p["extents"], transform=tr) if p["how"] == "creation" else tm.primitives.Box(extents=p["extents"], transform=tr)
                L = I3 if spec is None else np.array(spec[0], dtype=float) / spec[2]
                axes = [int(np.argmax(np.abs(L[:, i]))) + 1 for i in range(3)]
                out.append({"rec": "inertia", "mode": "box", "kind": "box_inertia:" + p["how"], "params": p, "exc": "", "extents": p["extents"], "axes": axes,
                            "I": _tensor(m.moment_inertia), "tol": 3})
            elif what == "curved_inertia":
                spec = LATTICE.get(p["placement"])
                tr = None if spec is None else lattice_matrix(spec)
                R = I3 if spec is None else np.array(spec[0], dtype=float) / spec[2]
                c, P = tm.creation, tm.primitives
                r, h = 1.5, 2.0
                analytic, has = np.zeros((3, 3)), False
                if kind == "Cylinder":
                    prim = P.Cylinder(radius=r, height=h, sections=16, transform=tr)
                    analytic, has = prim.moment_inertia, "moment_inertia" in type(prim).__dict__
                    tess = [P.Cylinder(radius=r, height=h, sections=k, transform=tr).to_mesh().moment_inertia for k in (8, 16, 32)]
                elif kind == "Sphere":
                    prim = P.Sphere(radius=r, subdivisions=1, transform=tr)
                    analytic, has = prim.moment_inertia, "moment_inertia" in type(prim).__dict__
                    tess = [P.Sphere(radius=r, subdivisions=k, transform=tr).to_mesh().moment_inertia for k in (1, 2, 3)]
                elif kind == "cylinder":
                    tess = [c.cylinder(radius=r, height=h, sections=k, transform=tr).moment_inertia for k in (8, 16, 32)]
                elif kind == "cone":
                    tess = [c.cone(radius=r, height=h, sections=k, transform=tr).moment_inertia for k in (8, 16, 32)]
                elif kind == "annulus":
                    tess = [c.annulus(r_min=0.5, r_max=r, height=h, sections=k, transform=tr).moment_inertia for k in (8, 16, 32)]
                else:
                    tess = []
                    for k in (1, 2, 3):
                        m = c.icosphere(subdivisions=k, radius=r)
                        if tr is not None:
                            m.apply_transform(tr)
                        tess.append(m.moment_inertia)
                smooth = R @ _smooth_inertia(kind, r, h, 0.5) @ R.T
                tr_s = float(np.trace(smooth))
                out.append({"rec": "inertia", "mode": "curved", "kind": "curved_inertia:" + kind, "params": p, "exc": "", "has_analytic": bool(has),
                            "analytic": _tensor(analytic), "smooth": _tensor(smooth), "tess": [_tensor(t) for t in tess], "slack": 50,
                            "near": fp(0.04 * tr_s)})
            else:
                raise MachineryError(what)
        except MachineryError:
            raise
        except BaseException as e:  # noqa
            out.append(placed_record(what + ":" + str(kind), p, (I3, (0, 0, 0), 1), ZERO, ZERO, exc=type(e).__name__ + ":" + str(e)[:60]))
    return out


def primitive_series(tm, slack):
    """primitive classes over their resolution parameter: by constructor and by edit after a read"""
    P = tm.primitives
    out = []
    T = T4(RZ @ RX, (1, 2, 3))

    def rec(kind, params, vols, areas, sv, sa):
        out.append({"rec": "series", "kind": kind, "params": params, "exc": "", "vols": [fp(v) for v in vols], "areas": [fp(a) for a in areas],
                    "smooth_vol": fp(sv), "smooth_area": fp(sa), "radius_residual": 0, "slack": slack,
                    "has_analytic_vol": False, "has_analytic_area": False, "analytic_vol": 0, "analytic_area": 0})
    for n in (3, 5, 8):
        for how in ("constructor", "edit_after_read"):
            try:
                for name, cls, r, h, sv, sa in (("Cylinder", P.Cylinder, 1.5, 2.0, np.pi * 2.25 * 2, 2 * np.pi * 1.5 * 2 + 2 * np.pi * 2.25),
                                                ("Capsule", P.Capsule, 1.0, 2.0, np.pi * 2 + 4 / 3 * np.pi, 2 * np.pi * 2 + 4 * np.pi)):
                    if name == "Capsule" and n == 3:
                        continue   # creation.capsule rounds odd counts up
                    if how == "constructor":
                        ms = [cls(radius=r, height=h, sections=k, transform=T).to_mesh() for k in (n, 2 * n, 4 * n)]
                        vols, areas = [m.volume for m in ms], [m.area for m in ms]
                    else:
                        prim = cls(radius=r, height=h, sections=n, transform=T)
                        vols, areas = [], []
                        for k in (n, 2 * n, 4 * n):
                            prim.primitive.sections = k
                            m = prim.to_mesh()
                            vols.append(m.volume)
                            areas.append(m.area)
                    rec("resolution_" + name, {"sections": n, "how": how}, vols, areas, sv, sa)
            except BaseException as e:  # noqa
                out.append({"rec": "series", "kind": "resolution", "params": {"sections": n, "how": how}, "exc": type(e).__name__ + ":" + str(e)[:60], "vols": [0, 1], "areas": [0, 1],
                            "smooth_vol": 0, "smooth_area": 0, "radius_residual": 0, "slack": slack, "has_analytic_vol": False, "has_analytic_area": False,
                            "analytic_vol": 0, "analytic_area": 0})
    for how in ("constructor", "edit_after_read"):
        if how == "constructor":
            ms = [P.Sphere(radius=2.0, subdivisions=k, center=[1, 2, 3]).to_mesh() for k in (0, 1, 2, 3)]
        else:
            prim = P.Sphere(radius=2.0, subdivisions=0, center=[1, 2, 3])
            ms = []
            for k in (0, 1, 2, 3):
                prim.primitive.subdivisions = k
                ms.append(prim.to_mesh())
        rec("resolution_Sphere", {"how": how}, [m.volume for m in ms], [m.area for m in ms], 4 / 3 * np.pi * 8, 4 * np.pi * 4)
    return out
