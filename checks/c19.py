"""C19 - rotation / transform representations convert consistently.

Reference semantics: spec/TransformAlg.tla (exact integer / rational matrix algebra, the cube
rotation group, compositional semantics of the 24 Euler conventions, quaternion -> matrix
homomorphism, Rodrigues axis-angle, T R Z S composition, homogeneous action on points).

The harness enumerates inputs on exact domains (quarter-turn lattice: every gimbal-lock
configuration and every largest-diagonal branch; Pythagorean angles and rational rotations from
integer quaternions with square norm: general position), calls the real functions of
trimesh.transformations / trimesh.geometry, snaps every returned float to the exact lattice
(residual 1e-9; a value that does not snap is listed as {"offlattice": x} and the record is
rejected by the spec), and TLC validates every record in batch (code -> spec).  Expected
matrices / points / factors are computed by TLC only.

Round trips with a non-unique representation (Euler angles, quaternion sign, axis sign, point on
the axis) are judged on the rotation TLC rebuilds from the returned parameters.  A second half
of a round trip whose input (a matrix the implementation itself produced) was already rejected
is skipped, not judged twice.

Families added by the coverage audit live in checks/c19_audit.py (near-identity matrices on large
coordinates, rotation matrices carrying rounding noise, small angles, optional arguments and input
containers, anchored entry points that were never called: quaternion_slerp, scale_and_translate,
fix_rigid, is_rigid, plane_transform, spherical_matrix, random_rotation_matrix, scene kwargs_to_matrix);
their deviation ids (decided on the input only) are TransformPointsNearIdentityShortcut,
RotationFromMatrixSmallAngle, EulerFromMatrixNoisyGimbal, ScaleAndTranslateDefaultScale.

Known defect on the pinned tree (reported, not loosened; repaired since): decompose_matrix never took its
gimbal-lock branch (`if np.cos(angles[1])` is 6e-17, not 0, at +-pi/2).  Rejections of
decompose_matrix records are attributed by a predicate on the INPUT only:
  DecomposeGimbalShear  middle angle +-pi/2 and non-zero shear
  DecomposeGimbalExact  middle angle +-pi/2, zero shear, exact (noise-free) input matrix
Everything else is a plain violation.
"""
import itertools
import math
import os
import sys

import numpy as np

from checks import c19_audit as AUD
from harness import tlc
from harness.common import (MachineryError, Verdict, import_trimesh, pmap, seed,
                            tier_from_args)

PROP = "C19"
CFG = "INIT Init\nNEXT Next\nINVARIANT Report\nINVARIANT RefSane\nCHECK_DEADLOCK FALSE\n"
TOL = 1e-9
MAXABS = 64.0     # every exact value in the enumerated scope is far smaller; keeps TLC's 32-bit products safe
HALF_PI = math.pi / 2.0
ROUND = 48000      # records per TLC validation round

AXES24 = ["sxyz", "sxyx", "sxzy", "sxzx", "syzx", "syzy", "syxz", "syxy", "szxy", "szxz", "szyx", "szyz",
          "rzyx", "rxyx", "ryzx", "rxzx", "rxzy", "ryzy", "rzxy", "ryxy", "ryxz", "rzxz", "rxyz", "rzyz"]
# Pythagorean angles (cos, sin, den)
PYTH = [(3, 4, 5), (-4, 3, 5), (5, -12, 13), (-3, -4, 5)]
# integer quaternions with square norm: rational rotations in general position.  Chosen so that each
# of w, x, y, z is the largest component somewhere (branches of quaternion_from_matrix), plus half turns
RATQ = [(1, 2, 2, 4), (4, 2, 2, 1), (2, 4, 1, 2), (2, 1, 4, 2), (2, 3, 6, 0), (6, 0, 2, 3), (0, 6, 3, 2),
        (0, 2, 3, 6), (3, 0, 6, 2), (2, 4, 5, 6), (6, 5, 4, 2), (1, 2, 4, 10), (10, 4, 2, 1), (4, 10, 1, 2),
        (-2, 3, -6, 0), (1, -2, 2, -4), (5, -6, 2, 4), (0, 3, 4, 12)]
AXES6 = [(1, 0, 0), (-1, 0, 0), (0, 1, 0), (0, -1, 0), (0, 0, 1), (0, 0, -1)]


# ------------------------------------------------------------------ exact inputs
def A_k(k):
    return {"t": "k", "k": int(k)}


def A_p(c, s, d):
    return {"t": "p", "c": int(c), "s": int(s), "d": int(d)}


def ang_float(a):
    return a["k"] * HALF_PI if a["t"] == "k" else math.atan2(a["s"], a["c"])


def ang_den(a):
    return 1 if a["t"] == "k" else a["d"]


def cube24():
    gx = np.array([[1, 0, 0], [0, 0, -1], [0, 1, 0]])
    gy = np.array([[0, 0, 1], [0, 1, 0], [-1, 0, 0]])
    seen = {tuple(np.eye(3, dtype=int).ravel())}
    todo = [np.eye(3, dtype=int)]
    while todo:
        a = todo.pop()
        for g in (gx, gy):
            b = g @ a
            if tuple(b.ravel()) not in seen:
                seen.add(tuple(b.ravel()))
                todo.append(b)
    return [np.array(t).reshape(3, 3) for t in sorted(seen)]


def latq():
    return [q for q in itertools.product((-1, 0, 1), repeat=4) if sum(x * x for x in q) in (1, 2, 4)]


def quat_rot(q):
    """integer quaternion -> (3x3 integer numerators, denominator |q|^2): input construction only,
    the spec recomputes it (BADINPUT otherwise)"""
    w, x, y, z = q
    n = w * w + x * x + y * y + z * z
    N = [[n - 2 * (y * y + z * z), 2 * (x * y - w * z), 2 * (x * z + w * y)],
         [2 * (x * y + w * z), n - 2 * (x * x + z * z), 2 * (y * z - w * x)],
         [2 * (x * z - w * y), 2 * (y * z + w * x), n - 2 * (x * x + y * y)]]
    return N, n


def hom(N, d, t=None):
    """rational homogeneous matrix {"n","d"} from integer linear part N/d and integer translation t"""
    k = len(N)
    t = [0] * k if t is None else list(t)
    rows = [[int(N[r][c]) for c in range(k)] + [int(t[r]) * d] for r in range(k)]
    rows.append([0] * k + [d])
    return {"n": rows, "d": int(d)}


def about(N, d, p):
    """x -> R (x - p) + p with R = N/d: translation numerators d p - N p over d"""
    k = len(N)
    tn = [d * p[r] - sum(N[r][c] * p[c] for c in range(k)) for r in range(k)]
    rows = [[int(N[r][c]) for c in range(k)] + [int(tn[r])] for r in range(k)]
    rows.append([0] * k + [d])
    return {"n": rows, "d": int(d)}


def rat_float(M):
    return np.array(M["n"], dtype=np.float64) / float(M["d"])


def unit(q):
    q = np.array(q, dtype=np.float64)
    return q / math.sqrt(float(np.dot(q, q)))


# ------------------------------------------------------------------ snapping
_SQ = np.sqrt(np.arange(0, 40001, dtype=np.float64))


class Snap:
    """float -> exact lattice with a residual test; failures are collected in .off"""

    def __init__(self):
        self.off = []

    def bad(self, x, where):
        try:
            xf = float(x)
            xv = xf if math.isfinite(xf) else str(xf)
        except Exception:  # noqa
            xv = str(x)
        self.off.append({"offlattice": xv, "where": where})
        return 0

    def val(self, x, den, where):
        try:
            xf = float(x)
        except Exception:  # noqa
            return self.bad(x, where)
        if not math.isfinite(xf):
            return self.bad(x, where)
        y = xf * den
        r = round(y)
        if abs(y - r) > TOL * den or abs(xf) > MAXABS:
            return self.bad(x, where)
        return int(r)

    def vec(self, v, den, where, n=None):
        v = np.asarray(v)
        if v.ndim != 1 or (n is not None and v.shape[0] != n):
            self.off.append({"offlattice": "shape" + str(v.shape), "where": where})
            return [0] * (n or 0)
        return [self.val(x, den, where) for x in v]

    def mat(self, M, den, where, shape=None):
        M = np.asarray(M)
        if M.ndim != 2 or (shape is not None and M.shape != shape):
            self.off.append({"offlattice": "shape" + str(M.shape), "where": where})
            M = np.zeros(shape or (0, 0))
        return {"n": [[self.val(x, den, where) for x in row] for row in M], "d": int(den)}

    def angle(self, x, where):
        try:
            xf = float(x)
        except Exception:  # noqa
            self.bad(x, where)
            return A_k(0)
        if math.isfinite(xf):
            k = round(xf / HALF_PI)
            if abs(xf - k * HALF_PI) <= TOL and abs(k) < 1000:
                return A_k(k)
            for d in (5, 13, 25, 65, 169):     # sums / differences of two input angles at gimbal lock
                c, s = math.cos(xf) * d, math.sin(xf) * d
                if abs(c - round(c)) <= TOL * d and abs(s - round(s)) <= TOL * d:
                    return A_p(round(c), round(s), d)
        self.bad(x, where)
        return A_k(0)

    def angles(self, a, where):
        a = list(a)
        if len(a) != 3:
            self.off.append({"offlattice": "len" + str(len(a)), "where": where})
            return [A_k(0)] * 3
        return [self.angle(x, where) for x in a]

    def scaled(self, v, where, nmax, size):
        """unit float vector -> (integer vector, n) with v = ints / sqrt(n), smallest n <= nmax"""
        v = np.asarray(v, dtype=np.float64)
        if v.shape != (size,) or not np.all(np.isfinite(v)):
            self.off.append({"offlattice": str(v.tolist() if v.ndim else float(v)), "where": where})
            return [0] * size, 1
        for lo, hi in ((1, 5), (5, nmax + 1)):
            sq = _SQ[lo:hi]
            Y = v[None, :] * sq[:, None]
            ok = np.nonzero((np.abs(Y - np.round(Y)) <= TOL * sq[:, None]).all(axis=1))[0]
            if len(ok):
                j = int(ok[0])
                return [int(x) for x in np.round(Y[j])], lo + j
        self.off.append({"offlattice": v.tolist(), "where": where})
        return [0] * size, 1

    def quat(self, q, where, nmax=2000):
        v, n = self.scaled(np.asarray(q, dtype=np.float64).reshape(-1), where, nmax, 4)
        return {"v": v, "n": n}

    def axis_angle(self, angle, direction, where):
        """returned (angle, unit direction) -> integer axis a (m = a.a) and (c, sg, d) with
        cos = c/d, sin = sg sqrt(m)/d"""
        a, m = self.scaled(direction, where + ".direction", 400, 3)
        g = {"c": 1, "sg": 0, "d": 1}
        try:
            th = float(angle)
        except Exception:  # noqa
            self.bad(angle, where + ".angle")
            return a, g
        if not math.isfinite(th):
            self.bad(angle, where + ".angle")
            return a, g
        co, si = math.cos(th), math.sin(th) / math.sqrt(m)
        for d in range(1, 401):
            if abs(co * d - round(co * d)) <= TOL * d and abs(si * d - round(si * d)) <= TOL * d:
                return a, {"c": int(round(co * d)), "sg": int(round(si * d)), "d": d}
        self.bad(angle, where + ".angle")
        return a, g


def call(cases, fn, base, thunk):
    S = Snap()
    rec = dict(base)
    rec["fn"] = fn
    out = None
    try:
        out = thunk(S)
        rec.update(out)
        rec["exc"] = ""
    except MachineryError:
        raise
    except BaseException as e:  # noqa
        rec["exc"] = type(e).__name__
    rec["off"] = S.off
    cases.append(rec)
    return out if rec["exc"] == "" else None


# ------------------------------------------------------------------ generators (run in the pool)
def gen_euler(tf, cases, axes, angs):
    """one convention, one angle triple"""
    fa = [ang_float(a) for a in angs]
    den = ang_den(angs[0]) * ang_den(angs[1]) * ang_den(angs[2])
    lattice = all(a["t"] == "k" for a in angs)
    base = {"axes": axes, "ang": angs}
    keep = {}

    def t_em(S):
        keep["M"] = tf.euler_matrix(fa[0], fa[1], fa[2], axes)
        return {"M": S.mat(keep["M"], den, "M", (4, 4))}
    out = call(cases, "euler_matrix", base, t_em)
    if out is not None and not cases[-1]["off"]:
        call(cases, "euler_from_matrix", dict(base, src="euler", M=out["M"]),
             lambda S: {"back": S.angles(tf.euler_from_matrix(keep["M"], axes), "back")})

    def t_qe(S):
        keep["q"] = tf.quaternion_from_euler(fa[0], fa[1], fa[2], axes)
        if lattice:
            return {"q": S.quat(keep["q"], "q")}
        return {"QM": S.mat(tf.quaternion_matrix(keep["q"]), den, "QM", (4, 4))}
    call(cases, "quaternion_from_euler" if lattice else "quaternion_from_euler_m", base, t_qe)


def gen_quat(tf, cases, q, lattice):
    """one integer quaternion (sign included): passed to trimesh as the unit float quaternion"""
    qf = unit(q)
    N, n = quat_rot(q)
    den = 1 if lattice else n
    base = {"q": list(q)}
    call(cases, "quaternion_matrix", base, lambda S: {"M": S.mat(tf.quaternion_matrix(qf), den, "M", (4, 4))})
    call(cases, "quaternion_inverse", base, lambda S: {"r": S.quat(tf.quaternion_inverse(qf), "r")})
    call(cases, "quaternion_conjugate", base, lambda S: {"r": S.quat(tf.quaternion_conjugate(qf), "r")})
    for axes in AXES24:
        if lattice:
            call(cases, "euler_from_quaternion", dict(base, axes=axes),
                 lambda S: {"back": S.angles(tf.euler_from_quaternion(qf, axes), "back")})
        else:
            M = hom(N, n)
            call(cases, "euler_roundtrip", dict(base, axes=axes, M=M, via="quaternion"),
                 lambda S: {"R2": S.mat(tf.euler_matrix(*tf.euler_from_quaternion(qf, axes), axes=axes), n, "R2", (4, 4))})


def gen_matrix(tf, cases, N, d, src, q=None, points=()):
    """one exact rotation matrix N/d (cube rotation or rational rotation of quaternion q)"""
    M = hom(N, d)
    Mf = rat_float(M)
    for axes in AXES24:
        if src == "cube":
            call(cases, "euler_from_matrix", {"axes": axes, "src": "cube", "M": M},
                 lambda S: {"back": S.angles(tf.euler_from_matrix(Mf, axes), "back")})
        else:
            call(cases, "euler_roundtrip", {"axes": axes, "q": list(q), "M": M, "via": "matrix"},
                 lambda S: {"R2": S.mat(tf.euler_matrix(*tf.euler_from_matrix(Mf, axes), axes=axes), d, "R2", (4, 4))})
    for prec in (False, True):
        call(cases, "quaternion_from_matrix", {"M": M, "isprecise": prec, "src": src},
             lambda S: {"q": S.quat(tf.quaternion_from_matrix(Mf, isprecise=prec), "q")})
    for p in (None,) + tuple(points):
        Mp = M if p is None else about(N, d, p)
        Mpf = rat_float(Mp)

        def t_rfm(S):
            angle, direction, point = tf.rotation_from_matrix(Mpf)
            a, g = S.axis_angle(angle, direction, "rot")
            R2 = tf.rotation_matrix(angle, direction, point)
            return {"axis": a, "g": g, "R2": S.mat(R2, d, "R2", (4, 4))}
        call(cases, "rotation_from_matrix", {"M": Mp, "src": src, "pt": [] if p is None else list(p)}, t_rfm)


def gen_qmul(tf, cases, q1, q0):
    n = sum(x * x for x in q1) * sum(x * x for x in q0)
    call(cases, "quaternion_multiply", {"q1": list(q1), "q0": list(q0)},
         lambda S: {"r": S.quat(tf.quaternion_multiply(unit(q1), unit(q0)), "r", nmax=min(40000, max(2000, n)))})


def gen_axis_angle(tf, cases, axis, g, theta, points, den):
    base = {"axis": list(axis), "g": g}
    call(cases, "quaternion_about_axis", base,
         lambda S: {"q": S.quat(tf.quaternion_about_axis(theta, list(axis)), "q")})
    for p in (None,) + tuple(points):
        call(cases, "rotation_matrix", dict(base, pt=[] if p is None else list(p)),
             lambda S: {"M": S.mat(tf.rotation_matrix(theta, np.array(axis, dtype=np.float64),
                                                      None if p is None else list(p)), den, "M", (4, 4))})


def gen_compose(tf, cases, s4, sh4, angs, tr4):
    fa = [ang_float(a) for a in angs]
    den = 16 * ang_den(angs[0]) * ang_den(angs[1]) * ang_den(angs[2])
    base = {"s4": list(s4), "sh4": list(sh4), "ang": angs, "tr4": list(tr4)}
    scale = [x / 4.0 for x in s4]
    shear = [x / 4.0 for x in sh4]
    trans = [x / 4.0 for x in tr4]
    keep = {}

    def t_c(S):
        keep["M"] = tf.compose_matrix(scale=scale, shear=shear, angles=fa, translate=trans)
        return {"M": S.mat(keep["M"], den, "M", (4, 4))}
    out = call(cases, "compose_matrix", base, t_c)
    if out is None or cases[-1]["off"]:
        return

    def dec(Min):
        def t(S):
            sc, sh, an, tr, _persp = tf.decompose_matrix(Min)
            return {"os4": S.vec(sc, 4, "scale", 3), "osh4": S.vec(sh, 4, "shear", 3),
                    "oang": S.angles(an, "angles"), "otr4": S.vec(tr, 4, "translate", 3)}
        return t
    call(cases, "decompose_matrix", dict(base, src="composed", M=out["M"]), dec(keep["M"]))
    call(cases, "decompose_matrix", dict(base, src="exact", M=out["M"]), dec(rat_float(out["M"])))


def gen_points(tf, cases, dim, M, pts, translate):
    Mf = rat_float(M)
    P = np.array(pts, dtype=np.float64).reshape(-1, dim)

    def t(S):
        res = np.asarray(tf.transform_points(P, Mf, translate=translate))
        if res.shape != P.shape:
            S.off.append({"offlattice": "shape" + str(res.shape), "where": "res"})
            res = np.zeros(P.shape)
        return {"res": {"n": [[S.val(x, M["d"], "res") for x in row] for row in res], "d": M["d"]}}
    call(cases, "transform_points", {"dim": dim, "M": M, "pts": [list(p) for p in pts], "translate": bool(translate)}, t)


def gen_around(tf, cases, dim, M, p):
    Mf = rat_float(M)
    call(cases, "transform_around", {"dim": dim, "M": M, "p": list(p)},
         lambda S: {"res": S.mat(tf.transform_around(Mf, np.array(p, dtype=np.float64)), M["d"], "res",
                                 (dim + 1, dim + 1))})


def gen_planar(tf, cases, th, o, pt, sc2):
    den = ang_den(th) if th is not None else 1
    if sc2 is not None:
        den = 2
    base = {"th": th if th is not None else A_k(0), "o": list(o) if o is not None else [0, 0],
            "pt": list(pt) if pt is not None else [], "sc": list(sc2) if sc2 is not None else [],
            "none": [th is None, o is None]}
    kw = {}
    if th is not None:
        kw["theta"] = ang_float(th)
    if o is not None:
        kw["offset"] = [float(x) for x in o]
    if pt is not None:
        kw["point"] = [float(x) for x in pt]
    if sc2 is not None:
        kw["scale"] = sc2[0] / 2.0 if sc2[0] == sc2[1] and sc2[0] != 6 else [x / 2.0 for x in sc2]
    keep = {}

    def t(S):
        keep["T"] = tf.planar_matrix(**kw)
        return {"res": S.mat(keep["T"], den, "res", (3, 3))}
    out = call(cases, "planar_matrix", base, t)
    if out is not None and not cases[-1]["off"]:
        call(cases, "planar_matrix_to_3D", {"M2": out["res"]},
             lambda S: {"res": S.mat(tf.planar_matrix_to_3D(keep["T"]), den, "res", (4, 4))})


def gen_align(geom, cases, a, b):
    call(cases, "align_vectors", {"a": list(a), "b": list(b)},
         lambda S: {"res": S.mat(geom.align_vectors(list(a), list(b)), 1, "res", (4, 4))})


def gen(chunk):
    trimesh = import_trimesh()
    tf = trimesh.transformations
    cases = []
    for item in chunk:
        kind, args = item[0], item[1:]
        if kind == "euler":
            gen_euler(tf, cases, *args)
        elif kind == "quat":
            gen_quat(tf, cases, *args)
        elif kind == "matrix":
            gen_matrix(tf, cases, *args)
        elif kind == "qmul":
            gen_qmul(tf, cases, *args)
        elif kind == "axisangle":
            gen_axis_angle(tf, cases, *args)
        elif kind == "compose":
            gen_compose(tf, cases, *args)
        elif kind == "points":
            gen_points(tf, cases, *args)
        elif kind == "around":
            gen_around(tf, cases, *args)
        elif kind == "planar":
            gen_planar(tf, cases, *args)
        elif kind == "align":
            gen_align(trimesh.geometry, cases, *args)
        elif AUD.gen_audit(trimesh, cases, kind, args):
            pass
        else:
            raise MachineryError("unknown work item " + str(kind))
    return cases


# ------------------------------------------------------------------ enumeration
def work_items(tier):
    big = tier == "thorough"
    rs = np.random.RandomState(seed() + 19)
    W = []
    lat = (-2, -1, 0, 1, 2)
    # 24 conventions x lattice triples (every gimbal-lock configuration) and Pythagorean triples
    for axes in AXES24:
        for k in itertools.product(lat, repeat=3):
            W.append(("euler", axes, [A_k(x) for x in k]))
        trip = list(itertools.product(range(len(PYTH)), repeat=3))
        if not big:
            trip = [trip[j] for j in rs.choice(len(trip), 24, replace=False)]
        for t in trip:
            W.append(("euler", axes, [A_p(*PYTH[j]) for j in t]))
        if big:     # mixed lattice / Pythagorean triples
            for t in itertools.product(range(len(PYTH) + 4), repeat=3):
                if any(j >= len(PYTH) for j in t) and any(j < len(PYTH) for j in t):
                    W.append(("euler", axes, [A_p(*PYTH[j]) if j < len(PYTH) else A_k((0, 1, -1, 2)[j - len(PYTH)])
                                              for j in t]))
        else:
            for _ in range(16):
                t = rs.randint(0, len(PYTH) + 4, size=3)
                W.append(("euler", axes, [A_p(*PYTH[j]) if j < len(PYTH) else A_k((0, 1, -1, 2)[j - len(PYTH)])
                                          for j in t]))
    # quaternions, both signs
    LQ = latq()
    for q in LQ:
        W.append(("quat", q, True))
    ratq = list(RATQ)
    if big:
        ratq += more_ratq(rs, 200)
    for q in ratq:
        W.append(("quat", q, False))
        W.append(("quat", tuple(-x for x in q), False))
    # matrices: the 24 cube rotations and the rational rotations
    pts3 = [(1, -2, 3), (0, 0, 0), (2, 2, -1)]
    for R in cube24():
        W.append(("matrix", R.tolist(), 1, "cube", None, pts3))
    for q in ratq:
        N, n = quat_rot(q)
        W.append(("matrix", N, n, "quat", q, pts3[:1] if not big else pts3))
    # products: all pairs of the 48 lattice quaternions, all pairs of rational ones
    for q1 in LQ:
        for q0 in LQ:
            W.append(("qmul", q1, q0))
    for q1 in ratq:
        for q0 in (ratq if q1 in RATQ else [ratq[j] for j in rs.choice(len(ratq), 6, replace=False)]):
            W.append(("qmul", q1, q0))
        W.append(("qmul", q1, LQ[int(rs.randint(len(LQ)))]))
    # axis-angle
    ptsA = [(1, -2, 3), (2, 2, -1)]
    for a in AXES6:
        for k in range(-4, 5):
            W.append(("axisangle", a, {"c": A_cos(k), "sg": A_sin(k), "d": 1}, k * HALF_PI, ptsA, 1))
        for c, s, d in PYTH:
            W.append(("axisangle", a, {"c": c, "sg": s, "d": d}, math.atan2(s, c), ptsA, d))
    for a, f in (((0, 0, 2), 2), ((0, -3, 0), 3), ((1, 2, 2), 3), ((2, 3, 6), 7), ((-2, 1, 2), 3), ((6, -2, 3), 7)):
        for k in (-2, -1, 0, 1, 2):
            W.append(("axisangle", a, {"c": f * A_cos(k), "sg": A_sin(k), "d": f}, k * HALF_PI, ptsA, f * f * f))
        for c, s, d in PYTH:
            W.append(("axisangle", a, {"c": f * c, "sg": s, "d": f * d}, math.atan2(s, c), ptsA, f * d * f * f))
    for a in itertools.product((1, -1), repeat=3):          # body diagonals, thirds of a turn
        for j in range(-3, 4):
            g = {"c": 1, "sg": 0, "d": 1} if j % 3 == 0 else {"c": -1, "sg": 1 if j % 3 == 1 else -1, "d": 2}
            W.append(("axisangle", a, g, j * 2.0 * math.pi / 3.0, ptsA, 6))
    for i, j in ((0, 1), (0, 2), (1, 2)):                    # face diagonals, half turns
        for si, sj in itertools.product((1, -1), repeat=2):
            a = [0, 0, 0]
            a[i], a[j] = si, sj
            for h in (-1, 0, 1, 2):
                g = {"c": 1, "sg": 0, "d": 1} if h % 2 == 0 else {"c": -1, "sg": 0, "d": 1}
                W.append(("axisangle", tuple(a), g, h * math.pi, ptsA, 2))
    # compose / decompose
    if big:
        scales = list(itertools.product((2, 4, 8), repeat=3))
        shears = [(0, 0, 0), (4, 0, 0), (0, 4, 0), (0, 0, 4), (4, -4, 8), (-8, 4, 4), (0, 8, -4), (12, 0, 4)]
        cang = list(itertools.product(lat, repeat=3))
        trs = [(0, 0, 0), (4, -8, 12)]
    else:
        scales = [(4, 4, 4), (8, 4, 2), (2, 2, 8), (8, 8, 8), (4, 8, 4), (2, 4, 4)]
        shears = [(0, 0, 0), (4, 0, 0), (0, 4, 0), (0, 0, 4), (4, -4, 8)]
        cang = list(itertools.product((0, 1, -1, 2), repeat=3))
        trs = [(0, 0, 0), (4, -8, 12)]
    n = 0
    for s4 in scales:
        for sh4 in shears:
            for k in cang:
                tr = trs if big else [trs[n % 2]]
                n += 1
                for t4 in tr:
                    W.append(("compose", s4, sh4, [A_k(x) for x in k], t4))
    trip = list(itertools.product(range(len(PYTH)), repeat=3))
    for s4 in scales[:6]:
        for sh4 in shears[:5]:
            for t in (trip if big else [trip[j] for j in rs.choice(len(trip), 6, replace=False)]):
                W.append(("compose", s4, sh4, [A_p(*PYTH[j]) for j in t], (4, -8, 12)))
            # lattice outer angles around a Pythagorean middle angle and vice versa
            for t in ((1, 0, 2), (0, -1, 3), (-1, 2, 1)):
                W.append(("compose", s4, sh4, [A_k(t[0]), A_p(*PYTH[t[2]]), A_k(t[1])], (0, 0, 0)))
    # negative scales (factorisation not unique: recomposition only)
    for s4 in ((-4, 4, 4), (4, -8, 2), (-4, -4, -4), (-2, -4, 8)):
        for sh4 in shears[:5]:
            for k in ((0, 0, 0), (1, 0, 2), (-1, 2, 1), (2, 0, -1)):
                W.append(("compose", s4, sh4, [A_k(x) for x in k], (4, -8, 12)))
    # transform_points
    C24 = cube24()
    mats3 = []
    for R in C24:
        for t in ((0, 0, 0), (1, -2, 3)):
            mats3.append(hom(R.tolist(), 1, t))
    mats3.append(hom([[-1, 0, 0], [0, 1, 0], [0, 0, 1]], 1, (2, 0, 1)))
    mats3.append(hom([[0, 1, 0], [1, 0, 0], [0, 0, 1]], 1))
    mats3.append(hom([[4, 2, 0], [0, 2, -2], [0, 0, 1]], 2, (1, 1, -1)))
    for q in ratq[:6]:
        N, n = quat_rot(q)
        mats3.append(hom(N, n))
        mats3.append(about(N, n, (1, -2, 3)))
    sets3 = [[], [(0, 0, 0)], [(1, 2, 3)], [(1, 0, 0), (0, 1, 0), (0, 0, 1), (-1, 2, -3)],
             [tuple(int(x) for x in p) for p in rs.randint(-3, 5, size=(5, 3))]]
    for M in mats3:
        for P in sets3:
            for tr in (True, False):
                W.append(("points", 3, M, P, tr))
    rot2 = [[[1, 0], [0, 1]], [[0, -1], [1, 0]], [[-1, 0], [0, -1]], [[0, 1], [-1, 0]]]
    mats2 = []
    for R in rot2:
        for t in ((0, 0), (2, -3)):
            mats2.append(hom(R, 1, t))
    mats2.append(hom([[-1, 0], [0, 1]], 1, (1, 1)))
    mats2.append(hom([[2, 1], [0, 1]], 1, (0, 4)))
    mats2.append(hom([[1, 0], [0, 1]], 2, (1, 1)))          # uniform scale 1/2
    for c, s, d in PYTH:
        mats2.append(hom([[c, -s], [s, c]], d))
        mats2.append(hom([[c, -s], [s, c]], d, (-1, 2)))
    sets2 = [[], [(0, 0)], [(1, 2)], [(1, 0), (0, 1), (-2, 3)],
             [tuple(int(x) for x in p) for p in rs.randint(-3, 5, size=(5, 2))]]
    for M in mats2:
        for P in sets2:
            for tr in (True, False):
                W.append(("points", 2, M, P, tr))
    # transform_around
    for R in C24:
        for p in ((1, -2, 3), (0, 0, 0), (2, 0, 0)):
            W.append(("around", 3, hom(R.tolist(), 1), p))
    for q in ratq:
        N, n = quat_rot(q)
        for p in ((1, -2, 3), (-3, 1, 1)):
            W.append(("around", 3, hom(N, n), p))
    for R in rot2:
        for p in ((1, 2), (-3, 0), (0, 0)):
            W.append(("around", 2, hom(R, 1), p))
    for c, s, d in PYTH:
        for p in ((1, 2), (-3, 0)):
            W.append(("around", 2, hom([[c, -s], [s, c]], d), p))
    # planar_matrix
    thetas = [None] + [A_k(k) for k in range(-2, 5)] + [A_p(*t) for t in PYTH]
    for th in thetas:
        for o in (None, (0, 0), (2, -3)):
            for pt in (None, (1, 2), (-3, 1)):
                W.append(("planar", th, o, pt, None))
    for sc2 in ((4, 4), (1, 1), (4, 6), (6, 6)):
        W.append(("planar", None, None, None, sc2))
        W.append(("planar", A_k(0), (0, 0), None, sc2))
    # align_vectors: produced matrices are rotations
    for a in AXES6:
        for b in AXES6:
            W.append(("align", a, b))
    # families added by the coverage audit (checks/c19_audit.py)
    W.extend(AUD.audit_items(tier, rs))
    return W


def more_ratq(rs, count):
    """primitive integer quaternions with square norm 9 .. 169 (rational rotations in general position)"""
    pool = []
    for q in itertools.product(range(-12, 13), repeat=4):
        n = sum(x * x for x in q)
        if n in (9, 25, 49, 81, 121, 169) and math.gcd(math.gcd(q[0], q[1]), math.gcd(q[2], q[3])) == 1 \
                and sum(1 for x in q if x) >= 3 and q not in RATQ:
            pool.append(q)
    pick = rs.choice(len(pool), size=min(count, len(pool)), replace=False)
    return [pool[j] for j in sorted(pick)]


def A_cos(k):
    return (1, 0, -1, 0)[k % 4]


def A_sin(k):
    return (0, 1, 0, -1)[k % 4]


# ------------------------------------------------------------------ attribution of known defects
def deviation_of(c):
    """Deviation id for a rejected record, decided on the INPUT only."""
    if c["fn"] != "decompose_matrix":
        return AUD.deviation_of_audit(c)
    if c.get("src") not in ("composed", "exact"):
        return None
    mid = c["ang"][1]
    gimbal = mid["t"] == "k" and mid["k"] % 2 != 0           # cos(beta) = 0
    if not gimbal:
        return None
    if any(x != 0 for x in c["sh4"]):
        return "DecomposeGimbalShear"
    if c["src"] == "exact":
        return "DecomposeGimbalExact"
    return None


def main(argv):
    tier = tier_from_args(argv)
    V = Verdict(PROP, tier)
    import_trimesh()
    AUD.bind(globals())
    W = work_items(tier)
    # interleave so that every pool chunk holds a mix of cheap and expensive items
    order = np.random.RandomState(seed() + 7).permutation(len(W))
    W = [W[j] for j in order]
    res = pmap(gen, W, chunk=max(50, len(W) // 64 + 1))
    cases = [c for r in res for c in r]
    for k, c in enumerate(cases):
        c["id"] = k
    byfn = {}
    for c in cases:
        byfn[c["fn"]] = byfn.get(c["fn"], 0) + 1
    need = {"euler_matrix": 3000, "euler_from_matrix": 3000, "quaternion_from_euler": 3000,
            "euler_from_quaternion": 1152, "quaternion_multiply": 2304, "quaternion_from_matrix": 48,
            "rotation_matrix": 100, "rotation_from_matrix": 48, "compose_matrix": 1000,
            "decompose_matrix": 2000, "transform_points": 300, "transform_around": 80, "planar_matrix": 50,
            "quaternion_matrix": 48, "quaternion_about_axis": 50, "euler_roundtrip": 400}
    need.update(AUD.NEED)
    for fn, k in need.items():
        if byfn.get(fn, 0) < k:
            raise MachineryError(f"enumeration too small for {fn}: {byfn.get(fn, 0)} < {k}")
    # sub-families of the audit: presentations of the input that reach the same code
    sub = {}
    for c in cases:
        for key in ("noise", "container", "enc", "variant", "src", "smode", "kind"):
            if key in c and isinstance(c[key], str):
                sub[f"{c['fn']}.{key}={c[key]}"] = sub.get(f"{c['fn']}.{key}={c[key]}", 0) + 1
        if c["fn"] == "euler_roundtrip_m" and c["noise"] != "none" and AUD.gimbal_for(c["axes"], c["M"]):
            sub["euler_roundtrip_m.noisy_gimbal_locked"] = sub.get("euler_roundtrip_m.noisy_gimbal_locked", 0) + 1
        if c["fn"] == "transform_points_ni" and c["sh"] >= 29:
            sub["transform_points_ni.within_1e-8_of_identity"] = sub.get("transform_points_ni.within_1e-8_of_identity", 0) + 1
        if c["fn"] == "rotation_roundtrip_q" and AUD.deviation_of_audit(c):
            sub["rotation_roundtrip_q.angle_below_1.4e-4"] = sub.get("rotation_roundtrip_q.angle_below_1.4e-4", 0) + 1
        if c["fn"] == "compose_matrix" and "given" in c and not all(c["given"]):
            sub["compose_matrix.absent_factor"] = sub.get("compose_matrix.absent_factor", 0) + 1
    for key, k in AUD.NEED_SUB.items():
        if sub.get(key, 0) < k:
            raise MachineryError(f"enumeration too small for {key}: {sub.get(key, 0)} < {k}")
    # bounded rounds and a bounded heap: 16 JVMs holding a few thousand parsed records each
    os.environ.setdefault("JAVA_TOOL_OPTIONS", "-Xmx3g")
    rejects, states, wall = {}, 0, 0.0
    for lo in range(0, len(cases), ROUND):
        rj, st, wl = tlc.validate_batches("c19", "TransformAlg", cases[lo:lo + ROUND], CFG)
        rejects.update(rj)
        states += st
        wall += wl
    if states != len(cases):
        raise MachineryError(f"TLC judged {states} of {len(cases)} records")
    badin = [cid for cid, cl in rejects.items() if cl.startswith("BADINPUT") or cl == "unknown_function"]
    if badin:
        raise MachineryError(f"harness built an input the spec does not accept: {cases[badin[0]]}")
    dev_hits = {}
    skipped = 0
    for cid, clause in sorted(rejects.items()):
        c = cases[cid]
        if clause.startswith("SKIP_"):      # second half of a round trip whose first half is already rejected
            skipped += 1
            continue
        detail = {k: v for k, v in c.items() if k != "id"}
        dev = deviation_of(c)
        if dev:
            dev_hits[dev] = dev_hits.get(dev, 0) + 1
        V.violation(f"{c['fn']}:{clause}", detail, dev)
    gimbal = sum(1 for c in cases if c["fn"] in ("euler_matrix", "compose_matrix")
                 and c["ang"][1]["t"] == "k" and c["ang"][1]["k"] % 2 != 0)
    cov = {
        "states": states, "transitions": states,
        "traces_validated_against_impl": len(cases),
        "cases_per_function": byfn,
        "audit_subfamilies": sub,
        "conventions": len(AXES24),
        "gimbal_lock_inputs": gimbal,
        "rejected": len(rejects) - skipped,
        "round_trips_skipped_after_upstream_reject": skipped,
        "rejected_by_deviation": dev_hits,
        "exhaustive": True,
        "tlc_wall_s": round(wall, 1),
        "samples": [cases[len(cases) // 7], cases[len(cases) // 2], cases[-1]],
    }
    return V.finish("model_checking", cov, assumptions=[
        "angles on the quarter-turn lattice {0, +-pi/2, +-pi}^3 (all gimbal-lock configurations), Pythagorean "
        "angles (3,4,5), (5,12,13) and rational rotations from integer quaternions with square norm; generic "
        "irrational angles only through matrix-level round trips",
        "scales 1/4 .. 8 in quarter units (a few negative), shears in quarter units, translations up to 60, no "
        "perspective",
        "audit families: near-identity matrices I + 2^-k J (k = 29 .. 36) on integer points up to 2^25; rotation "
        "matrices carrying rounding noise up to 1e-14 (products of float matrices, +-2^-49 per entry); rational "
        "rotations with angles down to 5e-5; produced rotations with irrational entries (align_vectors, "
        "plane_transform, random_rotation_matrix, fix_rigid) judged on their snapped Gram matrix, determinant and "
        "the images of the defining vectors; align_vectors is also required to rotate a onto b and plane_transform "
        "to flatten the plane (the documented meaning of the anchored functions); the angle returned by "
        "align_vectors(return_angle=True) is NOT constrained (the statement says nothing about it)",
        "the sense of rotation of planar_matrix and the sign of returned quaternions / axes are not constrained",
    ])


if __name__ == "__main__":
    try:
        sys.exit(main(sys.argv[1:]))
    except MachineryError as e:
        print("MACHINERY-ERROR:", e)
        sys.exit(2)
