"""X03 - referential integrity of the scene geometry registry (beyond the listed properties).

Component: trimesh/scene/scene.py (Scene.add_geometry incl. lists / dicts / scenes, delete_geometry,
duplicate_nodes, subscene, copy, strip_visuals, is_empty, bounds), trimesh/scene/transforms.py
(SceneGraph.update, nodes_geometry, geometry_nodes, remove_geometries, EnforcedForest.remove_node),
trimesh.util.unique_name.

spec -> code: TLC model-checks spec/SceneRegistry.tla (state invariants + one action property per
clause, every spec mutant / named deviation must make TLC report the clause it breaks), then emits
behaviours of the as-built machine (every history to a depth, simulated long ones).  Each behaviour
is replayed into a real trimesh.Scene: after every step the projected registry (scene.geometry with
object identity, node set, parent / translation of every node, node -> geometry attribute) and every
returned value are compared with what TLC computed; a closing sweep reads every listing.

Named deviation (DuplicateNodesNeedsBasePath): where the as-built machine departs from the stated
behaviour the emitted step says so; if the real code reproduces the departure it is reported as a
violation carrying the deviation id (so that it can be listed as a known finding), if it behaves as
stated instead the deviation is counted as obsolete, anything else is an unexplained violation.
"""
import json
import sys
import time
from concurrent.futures import ThreadPoolExecutor

import numpy as np

from harness import tlc
from harness.common import (MachineryError, Verdict, import_trimesh, pmap, seed,
                            tier_from_args)

PROP = "X03"
MODULE = "SceneRegistry"
DEV_DUP = "DuplicateNodesNeedsBasePath"

FLAGS = ["AsBuiltDupNeedsPath", "MutNoUniqueGeom", "MutNodeNotUnique",
         "MutReturnGeomName", "MutDeleteKeepsRefs", "MutForgetDirty", "MutSceneKeyNoGraph",
         "MutSubsceneEdgeTo", "MutSceneNoRemap"]
INVS = ["RefIntegrity", "InverseImage", "SubsceneCorrect"]
PROPS = ["AddReturns", "NoOverwrite", "NoOverwriteScene", "DeleteClean", "ListingFresh", "DupCorrect",
         "BoundsAgree"]


def cfg(objs="Objs2", gn="NamesA", nn="NamesN", lists="Lists1", dicts="Dicts1", rec="Rec13",
        ops="OpsMut", pm="inst", depth=3, emitting=False, view=True, check=None, flags=()):
    b = lambda x: "TRUE" if x else "FALSE"
    lines = ["CONSTANTS",
             f"  Objs <- {objs}", f"  GNames <- {gn}", f"  NNames <- {nn}", f"  Lists <- {lists}",
             f"  Dicts <- {dicts}", f"  Recipes <- {rec}", f"  Ops <- {ops}", f'  ParentMode = "{pm}"',
             f"  MaxDepth = {depth}", f"  Emitting = {b(emitting)}"]
    for f in FLAGS:
        lines.append(f"  {f} = {b(f in flags)}")
    lines.append("SPECIFICATION Spec")
    if view:
        lines.append("VIEW View")
    for c in (INVS + PROPS if check is None else check):
        lines.append(("INVARIANT " if (c in INVS or c.startswith("Emit")) else "PROPERTY ") + c)
    lines.append("CHECK_DEADLOCK FALSE")
    return "\n".join(lines) + "\n"


# ------------------------------------------------------------------ the real objects
_POOL = None
RECIPES = None  # set by main() before the workers fork
FACTS = None


_TX = {}
COPY_EVERY = 1  # the closing sweep copies the scene in every COPY_EVERY-th behaviour (quick tier: 3)


def T(x):
    M = np.eye(4)
    M[0, 3] = float(x)
    return M


def is_T(M):
    """M is exactly a translation by an integer along x -> that integer, else None"""
    if M.shape != (4, 4):
        return None
    x0 = float(M[0, 3])
    if x0 != round(x0):
        return None
    x = int(round(x0))
    ref = _TX.get(x)
    if ref is None:
        ref = _TX[x] = T(x)
    return x if np.array_equal(M, ref) else None


def make_pool():
    """The handful of small geometries the spec talks about (spec: Meta / File / HashClass)."""
    global _POOL
    if _POOL is not None:
        return _POOL
    trimesh = import_trimesh()
    from trimesh.parent import LoadSource
    box = trimesh.creation.box()
    box2 = box.copy()
    box2.apply_translation([3.0, 0.0, 0.0])  # identical content up to a translation
    tet = trimesh.Trimesh(vertices=[[0, 0, 0], [1, 0, 0], [0, 1, 0], [0, 0, 1]],
                          faces=[[0, 2, 1], [0, 1, 3], [0, 3, 2], [1, 2, 3]])
    tet.metadata["name"] = "a"
    tet._source = LoadSource(file_path="/data/t.obj")
    path = trimesh.load_path(np.array([[0, 0], [1, 0], [1, 1], [0, 0]], dtype=np.float64))
    path._source = LoadSource(file_path="/data/f.dxf")
    cloud = trimesh.PointCloud(np.array([[0, 0, 0], [1, 2, 3]], dtype=np.float64))
    objs = {"box": box, "box2": box2, "tet": tet, "path": path, "cloud": cloud}
    _POOL = {"objs": objs, "by_id": {id(o): k for k, o in objs.items()},
             "by_hash": {o.__hash__(): k for k, o in objs.items()}}
    return _POOL


def check_facts(facts):
    """The constants of the spec about the objects must be true of the real objects."""
    pool = make_pool()
    cls = {}
    for k, o in pool["objs"].items():
        f = facts[k]
        meta = o.metadata.get("name", "") if isinstance(o.metadata, dict) else ""
        fn = o.source.file_name or ""
        if meta != f["meta"] or fn != f["file"]:
            raise MachineryError(f"object {k}: metadata name {meta!r} / file name {fn!r}, spec says {f}")
        ih = getattr(o, "identifier_hash", None) if hasattr(o, "identifier_hash") else None
        if (ih is None) != (f["cls"] == 0):
            raise MachineryError(f"object {k}: identifier_hash {ih!r}, spec class {f['cls']}")
        if ih is not None:
            cls.setdefault(ih, set()).add(f["cls"])
    if any(len(v) != 1 for v in cls.values()) or len(cls) != len({f["cls"] for f in facts.values() if f["cls"]}):
        raise MachineryError(f"identifier_hash classes of the objects differ from HashClass: {cls}")
    if len(pool["by_hash"]) != len(pool["objs"]):
        raise MachineryError("two pool objects have the same content hash")


def as_list(x):
    """TLC serialises an empty function as {} and an empty sequence as []."""
    if isinstance(x, dict):
        return [x[k] for k in sorted(x, key=lambda s: int(s))] if x else []
    return list(x)


# ------------------------------------------------------------------ projections
BASE = "world"  # whether the base frame already has an entry in node_data is incidental: not compared


def canon_exp(stj):
    # the order of scene.geometry is not part of the stated behaviour: compared as a mapping
    return {"geo": frozenset((e["n"], e["o"]) for e in as_list(stj["geo"])),
            "ngeo": len(as_list(stj["geo"])),
            "nodes": frozenset(as_list(stj["nodes"])) - {BASE},
            "par": frozenset((e["v"], e["u"], e["x"]) for e in as_list(stj["par"])),
            "ng": frozenset((e["v"], e["g"]) for e in as_list(stj["ng"]))}


EMPTY = {"geo": frozenset(), "ngeo": 0, "nodes": frozenset(), "par": frozenset(), "ng": frozenset()}


class Replay:
    """One real Scene driven by one emitted behaviour."""

    def __init__(self, trimesh, variant):
        self.trimesh = trimesh
        self.Scene = trimesh.scene.scene.Scene
        self.pool = make_pool()
        self.scene = self.Scene()
        self.variant = variant
        self.r2t = {}
        self.t2r = {}

    # names: tokens "x#k" stand for the random names append_scenes hands out
    def tok(self, n):
        return self.r2t.get(n, n)

    def real(self, t):
        return self.t2r.get(t, t)

    def opt(self, t):
        return None if t == "" else self.real(t)

    def objkey(self, o, by_content=False):
        if by_content:
            try:
                return self.pool["by_hash"].get(o.__hash__(), "?")
            except BaseException:  # noqa
                return "?"
        return self.pool["by_id"].get(id(o), "?")

    def project(self, scene=None, by_content=False):
        s = self.scene if scene is None else scene
        tf = s.graph.transforms
        par = set()
        for v, u in tf.parents.items():
            e = tf.edge_data.get((u, v)) if (u, v) in tf.edge_data else None
            x = "noedge"
            if e is not None and "matrix" in e:
                x = is_T(np.asarray(e["matrix"], dtype=np.float64))
                if x is None:
                    x = "bad-matrix"
            par.add((self.tok(v), self.tok(u), x))
        return {"geo": frozenset((self.tok(k), self.objkey(o, by_content)) for k, o in s.geometry.items()),
                "ngeo": len(s.geometry),
                "nodes": frozenset(self.tok(n) for n in tf.node_data.keys()) - {BASE},
                "par": frozenset(par),
                "ng": frozenset((self.tok(n), self.tok(d["geometry"])) for n, d in tf.node_data.items() if "geometry" in d)}

    @staticmethod
    def diff(got, exp):
        for k in ("geo", "nodes", "par", "ng"):
            if got[k] != exp[k]:
                g, e = got[k], exp[k]
                return k, {"component": k, "got_only": sorted(map(str, g - e)), "exp_only": sorted(map(str, e - g))}
        if got["ngeo"] != exp["ngeo"]:
            return "geo", {"component": "len(geometry)", "got": got["ngeo"], "exp": exp["ngeo"]}
        return None, None

    def learn_random(self, exp):
        """add_geometry(Scene) gives taken node names a fresh name (today: name + 12 random hex digits).
        Bind each new real name to its token: the new name extends the old one; longest names first."""
        real_nodes = [n for n in self.scene.graph.transforms.node_data.keys()
                      if isinstance(n, str) and n not in self.r2t and n not in exp["nodes"]]
        for t in sorted((t for t in exp["nodes"] if "#" in t and t not in self.t2r), key=lambda t: -len(t.split("#")[0])):
            base = t.split("#")[0]
            c = [n for n in real_nodes if n.startswith(base) and len(n) > len(base)]
            if len(c) == 1:
                self.t2r[t] = c[0]
                self.r2t[c[0]] = t
                real_nodes.remove(c[0])

    # ---- reads
    def read_graph(self, e):
        g = self.scene.graph
        ngl = list(g.nodes_geometry)
        gn = g.geometry_nodes
        got_ng = frozenset(self.tok(n) for n in ngl)
        got_gn = {self.tok(k): frozenset(self.tok(n) for n in v) for k, v in dict(gn).items() if len(v) > 0}
        exp_ng = frozenset(as_list(e["ngl"]))
        exp_gn = {x["g"]: frozenset(as_list(x["ns"])) for x in as_list(e["gnl"])}
        if len(ngl) != len(set(ngl)) or got_ng != exp_ng:
            return "ListingFresh(nodes_geometry)", {"got": sorted(ngl), "exp": sorted(exp_ng)}
        if got_gn != exp_gn or any(len(v) != len(set(v)) for v in dict(gn).values()):
            return "ListingFresh(geometry_nodes)", {"got": {k: sorted(v) for k, v in got_gn.items()},
                                                    "exp": {k: sorted(v) for k, v in exp_gn.items()}}
        return None, None

    def read_scene(self, e, out):
        s = self.scene
        if bool(s.is_empty) != e["empty"] or len(s.geometry) != e["ngeo"]:
            return "EmptyAgrees", {"is_empty": bool(s.is_empty), "len": len(s.geometry), "exp": [e["empty"], e["ngeo"]]}
        exp_dup = frozenset(frozenset(as_list(g)) for g in as_list(e["dup"]))
        try:
            dn = s.duplicate_nodes
            exc = None
        except BaseException as ex:  # noqa
            dn, exc = None, type(ex).__name__ + ": " + str(ex)[:80]
        if exc is not None:
            if e["asbuilt_raises"]:
                out.append(("dev", "DupCorrect(raises)", DEV_DUP, {"exc": exc, "exp": sorted(sorted(g) for g in exp_dup)}))
            else:
                return "DupCorrect(raises)", {"exc": exc}
        else:
            got = frozenset(frozenset(self.tok(n) for n in g) for g in dn)
            if got != exp_dup or sum(len(g) for g in dn) != sum(len(g) for g in exp_dup):
                return "DupCorrect", {"got": sorted(sorted(g) for g in got), "exp": sorted(sorted(g) for g in exp_dup)}
            if e["asbuilt_raises"]:
                out.append(("obsolete", DEV_DUP))
        try:
            b = s.bounds
            bexc = None
        except BaseException as ex:  # noqa
            b, bexc = None, type(ex).__name__
        if not e["bounds_free"]:
            if bexc is not None or (b is None) != e["bnone"]:
                return "BoundsAgree", {"bounds_is_none": b is None, "exc": bexc, "exp_none": e["bnone"]}
        return None, None

    def read_sub(self, e):
        v = self.real(e["v"])
        sub = self.scene.subscene(v)
        exp = e["sub"]
        exp_nodes = frozenset(as_list(exp["nodes"]))
        got_nodes = frozenset(self.tok(n) for n in sub.graph.transforms.node_data.keys())
        if got_nodes != exp_nodes:
            return "Subscene(nodes)", {"v": e["v"], "got": sorted(got_nodes), "exp": sorted(exp_nodes)}
        if exp_nodes and sub.graph.base_frame != v:
            return "Subscene(base)", {"v": e["v"], "base": sub.graph.base_frame}
        want_geo = frozenset(as_list(exp["geos"]))
        for it in as_list(exp["inst"]):
            n = self.real(it["n"])
            M, g = sub.graph.get(n)
            if is_T(np.asarray(M, dtype=np.float64)) != it["rel"]:
                return "Subscene(placement)", {"v": e["v"], "node": it["n"], "got": np.asarray(M).tolist(), "exp_dx": it["rel"]}
            if (self.tok(g) if g is not None else "") != it["g"]:
                return "Subscene(geometry attr)", {"v": e["v"], "node": it["n"], "got": g, "exp": it["g"]}
        got_geo = frozenset(self.tok(k) for k in sub.geometry.keys())
        # the statement is silent about the geometry of `v` itself: allowed but not demanded
        allowed = want_geo | ({e["rootg"]} if e["rootg"] else frozenset())
        if not (want_geo <= got_geo <= allowed):
            return "Subscene(geometry)", {"v": e["v"], "got": sorted(got_geo), "exp": sorted(want_geo)}
        for k, o in sub.geometry.items():
            orig = self.scene.geometry.get(k)
            if orig is not o and (orig is None or orig.__hash__() != o.__hash__()):
                return "Subscene(geometry object)", {"v": e["v"], "name": k}
        return None, None

    def read_copy(self, cur):
        c = self.scene.copy()
        k, d = self.diff(self.project(c, by_content=True), cur)
        if k:
            return "Copy(" + k + ")", d
        for name, o in c.geometry.items():
            if o is self.scene.geometry.get(name):
                return "Copy(shares geometry)", {"name": name}
        if c.graph is self.scene.graph or c.graph.transforms is self.scene.graph.transforms:
            return "Copy(shares graph)", {}
        # the copy is independent: emptying it leaves the original as it was
        c.delete_geometry(list(c.geometry.keys()))
        for n in [n for n in list(c.graph.transforms.node_data.keys()) if n != c.graph.base_frame][:2]:
            c.graph.transforms.remove_node(n)
        k, d = self.diff(self.project(), cur)
        if k:
            return "Copy(independent:" + k + ")", d
        return None, None

    # ---- one step
    def step(self, i, e, cur, out):
        """-> (clause, detail, new current expected state); clause None when the step agrees."""
        s, op = self.scene, e["op"]
        O = self.pool["objs"]
        if op in ("add", "addlist", "adddict", "addscene"):
            kw = {}
            if op == "add":
                kw["geometry"] = O[e["o"]]
            elif op == "addlist":
                kw["geometry"] = [O[o] for o in e["os"]] if (self.variant + i) % 2 else tuple(O[o] for o in e["os"])
            elif op == "adddict":
                kw["geometry"] = {it["k"]: O[it["o"]] for it in as_list(e["d"])}
            else:
                kw["geometry"] = build_other(self.trimesh, e["k"])
            if op in ("add", "addlist"):
                if e["gn"]:
                    kw["geom_name"] = e["gn"]
                if e["nn"]:
                    kw["node_name"] = self.real(e["nn"])
                if e["p"]:
                    kw["parent_node_name"] = self.real(e["p"])
                kw["transform"] = T(e["x"])
            ret = s.add_geometry(**kw)
            exp = canon_exp(e["st"])
            if op == "addscene":
                self.learn_random(exp)
            if op == "add":
                gret, eret = self.tok(ret) if isinstance(ret, str) else repr(ret), e["ret"]
            elif op == "addlist":
                gret, eret = [self.tok(r) for r in ret] if isinstance(ret, list) else repr(ret), as_list(e["ret"])
            elif op == "adddict":
                gret = {k: self.tok(v) for k, v in ret.items()} if isinstance(ret, dict) else repr(ret)
                eret = {it["k"]: it["v"] for it in as_list(e["ret"])}
            else:
                gret, eret = ret, None
            got = self.project()
            k, d = self.diff(got, exp)
            if gret == eret and not k:
                return None, None, exp
            if gret != eret:
                return "AddReturns", {"returned": gret, "exp": eret}, exp
            return ("NoOverwriteScene(" if op == "addscene" else "AddRegistry(") + k + ")", d, exp
        if op == "delete":
            names = [self.real(n) for n in as_list(e["names"])]
            form = (self.variant + i) % 3
            arg = names[0] if (len(names) == 1 and form == 0) else (set(names) if form == 1 else names)
            ret = s.delete_geometry(arg)
            exp = canon_exp(e["st"])
            k, d = self.diff(self.project(), exp)
            return ("DeleteClean(" + k + ")" if k else None), d, exp
        if op == "instance":
            kw = {"frame_to": self.real(e["v"]), "matrix": T(e["x"]), "geometry": self.real(e["g"])}
            if e["p"]:
                kw["frame_from"] = self.real(e["p"])
            s.graph.update(**kw)
            exp = canon_exp(e["st"])
            k, d = self.diff(self.project(), exp)
            return ("Instance(" + k + ")" if k else None), d, exp
        if op == "rmnode":
            s.graph.transforms.remove_node(self.real(e["v"]))
            exp = canon_exp(e["st"])
            k, d = self.diff(self.project(), exp)
            return ("RemoveNode(" + k + ")" if k else None), d, exp
        # reads: the registry must stay what it was
        if op == "readgraph":
            c, d = self.read_graph(e)
        elif op == "readscene":
            c, d = self.read_scene(e, out)
        elif op == "subscene":
            c, d = self.read_sub(e)
        elif op == "copy":
            c, d = self.read_copy(cur)
        elif op == "strip":
            s.strip_visuals()
            c, d = None, None
        else:
            raise MachineryError("unknown op " + op)
        if c is None:
            k, d2 = self.diff(self.project(), cur)
            if k:
                return "ReadChangesRegistry(" + op + ":" + k + ")", d2, cur
        return c, d, cur




def build_other(trimesh, k):
    """A scene offered to add_geometry(Scene), built by the recipe the spec gives."""
    pool = make_pool()
    s = trimesh.scene.scene.Scene()
    for op in as_list(RECIPES[k]["ops"]):
        kw = {"geometry": pool["objs"][op["o"]]}
        if op["gn"]:
            kw["geom_name"] = op["gn"]
        if op["nn"]:
            kw["node_name"] = op["nn"]
        if op["p"]:
            kw["parent_node_name"] = op["p"]
        if op["x"]:
            kw["transform"] = T(op["x"])
        s.add_geometry(**kw)
    return s


def short(h):
    return [{k: v for k, v in e.items() if k not in ("st", "sub", "ngl", "gnl", "dup")} for e in h]


def replay_one(trimesh, beh, variant):
    """-> (list of findings, steps compared).  finding = (kind, clause, deviation, detail)"""
    R = Replay(trimesh, variant)
    out = []
    cur = EMPTY
    n = 0
    for i, e in enumerate(beh["h"]):
        try:
            c, d, cur = R.step(i, e, cur, out)
        except MachineryError:
            raise
        except BaseException as ex:  # noqa
            c, d = "Exception(" + e["op"] + ")", {"exc": type(ex).__name__ + ": " + str(ex)[:160]}
        n += 1
        if c is not None:
            d = dict(d or {})
            d["step"] = i
            out.append(("viol", c, None, d))
            return out, n
    fin = beh["fin"]
    try:
        for name, fn in (("readgraph", lambda: R.read_graph(fin)), ("readscene", lambda: R.read_scene(fin, out)),
                         ("readgraph2", lambda: R.read_graph(fin))):
            c, d = fn()
            n += 1
            if c is not None:
                out.append(("viol", c + "[sweep]", None, d))
                return out, n
        for sv in as_list(fin["subs"]):
            c, d = R.read_sub(sv)
            n += 1
            if c is not None:
                out.append(("viol", c + "[sweep]", None, d))
                return out, n
        if variant % COPY_EVERY == 0:
            c, d = R.read_copy(cur)
            n += 1
            if c is not None:
                out.append(("viol", c + "[sweep]", None, d))
                return out, n
        R.scene.strip_visuals()
        k, d = R.diff(R.project(), cur)
        if k:
            out.append(("viol", "StripVisuals(" + k + ")", None, d))
    except MachineryError:
        raise
    except BaseException as ex:  # noqa
        out.append(("viol", "Exception(sweep)", None, {"exc": type(ex).__name__ + ": " + str(ex)[:160]}))
    return out, n


def _replay_chunk(chunk):
    trimesh = import_trimesh()
    res, steps, ops = [], 0, {}
    for idx, raw in chunk:
        beh = json.loads(raw)
        out, n = replay_one(trimesh, beh, idx + seed())
        steps += n
        for e in beh["h"]:
            ops[e["op"]] = ops.get(e["op"], 0) + 1
            if e.get("reaim"):
                ops["(add re-aiming an existing node)"] = ops.get("(add re-aiming an existing node)", 0) + 1
        for kind, *rest in out:
            if kind == "obsolete":
                res.append(("obsolete", rest[0], None, None))
            else:
                clause, dev, det = rest
                det = dict(det)
                det["history"] = short(beh["h"])
                res.append((kind, clause, dev, det))
    return res, steps, len(chunk), ops


# ------------------------------------------------------------------ main
SELFTESTS = [
    # flag, clause TLC must report, config overrides
    ("AsBuiltDupNeedsPath", "DupCorrect", {}),
    ("MutNoUniqueGeom", "NoOverwrite", {}),
    ("MutNodeNotUnique", "NoOverwrite", {}),
    ("MutReturnGeomName", "AddReturns", {}),
    ("MutDeleteKeepsRefs", "DeleteClean", {}),
    ("MutDeleteKeepsRefs", "RefIntegrity", {}),
    ("MutForgetDirty", "ListingFresh", {}),
    ("MutSceneKeyNoGraph", "DupCorrect", {}),
    ("MutSceneKeyNoGraph", "BoundsAgree", {}),
    ("MutSubsceneEdgeTo", "SubsceneCorrect", {}),
    ("MutSceneNoRemap", "NoOverwriteScene", {"rec": "Rec13", "ops": "OpsMut"}),
]


def selftest(job):
    k, (flag, clause, over) = job
    d = tlc.prepare(f"x03/self{k}")
    kw = dict(objs="Objs1", gn="NamesA", nn="NamesA", lists="Lists0", dicts="Dicts0", rec="Rec0", ops="OpsCore",
              pm="inst", depth=6, check=[clause], flags=(flag,))
    kw.update(over)
    r = tlc.run(d, MODULE, cfg(**kw), workers=1, timeout=900)
    return flag, clause, r


def main(argv):
    global RECIPES, FACTS, COPY_EVERY
    tier = tier_from_args(argv)
    COPY_EVERY = 3 if tier == "quick" else 1
    V = Verdict(PROP, tier)
    trimesh = import_trimesh()
    quick = tier == "quick"
    cov = {"tlc_runs": []}
    states = trans = 0

    def note(name, r):
        nonlocal states, trans
        states += r.distinct
        trans += r.generated
        cov["tlc_runs"].append({"run": name, "distinct": r.distinct, "generated": r.generated,
                                "depth": r.depth, "wall_s": round(r.wall, 1)})

    # 0. constants of the spec about the objects, and the offered scenes
    d = tlc.prepare("x03/facts")
    r = tlc.must(tlc.run(d, MODULE, cfg(depth=0, emitting=True, check=["EmitRecipes", "EmitFacts"]), workers=1, timeout=600), "facts")
    rec = [p for p in r.printed if isinstance(p, list)]
    fac = [p for p in r.printed if isinstance(p, dict) and "box" in p]
    if len(rec) != 1 or len(fac) != 1:
        raise MachineryError("could not read recipes / facts from TLC: " + r.stdout[-800:])
    RECIPES = {x["k"]: x for x in rec[0]}
    FACTS = fac[0]
    check_facts(FACTS)
    probe = Replay(trimesh, 0)
    for k, x in RECIPES.items():
        probe.scene = build_other(trimesh, k)
        kk, dd = probe.diff(probe.project(), canon_exp(x["st"]))
        if kk:
            V.violation("RecipeScene(" + kk + ")", {"recipe": x["ops"], "diff": dd})

    # All TLC work is independent of the replay: run it concurrently (the emissions are single-worker).
    keep = ["RefIntegrity", "InverseImage", "SubsceneCorrect", "AddReturns", "NoOverwrite", "NoOverwriteScene", "DeleteClean",
            "ListingFresh", "BoundsAgree"]
    asb = ("AsBuiltDupNeedsPath",)
    wide = dict(objs="Objs5", gn="NamesAN", nn="NamesAN", lists="Lists2", rec="Rec1234", ops="OpsAll", pm="all")
    core = dict(objs="Objs1", gn="NamesA", nn="NamesA", lists="Lists0", dicts="Dicts0", rec="Rec0", ops="OpsCore", depth=4)
    mcs, emits = [], []
    # 1. model checking: the stated behaviour (no deviation, no mutant) satisfies every clause ...
    if quick:
        mcs.append(("mc stated behaviour Objs2 depth=3", cfg(depth=3), 4))
    else:
        mcs.append(("mc stated behaviour Objs2 depth=4", cfg(depth=4), 12))
        mcs.append(("mc stated behaviour Objs5 all ops depth=3", cfg(depth=3, **wide), 8))
    # ... and the as-built machine keeps every clause the deviation does not touch
    mcs.append(("mc as-built machine depth=3", cfg(depth=3, check=keep, flags=asb), 4))
    # 2. behaviours of the as-built machine
    if quick:
        emits.append(("all histories depth=3", dict(depth=3), None))
        emits.append(("all histories depth=4 one object core ops", core, None))
        emits.append(("simulate wide", dict(depth=8, **wide), 10))
    else:
        emits.append(("all histories depth=3", dict(depth=3), None))
        emits.append(("all histories depth=3 all objects core ops", dict(objs="Objs5", gn="NamesA", nn="NamesN", lists="Lists0", dicts="Dicts0",
                                                                        rec="Rec0", ops="OpsCore", depth=3), None))
        emits.append(("all histories depth=4 no explicit node names", dict(objs="Objs2", gn="NamesA", nn="Names0", lists="Lists0", dicts="Dicts0",
                                                                          rec="Rec13", ops="OpsMut", depth=4), None))
        emits.append(("all histories depth=4 one object core ops", core, None))
        for j in range(6):
            emits.append((f"simulate wide #{j}", dict(depth=6 + j, **wide), 40))

    def run_mc(job):
        k, (name, c, workers) = job
        return "mc", name, tlc.must(tlc.run(tlc.prepare(f"x03/mc{k}"), MODULE, c, workers=workers, timeout=9000), name)

    def run_self(job):
        flag, clause, rr = selftest(job)
        return "self", (flag, clause), rr

    def run_emit(job):
        k, (name, kw, nsim) = job
        dd = tlc.prepare(f"x03/emit{k}")
        c = cfg(emitting=True, view=False, check=["EmitLeaf"], flags=asb, **kw)
        if nsim is None:
            rr = tlc.must(tlc.run(dd, MODULE, c, workers=1, timeout=9000), name)
        else:
            rr = tlc.run(dd, MODULE, c, workers=1, simulate=f"num={nsim}", depth=kw["depth"] + 1,
                         seed=seed() * 101 + 7 + k, timeout=9000)
            if rr.violated or (rr.error and rr.error != "timeout"):
                raise MachineryError(f"{name} failed: {rr.violated} {rr.error}\n" + rr.stdout[-800:])
        return "emit", name, rr

    behs, counts, st = [], {}, {}
    with ThreadPoolExecutor(max_workers=6) as ex:
        futs = [ex.submit(run_emit, j) for j in enumerate(emits)]       # longest first
        futs += [ex.submit(run_mc, j) for j in enumerate(mcs)]
        futs += [ex.submit(run_self, j) for j in enumerate(SELFTESTS)]
        for f in futs:
            kind, name, rr = f.result()
            if kind == "mc":
                note(name, rr)
            elif kind == "self":
                # spec self-tests: every deviation / mutant makes TLC report the clause it breaks
                flag, clause = name
                st[f"{flag}->{clause}"] = rr.violated
                if rr.violated != clause:
                    raise MachineryError(f"spec self-test {flag}: expected {clause} to be reported, got {rr.violated} {rr.error}\n" + rr.stdout[-1500:])
                note(f"selftest {flag}->{clause}", rr)
            else:
                note("emit " + name, rr)
                # keep the behaviours as compact strings (a parsed behaviour costs ~10x the memory)
                got = [json.dumps(b, separators=(",", ":")) for b in rr.printed if isinstance(b, dict) and "h" in b]
                counts[name] = len(got)
                if len(got) < 100:
                    raise MachineryError(f"emission '{name}' too small: {len(got)}")
                behs += got
                rr.printed = rr.stdout = None
    cov["spec_selftests"] = st
    behs = sorted(set(behs))        # leaves of different simulated traces may coincide

    # 3. replay
    t0 = time.time()
    results = pmap(_replay_chunk, list(enumerate(behs)))
    n_steps = sum(r[1] for r in results)
    n_beh = sum(r[2] for r in results)
    ops, obsolete, confirmed = {}, {}, {}
    for res, _, _, o in results:
        for k, v in o.items():
            ops[k] = ops.get(k, 0) + v
        for kind, clause, dev, det in res:
            if kind == "obsolete":
                obsolete[clause] = obsolete.get(clause, 0) + 1
            elif kind == "dev":
                confirmed[dev] = confirmed.get(dev, 0) + 1
                V.violation(clause, det, dev)
            else:
                V.violation(clause, det)
    need = {"add", "delete", "instance", "rmnode", "readgraph", "readscene", "addlist", "adddict", "addscene",
            "subscene", "copy", "strip"}
    if n_beh < 1000 or not need <= set(ops):
        raise MachineryError(f"replay too small: {n_beh} behaviours, ops {sorted(ops)}")
    sample = [short(json.loads(behs[i])["h"]) for i in (0, len(behs) // 2, len(behs) - 1)]
    cov.update({
        "states": states, "transitions": trans,
        "traces_validated_against_impl": n_beh,
        "steps_compared": n_steps,
        "behaviours": counts, "distinct_behaviours_replayed": n_beh,
        "operations_replayed": ops,
        "deviation_steps_reproduced_by_code": confirmed,
        "deviation_steps_not_reproduced(obsolete)": obsolete,
        "replay_wall_s": round(time.time() - t0, 1),
        "exhaustive": True,
        "samples": sample,
    })
    return V.finish("model_checking", cov, assumptions=[
        "five small geometries (box, translated copy of it, tetrahedron with metadata name and file name, Path2D with file name, PointCloud)",
        "names offered by the caller: 'a', 'n' (plus 'b' in the dict); node placements are x-translations",
        "parent_node_name only names existing nodes; explicit node names never close a cycle and never name the base frame",
        "base frame 'world' is never removed; geometry names handed to graph.update exist",
        "the fresh node names append_scenes hands out are recognised as extensions of the name they replace",
        "Scene.deduplicated() does not exist in this version of trimesh: not exercised",
    ])


if __name__ == "__main__":
    try:
        sys.exit(main(sys.argv[1:]))
    except MachineryError as e:
        print("MACHINERY-ERROR:", e)
        sys.exit(2)
