"""C08 - export then load round-trips geometry in every supported format.

spec/Exchange.tla: round trip as a projection onto what the format carries (capability table
per format/option: vertex identity, face colours, vertex colours, alpha), projection algebra
(idempotent, monotone, commuting) checked by TLC, and every chain of up to MaxHops formats
emitted with the expected abstract state after each hop.  Each chain is replayed on real
meshes (coordinates exactly representable in float32 so every precision class is lossless):
after every hop the triangles must be the original triangles in the original order, and
vertex/face arrays and colours must equal the original ones exactly where the state says they
are carried; the exported object's hash must be unchanged by exporting.  Point clouds, paths,
voxel grids and instanced scenes are round-tripped through their own formats, and a family of
non-representable coordinates is compared with the format's quantisation.
This is encode/decode fidelity: the specification is the capability oracle and the chain /
option enumerator; the claim is exploration-level.

Coverage audit (second version): the capability table (spec/ExchangeCaps.tla) has one entry per
(format, option variant) - 29 mesh variants including multi-file glTF with merged / embedded
buffers, vertex normals, OBJ digits / header / colour switches, 3MF batch size and compression,
loader options - and tables for point clouds, paths, voxel grids and scenes.  Chains run over all
variants for two geometry classes (with / without unreferenced vertices; duplicate vertices,
degenerate and repeated faces), vertex colours are compared corner by corner.  On top of the
chains, single round trips of every kind are RECORDED (checks/c08_records.py) and judged by TLC
(spec/ExchangeRecords.tla): derived values read before exporting, exporting twice, empty
geometry, seeded random meshes / clouds / grids, non-representable coordinates at the format's
precision class, other entry points (file names, file objects, pathlib, overwrite), large index
values through every text format, entity kinds of paths, scene configurations.
"""
import io
import sys

import numpy as np

from harness import tlc
from harness.common import (MachineryError, Verdict, import_trimesh, pmap, seed,
                            tier_from_args)
from checks import c08_records as R

PROP = "C08"

CFG = """CONSTANTS
  Formats <- {formats}
  MaxHops = {hops}
SPECIFICATION Spec
{invs}
CHECK_DEADLOCK FALSE
"""


def cfg(hops, invs, formats="MeshFormats"):
    return CFG.format(hops=hops, formats=formats, invs="\n".join("INVARIANT " + i for i in invs))


CFG_REC = """INIT Init
NEXT Next
INVARIANT Report
CHECK_DEADLOCK FALSE
"""

# seed meshes of the chains by geometry class of Exchange.tla
CHAIN_SEEDS = {"clean": ["box_fc", "box_vc", "box_plain", "two_tets_vc", "one_face_fc", "odd_coords_fc", "dup_vc", "dup_fc"],
               "unref": ["messy_vc", "messy_fc", "messy_plain"]}


def export_load(tm, m, fmt):
    """One hop through a (format, option variant) of spec/ExchangeCaps.tla."""
    ft, ekw, lkw = R.MESH_VARIANTS[fmt]
    snap = R._source_snapshot(m)
    data = m.export(file_type=ft, **ekw)
    src_ok = R._source_same(m, snap)
    r = R.load_back(tm, data, ft, lkw, "mesh")
    return r, src_ok


def replay_chain(tm, gname, chain):
    g0, spec = R.build_mesh(tm, gname)
    v0, f0, kind0, cols0, _ = spec
    tri0 = v0[f0]
    g = g0
    for i, hop in enumerate(chain):
        fmt, exp = hop["fmt"], hop["exp"]
        try:
            g, src_ok = export_load(tm, g, fmt)
        except MachineryError:
            raise
        except BaseException as e:  # noqa
            return {"clause": "round_trip_raises", "hop": i, "fmt": fmt, "exc": type(e).__name__ + ": " + str(e)[:80]}
        if not src_ok:
            return {"clause": "ExportLeavesSourceUnchanged", "hop": i, "fmt": fmt}
        if not isinstance(g, tm.Trimesh):
            return {"clause": "triangles_same_order", "hop": i, "fmt": fmt, "got": type(g).__name__}
        try:
            tri = np.array(g.triangles)
            gv, gf = np.array(g.vertices), np.array(g.faces)
            gkind = g.visual.kind
            gcol = np.array(g.visual.face_colors) if gkind == "face" else np.array(g.visual.vertex_colors) if gkind == "vertex" else None
        except MachineryError:
            raise
        except BaseException as e:  # noqa
            # e.g. faces that point at vertices which are not there: the loaded object cannot even be read
            return {"clause": "loaded_object_unusable", "hop": i, "fmt": fmt, "exc": type(e).__name__ + ": " + str(e)[:80]}
        if tri.shape != tri0.shape or not np.array_equal(tri, tri0):
            return {"clause": "triangles_same_order", "hop": i, "fmt": fmt,
                    "max_abs_diff": float(np.abs(tri - tri0).max()) if tri.shape == tri0.shape else "shape %s" % (tri.shape,)}
        if exp["vid"]:
            if not (np.array_equal(gv, v0) and np.array_equal(gf, f0)):
                return {"clause": "vertex_identity", "hop": i, "fmt": fmt, "vertices_in": len(v0), "vertices_out": len(gv)}
        if exp["fc"] and kind0 == "fc":
            n = 4 if exp["alpha"] else 3
            if gkind != "face" or gcol.shape != cols0.shape or not np.array_equal(gcol[:, :n], cols0[:, :n]):
                return {"clause": "face_colours_carried", "hop": i, "fmt": fmt, "kind": gkind}
        if exp["vc"] and kind0 == "vc":
            # corner by corner: comparable whether or not the format renumbered the vertices
            n = 4 if exp["alpha"] else 3
            ok = gkind == "vertex" and gcol.shape == (len(gv), 4) and np.array_equal(gcol[gf][..., :n], cols0[f0][..., :n])
            if not ok:
                return {"clause": "vertex_colours_carried", "hop": i, "fmt": fmt, "kind": gkind}
    return None


def _chunk(args):
    tm = import_trimesh()
    out = []
    hops = 0
    for sname, chain in args:
        f = replay_chain(tm, sname, chain)
        hops += len(chain)
        if f:
            f.update({"seed_geometry": sname, "chain": [h["fmt"] for h in chain]})
            out.append(f)
    return out, hops, len(args)


# ------------------------------------------------------------------ other geometry kinds
class _guard:
    """A loaded object that cannot even be compared (faces pointing at vertices that are not there, arrays of
    the wrong rank, ...) contradicts the property just as a wrong value does: report it, do not crash."""

    def __init__(self, V, clause, detail):
        self.V, self.clause, self.detail = V, clause, detail

    def __enter__(self):
        return self

    def __exit__(self, et, ev, tb):
        if et is None or issubclass(et, (MachineryError, KeyboardInterrupt, SystemExit, MemoryError)):
            return False
        d = dict(self.detail)
        d["exc"] = et.__name__ + ": " + str(ev)[:80]
        self.V.violation(self.clause, d)
        return True


def other_kinds(tm, V):
    n = 0
    kinds = set()
    # point clouds
    pv = np.array([[0, 0, 0], [1.5, -2, 0.25], [3, 3, 3], [-8, 0.5, 4], [1024, 2048, -4096.5]])
    pc = (np.arange(20).reshape(5, 4) * 11 % 250 + 2).astype(np.uint8)
    for name, cloud, fmts in (("cloud_colors", lambda: tm.PointCloud(pv.copy(), colors=pc.copy()), ("xyz", "ply", "glb")),
                              ("cloud_plain", lambda: tm.PointCloud(pv.copy()), ("xyz", "ply", "glb"))):
        for ft in fmts:
            c = cloud()
            h0 = c.__hash__()
            try:
                data = c.export(file_type=ft)
                raw = data.encode() if isinstance(data, str) else data
                r = tm.load(io.BytesIO(raw), file_type=ft, process=False)
                if isinstance(r, tm.Scene):
                    r = list(r.geometry.values())[0]
            except BaseException as e:  # noqa
                V.violation("pointcloud:round_trip_raises", {"kind": name, "fmt": ft, "exc": type(e).__name__ + ": " + str(e)[:80]})
                continue
            n += 1
            kinds.add((name, ft))
            with _guard(V, "pointcloud:loaded_object_unusable", {"kind": name, "fmt": ft}):
                if c.__hash__() != h0:
                    V.violation("pointcloud:ExportLeavesSourceUnchanged", {"kind": name, "fmt": ft})
                if not np.array_equal(np.array(r.vertices), pv):
                    V.violation("pointcloud:points_same_order", {"kind": name, "fmt": ft})
                if name == "cloud_colors" and ft in ("xyz", "ply", "glb"):
                    got = np.array(r.colors) if hasattr(r, "colors") else np.zeros((0, 4))
                    if got.shape[0] != 5 or not np.array_equal(got[:, :3], pc[:, :3]):
                        V.violation("pointcloud:colours_carried", {"kind": name, "fmt": ft})
    # paths: segments through dxf / svg / dict
    from trimesh.path.entities import Line
    v2 = np.array([[0, 0], [4, 0], [4, 3], [0, 3], [1, 1], [2, 1], [2, 2]], dtype=float)
    def path():
        return tm.path.Path2D(entities=[Line([0, 1, 2]), Line([2, 3, 0]), Line([4, 5, 6, 4])], vertices=v2.copy(), process=False)
    def segs(p):
        s = []
        for e in p.entities:
            d = np.array(e.discrete(p.vertices))
            for a, b in zip(d[:-1], d[1:]):
                s.append(tuple(sorted([tuple(np.round(a, 9)), tuple(np.round(b, 9))])))
        return sorted(s)
    want = segs(path())
    for ft in ("dxf", "svg", "dict"):
        p = path()
        h0 = p.__hash__()
        try:
            data = p.export(file_type=ft)
            if ft == "dict":
                r = tm.load_path(data)
            else:
                raw = data.encode() if isinstance(data, str) else data
                r = tm.load_path(io.BytesIO(raw), file_type=ft)
        except BaseException as e:  # noqa
            V.violation("path:round_trip_raises", {"fmt": ft, "exc": type(e).__name__ + ": " + str(e)[:80]})
            continue
        n += 1
        kinds.add(("path", ft))
        with _guard(V, "path:loaded_object_unusable", {"fmt": ft}):
            if p.__hash__() != h0:
                V.violation("path:ExportLeavesSourceUnchanged", {"fmt": ft})
            got = segs(r)
            if got != want:
                V.violation("path:segments", {"fmt": ft, "n_got": len(got), "n_want": len(want)})
    # voxel grid through binvox
    cells = (np.arange(27).reshape(3, 3, 3) % 3) != 1
    T = np.eye(4) * 0.5
    T[3, 3] = 1.0
    T[:3, 3] = [1, 2, 3]
    vg = tm.voxel.VoxelGrid(cells.copy(), transform=T)
    h0 = vg.__hash__()
    try:
        r = tm.load(io.BytesIO(vg.export(file_type="binvox")), file_type="binvox")
        n += 1
        kinds.add(("voxel", "binvox"))
        if vg.__hash__() != h0:
            V.violation("voxel:ExportLeavesSourceUnchanged", {})
        if not np.array_equal(np.array(r.encoding.dense), cells):
            V.violation("voxel:cells", {})
        if not np.allclose(np.sort(np.array(r.points), axis=0), np.sort(np.array(vg.points), axis=0), atol=1e-6):
            V.violation("voxel:cell_centres", {})
    except BaseException as e:  # noqa
        V.violation("voxel:round_trip_raises", {"exc": type(e).__name__ + ": " + str(e)[:80]})
    # instanced scene: placement of every instance
    def scene():
        b = tm.creation.box(extents=[1, 2, 3])
        t = tm.Trimesh([[0, 0, 0], [2, 0, 0], [0, 4, 0], [0, 0, 1]], [[0, 2, 1], [0, 1, 3], [1, 2, 3], [2, 0, 3]], process=False)
        s = tm.Scene()
        A = np.eye(4)
        A[:3, :3] = [[0, -1, 0], [1, 0, 0], [0, 0, 1]]
        A[:3, 3] = [4, 0, 2]
        B = np.eye(4)
        B[:3, 3] = [0, 8, 0]
        s.add_geometry(b, node_name="a", geom_name="box", transform=A)
        s.graph.update(frame_to="b", frame_from="a", matrix=B, geometry="box")
        s.add_geometry(t, node_name="c", geom_name="tet", parent_node_name="b", transform=A)
        return s
    def tribag(s):
        t = np.round(np.array(s.triangles).reshape(-1, 9), 6)
        return sorted(map(tuple, t.tolist()))
    want = tribag(scene())
    for ft in ("glb", "3mf", "obj", "ply", "stl"):       # Scene.export has no dae exporter
        s = scene()
        h0 = s.__hash__()
        try:
            data = s.export(file_type=ft)
            raw = data.encode() if isinstance(data, str) else data
            r = tm.load_scene(io.BytesIO(raw), file_type=ft, process=False)
        except BaseException as e:  # noqa
            V.violation("scene:round_trip_raises", {"fmt": ft, "exc": type(e).__name__ + ": " + str(e)[:80]})
            continue
        n += 1
        kinds.add(("scene", ft))
        with _guard(V, "scene:loaded_object_unusable", {"fmt": ft}):
            if s.__hash__() != h0:
                V.violation("scene:ExportLeavesSourceUnchanged", {"fmt": ft})
            got = tribag(r)
            if got != want:
                V.violation("scene:instance_placement", {"fmt": ft, "n_got": len(got), "n_want": len(want)},
                            "ThreeMFSceneRoundTrip" if ft == "3mf" else None)
    # a group node (no geometry) carrying a rotation, with an offset instance underneath, next to a top-level
    # instance: nested transforms that do not commute; and an empty geometry registered before real ones
    def grouped(with_empty):
        b = tm.creation.box(extents=[1, 2, 3])
        t = tm.Trimesh([[0, 0, 0], [2, 0, 0], [0, 4, 0], [0, 0, 1]], [[0, 2, 1], [0, 1, 3], [1, 2, 3], [2, 0, 3]], process=False)
        s = tm.Scene()
        if with_empty:
            s.add_geometry(tm.Trimesh(), geom_name="nothing", node_name="nothing")
        G = np.eye(4)
        G[:3, :3] = [[0, -1, 0], [1, 0, 0], [0, 0, 1]]
        G[:3, 3] = [0, 5, 0]
        O = np.eye(4)
        O[:3, 3] = [7, 0, 0]
        P = np.eye(4)
        P[:3, 3] = [20, 0, 0]
        s.add_geometry(b, geom_name="box", node_name="box", transform=P)
        s.graph.update(frame_from="world", frame_to="group", matrix=G)
        s.add_geometry(b, geom_name="box", node_name="inner", parent_node_name="group", transform=O)
        s.add_geometry(t, geom_name="tet", node_name="tet", parent_node_name="group", transform=P)
        return s
    for with_empty in (False, True):
        want = tribag(grouped(with_empty))
        for ft in ("glb", "3mf"):
            s = grouped(with_empty)
            try:
                data = s.export(file_type=ft)
                r = tm.load_scene(io.BytesIO(data), file_type=ft, process=False)
            except BaseException as e:  # noqa
                V.violation("scene:round_trip_raises", {"fmt": ft, "grouped": True, "empty_geometry_first": with_empty, "exc": type(e).__name__ + ": " + str(e)[:80]})
                continue
            n += 1
            kinds.add(("scene_grouped%d" % with_empty, ft))
            with _guard(V, "scene:loaded_object_unusable", {"fmt": ft, "grouped": True}):
                got = tribag(r)
                if got != want:
                    V.violation("scene:instance_placement", {"fmt": ft, "grouped": True, "empty_geometry_first": with_empty, "n_got": len(got), "n_want": len(want)})
    # large index values: an un-merged soup whose vertex indices exceed 65535 although it has fewer than 65535 faces
    nf = 22000
    sv = np.zeros((nf * 3, 3))
    sv[:, 0] = np.arange(nf * 3) % 251
    sv[:, 1] = (np.arange(nf * 3) // 251) % 263
    sv[:, 2] = (np.arange(nf * 3) * 7) % 13
    sf = np.arange(nf * 3).reshape(-1, 3)
    for fmt in ("glb", "ply", "off", "dict64"):
        try:
            big = tm.Trimesh(sv.copy(), sf.copy(), process=False)
            r, src_ok = export_load(tm, big, fmt)
        except BaseException as e:  # noqa
            V.violation("large_indices:round_trip_raises", {"fmt": fmt, "exc": type(e).__name__ + ": " + str(e)[:80]})
            continue
        n += 1
        kinds.add(("large_indices", fmt))
        with _guard(V, "large_indices:loaded_object_unusable", {"fmt": fmt}):
            if not src_ok:
                V.violation("large_indices:ExportLeavesSourceUnchanged", {"fmt": fmt})
            tri = np.array(r.triangles)
            if tri.shape != (nf, 3, 3) or not np.array_equal(tri, sv[sf]):
                bad = int((np.abs(tri - sv[sf]).reshape(nf, -1).max(axis=1) > 0).sum()) if tri.shape == (nf, 3, 3) else -1
                V.violation("large_indices:triangles_same_order", {"fmt": fmt, "faces": nf, "wrong_faces": bad})
    # coordinates that are not representable: loaded value equals the format's quantisation of the input
    x = np.array([[1 / 3, -2 / 7, 1e-20], [1e20, 123456.789, -0.1], [3.141592653589793, 2.718281828459045, 1.4142135623730951]])
    m0 = tm.Trimesh(x.copy(), [[0, 1, 2]], process=False)
    for fmt, q in (("stl", "f32"), ("ply", "f32"), ("glb", "f32"), ("dict64", "f64"), ("dict", "f64"), ("obj", "text"), ("off", "text"), ("3mf", "text"), ("stl_ascii", "text")):
        try:
            r, _ = export_load(tm, tm.Trimesh(x.copy(), [[0, 1, 2]], process=False), fmt)
        except BaseException as e:  # noqa
            V.violation("quantisation:round_trip_raises", {"fmt": fmt, "exc": type(e).__name__ + ": " + str(e)[:80]})
            continue
        n += 1
        kinds.add(("quantisation", fmt))
        with _guard(V, "quantisation:loaded_object_unusable", {"fmt": fmt}):
            got = np.array(r.triangles).reshape(-1, 3)
            if q == "f32":
                ok = np.array_equal(got, x.astype(np.float32).astype(np.float64))
            elif q == "f64":
                ok = np.array_equal(got, x)
            else:
                ok = np.allclose(got, x, rtol=1e-6, atol=1e-8)
            if not ok:
                V.violation("quantisation:" + q, {"fmt": fmt, "got": got.tolist()})
    return n, kinds


def run_records(V, tables, tier):
    """Recorded single round trips, judged by TLC (spec/ExchangeRecords.tla)."""
    R.set_tables(tables)
    items = R.enumerate_items(tables, tier, seed())
    # heavy items first so that the pool stays busy
    order = sorted(range(len(items)), key=lambda k: (0 if items[k][3].startswith("soup:") else 1, k))
    items = [items[k] for k in order]
    res = pmap(R.chunk_worker, items, chunk=6)
    recs = [r for ch in res for r in ch]
    if len(recs) != len(items):
        raise MachineryError("records lost: %d of %d" % (len(recs), len(items)))
    fam_n, fam_eval = {}, {}
    for k, r in enumerate(recs):
        r["id"] = k + 1
        fam_n[r["fam"]] = fam_n.get(r["fam"], 0) + 1
        fam_eval[r["fam"]] = fam_eval.get(r["fam"], 0) + (1 if r["exc"] == "" else 0)
    for fam, least in R.MIN_PER_FAMILY.items():
        if fam_n.get(fam, 0) < least:
            raise MachineryError("family %s has only %d records (expected at least %d)" % (fam, fam_n.get(fam, 0), least))
    rejects, states, wall = tlc.validate_batches("c08/rec", "ExchangeRecords", recs, CFG_REC, timeout=1200,
                                                 shards=4 if tier == "quick" else 16)
    by_id = {r["id"]: r for r in recs}
    napp = 0
    for cid, clause in sorted(rejects.items()):
        if cid not in by_id:
            raise MachineryError("TLC rejected unknown id %s" % cid)
        parts = clause.split(" ", 1)
        cl = parts[0]
        dev = parts[1].strip().strip('"') if len(parts) > 1 else "none"
        r = by_id[cid]
        if cl in ("not_applicable", "unknown_kind"):
            raise MachineryError("record %s outside the tables: %s" % (cid, cl))
        detail = {"family": r["fam"], "variant": r["fmt"], "geometry": r["geom"], "class": r["cls"]}
        if r["extra"]:
            detail["extra"] = r["extra"]
        if r["exc"]:
            detail["exc"] = r["exc"]
        else:
            detail["observed"] = r["obs"]
        V.violation("%s:%s" % (r["kind"], cl), detail, None if dev == "none" else dev)
        napp += 1
    # every round trip that raised has been recorded as a violation above; a family in which hardly anything
    # returned is reported as well (after the violations, so that they are what the run reports)
    for fam in R.MIN_PER_FAMILY:
        if fam_eval.get(fam, 0) * 4 < fam_n[fam]:
            raise MachineryError("family %s: only %d of %d round trips returned at all" % (fam, fam_eval.get(fam, 0), fam_n[fam]))
    sample = [{k: r[k] for k in ("kind", "fam", "fmt", "geom", "cls", "obs")} for r in (recs[len(recs) // 7], recs[(len(recs) * 5) // 6])]
    return {"records": len(recs), "records_by_family": fam_n, "round_trips_returned_by_family": fam_eval,
            "records_rejected_by_tlc": napp, "validator_states": states, "validator_wall_s": round(wall, 1)}, sample


def main(argv):
    import time
    tier = tier_from_args(argv)
    V = Verdict(PROP, tier)
    tm = import_trimesh()
    phase, t0 = {}, time.time()

    def lap(name):
        nonlocal t0
        phase[name] = round(time.time() - t0, 1)
        t0 = time.time()
    d = tlc.prepare("c08/mc")
    r = tlc.must(tlc.run(d, "Exchange", cfg(2 if tier == "quick" else 3, ["Idempotent", "Monotone", "Commute", "MeetOfChain"])), "algebra")
    states, trans = r.distinct, r.generated
    lap("tlc_algebra")
    hops = 2 if tier == "quick" else 3
    r2 = tlc.must(tlc.run(d, "Exchange", cfg(hops, ["Emit", "EmitTables"]), workers=1, timeout=1800), "emit")
    tabs = [x for x in r2.printed if isinstance(x, dict) and "mesh" in x]
    if len(tabs) != 1:
        raise MachineryError("capability tables not emitted")
    tables = tabs[0]
    R.check_tables(tables)
    chains = [x for x in r2.printed if isinstance(x, dict) and "hops" in x]
    states += r2.distinct
    trans += r2.generated
    lap("tlc_emit_chains")
    nfmt = len(tables["mesh"])
    if len(chains) < 2 * (nfmt + nfmt * nfmt):
        raise MachineryError("too few chains: %d" % len(chains))
    for c in chains[:50]:
        for h in c["hops"]:
            if h["fmt"] not in R.MESH_VARIANTS:
                raise MachineryError("chain over unknown variant " + h["fmt"])
    work = []
    per_class = {}
    for ci, c in enumerate(chains):
        sd = CHAIN_SEEDS[c["geom"]]
        ch = c["hops"]
        per_class[c["geom"]] = per_class.get(c["geom"], 0) + 1
        if len(ch) == 1:
            for s in sd:
                work.append((s, ch))
        else:
            for s in {sd[ci % len(sd)], sd[(ci * 5 + 2 + seed()) % len(sd)]}:
                work.append((s, ch))
    if min(per_class.get(k, 0) for k in CHAIN_SEEDS) < nfmt:
        raise MachineryError("a geometry class has no chains: %s" % per_class)
    res = pmap(_chunk, work, chunk=20)
    nhops = sum(x[1] for x in res)
    nchains = sum(x[2] for x in res)
    for x in res:
        for f in x[0]:
            V.violation("mesh:" + f["clause"], f)
    lap("replay_chains")
    n_other, kinds = other_kinds(tm, V)
    lap("legacy_other_kinds")
    rec_cov, rec_samples = run_records(V, tables, tier)
    lap("records_and_validation")
    states += rec_cov["validator_states"]
    trans += rec_cov["validator_states"]
    distinct = len({(s, tuple(h["fmt"] for h in ch)) for s, ch in work}) + len(kinds) + rec_cov["records"]
    cov = {"evaluations": nhops + n_other + rec_cov["records"], "distinct_nontrivial": distinct,
           "rule": "every chain of <= %d hops over %d mesh format/option variants for 2 geometry classes on %d seed meshes "
                   "(face/vertex coloured, plain, two bodies, single face, odd coordinates, duplicate vertices, degenerate and "
                   "repeated faces, unreferenced vertices) + legacy point cloud, path, voxel, instanced scene and quantisation "
                   "cases + recorded single round trips of every geometry kind judged by TLC (families in records_by_family); "
                   "distinct = distinct (geometry, format chain) pairs + records" % (hops, nfmt, sum(len(v) for v in CHAIN_SEEDS.values())),
           "states": states, "transitions": trans, "chains": nchains, "hops": nhops, "other_kind_round_trips": n_other,
           "traces_validated_against_impl": nchains + rec_cov["records"],
           "variants": {k: len(v) for k, v in R.VARIANTS.items()}, "phase_wall_s": phase,
           "samples": [[h["fmt"] for h in chains[len(chains) // 2]["hops"]], [h["fmt"] for h in chains[-1]["hops"]],
                       sorted(map(list, kinds))[:5]] + rec_samples}
    cov.update(rec_cov)
    return V.finish("exploration", cov, assumptions=[
        "coordinates exactly representable in float32 for the exact comparisons; separate families check quantisation of non-representable values at the precision class of the variant",
        "a colour kind is demanded of a variant only if its exporter writes it by design (capability tables in ExchangeCaps.tla)",
        "vertex colours are compared corner by corner of every triangle; vertex / face arrays only where the variant keeps vertex identity",
        "path curves are compared as curves (Hausdorff distance of the sampled polylines, 2e-4 of the path size; 1e-3 for 3-digit SVG), straight segments exactly at the precision class",
    ])


if __name__ == "__main__":
    try:
        sys.exit(main(sys.argv[1:]))
    except MachineryError as e:
        print("MACHINERY-ERROR:", e)
        sys.exit(2)
    except Exception as e:  # noqa  an exception of the harness itself is never a verdict
        import traceback
        traceback.print_exc()
        print("MACHINERY-ERROR: unexpected %s: %s" % (type(e).__name__, e))
        sys.exit(2)
