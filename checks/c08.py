"""C08 - export then load round-trips geometry in every supported format.

spec/Exchange.tla: round trip as a projection onto what the format carries (capability table
per format/option: vertex identity, face colours, vertex colours, alpha), projection algebra
(idempotent, monotone, commuting) checked by TLC, and every chain of up to MaxHops formats
emitted with the expected abstract state after each hop.  Each chain is replayed on real
meshes (coordinates exactly representable in float32 so every precision class is lossless):
after every hop the triangles must be the original triangles in the original order, and
vertex/face arrays and colours must equal the original ones exactly where the state says they
are carried; the exported object's hash must be unchanged by exporting.  Point clouds, paths,
voxel grids and instanced scenes are round-tripped through their own formats, and a family of
non-representable coordinates is compared with the format's quantisation.
This is encode/decode fidelity: the specification is the capability oracle and the chain /
option enumerator; the claim is exploration-level.
"""
import io
import sys

import numpy as np

from harness import tlc
from harness.common import (MachineryError, Verdict, import_trimesh, pmap, seed,
                            tier_from_args)

PROP = "C08"

CFG = """CONSTANTS
  Formats <- MeshFormats
  MaxHops = {hops}
SPECIFICATION Spec
{invs}
CHECK_DEADLOCK FALSE
"""


def cfg(hops, invs):
    return CFG.format(hops=hops, invs="\n".join("INVARIANT " + i for i in invs))


FMT_OPTS = {"ply_ascii": ("ply", {"encoding": "ascii"}), "stl_ascii": ("stl_ascii", {})}


def seeds(tm):
    out = {}
    b = tm.creation.box(extents=[1, 2, 3])
    bv = np.array(b.vertices) + [0.5, 1.0, 1.5]
    bf = np.array(b.faces)

    def mk(v, f, kind):
        m = tm.Trimesh(np.array(v, dtype=np.float64), np.array(f), process=False)
        if kind == "fc":
            m.visual.face_colors = (np.arange(len(f) * 4).reshape(-1, 4) * 5 % 250 + 3).astype(np.uint8)
        elif kind == "vc":
            m.visual.vertex_colors = (np.arange(len(v) * 4).reshape(-1, 4) * 7 % 250 + 3).astype(np.uint8)
        return m
    out["box_fc"] = lambda: mk(bv, bf, "fc")
    out["box_vc"] = lambda: mk(bv, bf, "vc")
    out["box_plain"] = lambda: mk(bv, bf, None)
    tv = np.array([[0, 0, 0], [2, 0, 0], [0, 4, 0], [0, 0, 1], [8, 8, 8.5], [10, 8, 8.5], [8, 12, 8.5], [8, 8, 9.5]])
    tf = np.array([[0, 2, 1], [0, 1, 3], [1, 2, 3], [2, 0, 3], [4, 6, 5], [4, 5, 7], [5, 6, 7], [6, 4, 7]])
    out["two_tets_vc"] = lambda: mk(tv, tf, "vc")
    out["one_face_fc"] = lambda: mk([[0, 0, 0], [1, 0, 0], [0, 1, 0.25]], [[0, 1, 2]], "fc")
    # negative / large / dyadic coordinates, shared vertices referenced out of order, large-ish indices
    gv = np.array([[-1024.5, 0.125, 3], [2048, -0.0625, 7], [0.5, 65536, -8], [1, 1, 1], [-3, -5, -7], [4096.25, 2, 2]])
    gf = np.array([[5, 0, 3], [3, 0, 1], [4, 2, 5], [1, 2, 3]])
    out["odd_coords_fc"] = lambda: mk(gv, gf, "fc")
    return out


def export_load(tm, m, fmt):
    ft, kw = FMT_OPTS.get(fmt, (fmt, {}))
    h0 = m.__hash__()
    hv0 = m.visual.__hash__() if hasattr(m.visual, "__hash__") else 0
    v0 = np.array(m.vertices).copy()
    f0 = np.array(m.faces).copy()
    data = m.export(file_type=ft, **kw)
    src_ok = (m.__hash__() == h0) and np.array_equal(np.array(m.vertices), v0) and np.array_equal(np.array(m.faces), f0)
    if ft in ("dict", "dict64"):
        r = tm.load_mesh(data, process=False)
    else:
        raw = data.encode("utf-8") if isinstance(data, str) else data
        if isinstance(raw, dict):
            raise MachineryError("exporter returned a dict of files for " + fmt)
        r = tm.load_mesh(io.BytesIO(raw), file_type=ft, process=False)
    return r, src_ok


def replay_chain(tm, mk, chain):
    g0 = mk()
    tri0 = np.array(g0.triangles)
    v0, f0 = np.array(g0.vertices), np.array(g0.faces)
    kind0 = g0.visual.kind
    fc0 = np.array(g0.visual.face_colors) if kind0 == "face" else None
    vc0 = np.array(g0.visual.vertex_colors) if kind0 == "vertex" else None
    g = g0
    for i, hop in enumerate(chain):
        fmt, exp = hop["fmt"], hop["exp"]
        try:
            g, src_ok = export_load(tm, g, fmt)
        except MachineryError:
            raise
        except BaseException as e:  # noqa
            return {"clause": "round_trip_raises", "hop": i, "fmt": fmt, "exc": type(e).__name__ + ": " + str(e)[:80]}
        if not src_ok:
            return {"clause": "ExportLeavesSourceUnchanged", "hop": i, "fmt": fmt}
        if not hasattr(g, "triangles"):
            return {"clause": "triangles_same_order", "hop": i, "fmt": fmt, "got": type(g).__name__}
        tri = np.array(g.triangles)
        if tri.shape != tri0.shape or not np.array_equal(tri, tri0):
            return {"clause": "triangles_same_order", "hop": i, "fmt": fmt,
                    "max_abs_diff": float(np.abs(tri - tri0).max()) if tri.shape == tri0.shape else "shape %s" % (tri.shape,)}
        if exp["vid"]:
            if not (np.array_equal(np.array(g.vertices), v0) and np.array_equal(np.array(g.faces), f0)):
                return {"clause": "vertex_identity", "hop": i, "fmt": fmt}
        if exp["fc"] and fc0 is not None:
            if g.visual.kind != "face" or not np.array_equal(np.array(g.visual.face_colors)[:, :4 if exp["alpha"] else 3], fc0[:, :4 if exp["alpha"] else 3]):
                return {"clause": "face_colours_carried", "hop": i, "fmt": fmt, "kind": g.visual.kind}
        if exp["vc"] and vc0 is not None:
            if g.visual.kind != "vertex" or not np.array_equal(np.array(g.visual.vertex_colors)[:, :4 if exp["alpha"] else 3], vc0[:, :4 if exp["alpha"] else 3]):
                return {"clause": "vertex_colours_carried", "hop": i, "fmt": fmt, "kind": g.visual.kind}
    return None


def _chunk(args):
    tm = import_trimesh()
    sd = seeds(tm)
    out = []
    hops = 0
    for sname, chain in args:
        f = replay_chain(tm, sd[sname], chain)
        hops += len(chain)
        if f:
            f.update({"seed_geometry": sname, "chain": [h["fmt"] for h in chain]})
            out.append(f)
    return out, hops, len(args)


# ------------------------------------------------------------------ other geometry kinds
def other_kinds(tm, V):
    n = 0
    kinds = set()
    # point clouds
    pv = np.array([[0, 0, 0], [1.5, -2, 0.25], [3, 3, 3], [-8, 0.5, 4], [1024, 2048, -4096.5]])
    pc = (np.arange(20).reshape(5, 4) * 11 % 250 + 2).astype(np.uint8)
    for name, cloud, fmts in (("cloud_colors", lambda: tm.PointCloud(pv.copy(), colors=pc.copy()), ("xyz", "ply", "glb")),
                              ("cloud_plain", lambda: tm.PointCloud(pv.copy()), ("xyz", "ply", "glb"))):
        for ft in fmts:
            c = cloud()
            h0 = c.__hash__()
            try:
                data = c.export(file_type=ft)
                raw = data.encode() if isinstance(data, str) else data
                r = tm.load(io.BytesIO(raw), file_type=ft, process=False)
                if isinstance(r, tm.Scene):
                    r = list(r.geometry.values())[0]
            except BaseException as e:  # noqa
                V.violation("pointcloud:round_trip_raises", {"kind": name, "fmt": ft, "exc": type(e).__name__ + ": " + str(e)[:80]})
                continue
            n += 1
            kinds.add((name, ft))
            if c.__hash__() != h0:
                V.violation("pointcloud:ExportLeavesSourceUnchanged", {"kind": name, "fmt": ft})
            if not np.array_equal(np.array(r.vertices), pv):
                V.violation("pointcloud:points_same_order", {"kind": name, "fmt": ft})
            if name == "cloud_colors" and ft in ("xyz", "ply", "glb"):
                got = np.array(r.colors) if hasattr(r, "colors") else np.zeros((0, 4))
                if got.shape[0] != 5 or not np.array_equal(got[:, :3], pc[:, :3]):
                    V.violation("pointcloud:colours_carried", {"kind": name, "fmt": ft})
    # paths: segments through dxf / svg / dict
    from trimesh.path.entities import Line
    v2 = np.array([[0, 0], [4, 0], [4, 3], [0, 3], [1, 1], [2, 1], [2, 2]], dtype=float)
    def path():
        return tm.path.Path2D(entities=[Line([0, 1, 2]), Line([2, 3, 0]), Line([4, 5, 6, 4])], vertices=v2.copy(), process=False)
    def segs(p):
        s = []
        for e in p.entities:
            d = np.array(e.discrete(p.vertices))
            for a, b in zip(d[:-1], d[1:]):
                s.append(tuple(sorted([tuple(np.round(a, 9)), tuple(np.round(b, 9))])))
        return sorted(s)
    want = segs(path())
    for ft in ("dxf", "svg", "dict"):
        p = path()
        h0 = p.__hash__()
        try:
            data = p.export(file_type=ft)
            if ft == "dict":
                r = tm.load_path(data)
            else:
                raw = data.encode() if isinstance(data, str) else data
                r = tm.load_path(io.BytesIO(raw), file_type=ft)
        except BaseException as e:  # noqa
            V.violation("path:round_trip_raises", {"fmt": ft, "exc": type(e).__name__ + ": " + str(e)[:80]})
            continue
        n += 1
        kinds.add(("path", ft))
        if p.__hash__() != h0:
            V.violation("path:ExportLeavesSourceUnchanged", {"fmt": ft})
        got = segs(r)
        if got != want:
            V.violation("path:segments", {"fmt": ft, "n_got": len(got), "n_want": len(want)})
    # voxel grid through binvox
    cells = (np.arange(27).reshape(3, 3, 3) % 3) != 1
    T = np.eye(4) * 0.5
    T[3, 3] = 1.0
    T[:3, 3] = [1, 2, 3]
    vg = tm.voxel.VoxelGrid(cells.copy(), transform=T)
    h0 = vg.__hash__()
    try:
        r = tm.load(io.BytesIO(vg.export(file_type="binvox")), file_type="binvox")
        n += 1
        kinds.add(("voxel", "binvox"))
        if vg.__hash__() != h0:
            V.violation("voxel:ExportLeavesSourceUnchanged", {})
        if not np.array_equal(np.array(r.encoding.dense), cells):
            V.violation("voxel:cells", {})
        if not np.allclose(np.sort(np.array(r.points), axis=0), np.sort(np.array(vg.points), axis=0), atol=1e-6):
            V.violation("voxel:cell_centres", {})
    except BaseException as e:  # noqa
        V.violation("voxel:round_trip_raises", {"exc": type(e).__name__ + ": " + str(e)[:80]})
    # instanced scene: placement of every instance
    def scene():
        b = tm.creation.box(extents=[1, 2, 3])
        t = tm.Trimesh([[0, 0, 0], [2, 0, 0], [0, 4, 0], [0, 0, 1]], [[0, 2, 1], [0, 1, 3], [1, 2, 3], [2, 0, 3]], process=False)
        s = tm.Scene()
        A = np.eye(4)
        A[:3, :3] = [[0, -1, 0], [1, 0, 0], [0, 0, 1]]
        A[:3, 3] = [4, 0, 2]
        B = np.eye(4)
        B[:3, 3] = [0, 8, 0]
        s.add_geometry(b, node_name="a", geom_name="box", transform=A)
        s.graph.update(frame_to="b", frame_from="a", matrix=B, geometry="box")
        s.add_geometry(t, node_name="c", geom_name="tet", parent_node_name="b", transform=A)
        return s
    def tribag(s):
        t = np.round(np.array(s.triangles).reshape(-1, 9), 6)
        return sorted(map(tuple, t.tolist()))
    want = tribag(scene())
    for ft in ("glb", "3mf", "obj", "ply", "stl"):       # Scene.export has no dae exporter
        s = scene()
        h0 = s.__hash__()
        try:
            data = s.export(file_type=ft)
            raw = data.encode() if isinstance(data, str) else data
            r = tm.load_scene(io.BytesIO(raw), file_type=ft, process=False)
        except BaseException as e:  # noqa
            V.violation("scene:round_trip_raises", {"fmt": ft, "exc": type(e).__name__ + ": " + str(e)[:80]})
            continue
        n += 1
        kinds.add(("scene", ft))
        if s.__hash__() != h0:
            V.violation("scene:ExportLeavesSourceUnchanged", {"fmt": ft})
        got = tribag(r)
        if got != want:
            V.violation("scene:instance_placement", {"fmt": ft, "n_got": len(got), "n_want": len(want)},
                        "ThreeMFSceneRoundTrip" if ft == "3mf" else None)
    # a group node (no geometry) carrying a rotation, with an offset instance underneath, next to a top-level
    # instance: nested transforms that do not commute; and an empty geometry registered before real ones
    def grouped(with_empty):
        b = tm.creation.box(extents=[1, 2, 3])
        t = tm.Trimesh([[0, 0, 0], [2, 0, 0], [0, 4, 0], [0, 0, 1]], [[0, 2, 1], [0, 1, 3], [1, 2, 3], [2, 0, 3]], process=False)
        s = tm.Scene()
        if with_empty:
            s.add_geometry(tm.Trimesh(), geom_name="nothing", node_name="nothing")
        G = np.eye(4)
        G[:3, :3] = [[0, -1, 0], [1, 0, 0], [0, 0, 1]]
        G[:3, 3] = [0, 5, 0]
        O = np.eye(4)
        O[:3, 3] = [7, 0, 0]
        P = np.eye(4)
        P[:3, 3] = [20, 0, 0]
        s.add_geometry(b, geom_name="box", node_name="box", transform=P)
        s.graph.update(frame_from="world", frame_to="group", matrix=G)
        s.add_geometry(b, geom_name="box", node_name="inner", parent_node_name="group", transform=O)
        s.add_geometry(t, geom_name="tet", node_name="tet", parent_node_name="group", transform=P)
        return s
    for with_empty in (False, True):
        want = tribag(grouped(with_empty))
        for ft in ("glb", "3mf"):
            s = grouped(with_empty)
            try:
                data = s.export(file_type=ft)
                r = tm.load_scene(io.BytesIO(data), file_type=ft, process=False)
            except BaseException as e:  # noqa
                V.violation("scene:round_trip_raises", {"fmt": ft, "grouped": True, "empty_geometry_first": with_empty, "exc": type(e).__name__ + ": " + str(e)[:80]})
                continue
            n += 1
            kinds.add(("scene_grouped%d" % with_empty, ft))
            got = tribag(r)
            if got != want:
                V.violation("scene:instance_placement", {"fmt": ft, "grouped": True, "empty_geometry_first": with_empty, "n_got": len(got), "n_want": len(want)})
    # large index values: an un-merged soup whose vertex indices exceed 65535 although it has fewer than 65535 faces
    nf = 22000
    sv = np.zeros((nf * 3, 3))
    sv[:, 0] = np.arange(nf * 3) % 251
    sv[:, 1] = (np.arange(nf * 3) // 251) % 263
    sv[:, 2] = (np.arange(nf * 3) * 7) % 13
    sf = np.arange(nf * 3).reshape(-1, 3)
    for fmt in ("glb", "ply", "off", "dict64"):
        try:
            big = tm.Trimesh(sv.copy(), sf.copy(), process=False)
            r, src_ok = export_load(tm, big, fmt)
        except BaseException as e:  # noqa
            V.violation("large_indices:round_trip_raises", {"fmt": fmt, "exc": type(e).__name__ + ": " + str(e)[:80]})
            continue
        n += 1
        kinds.add(("large_indices", fmt))
        if not src_ok:
            V.violation("large_indices:ExportLeavesSourceUnchanged", {"fmt": fmt})
        tri = np.array(r.triangles)
        if tri.shape != (nf, 3, 3) or not np.array_equal(tri, sv[sf]):
            bad = int((np.abs(tri - sv[sf]).reshape(nf, -1).max(axis=1) > 0).sum()) if tri.shape == (nf, 3, 3) else -1
            V.violation("large_indices:triangles_same_order", {"fmt": fmt, "faces": nf, "wrong_faces": bad})
    # coordinates that are not representable: loaded value equals the format's quantisation of the input
    x = np.array([[1 / 3, -2 / 7, 1e-20], [1e20, 123456.789, -0.1], [3.141592653589793, 2.718281828459045, 1.4142135623730951]])
    m0 = tm.Trimesh(x.copy(), [[0, 1, 2]], process=False)
    for fmt, q in (("stl", "f32"), ("ply", "f32"), ("glb", "f32"), ("dict64", "f64"), ("dict", "f64"), ("obj", "text"), ("off", "text"), ("3mf", "text"), ("stl_ascii", "text")):
        try:
            r, _ = export_load(tm, tm.Trimesh(x.copy(), [[0, 1, 2]], process=False), fmt)
        except BaseException as e:  # noqa
            V.violation("quantisation:round_trip_raises", {"fmt": fmt, "exc": type(e).__name__ + ": " + str(e)[:80]})
            continue
        n += 1
        kinds.add(("quantisation", fmt))
        got = np.array(r.triangles).reshape(-1, 3)
        if q == "f32":
            ok = np.array_equal(got, x.astype(np.float32).astype(np.float64))
        elif q == "f64":
            ok = np.array_equal(got, x)
        else:
            ok = np.allclose(got, x, rtol=1e-6, atol=1e-8)
        if not ok:
            V.violation("quantisation:" + q, {"fmt": fmt, "got": got.tolist()})
    return n, kinds


def main(argv):
    tier = tier_from_args(argv)
    V = Verdict(PROP, tier)
    tm = import_trimesh()
    d = tlc.prepare("c08/mc")
    r = tlc.must(tlc.run(d, "Exchange", cfg(3, ["Idempotent", "Monotone", "Commute"])), "algebra")
    states, trans = r.distinct, r.generated
    hops = 2 if tier == "quick" else 3
    r2 = tlc.must(tlc.run(d, "Exchange", cfg(hops, ["Emit"]), workers=1, timeout=900), "emit")
    chains = r2.printed
    states += r2.distinct
    trans += r2.generated
    if len(chains) < 100:
        raise MachineryError("too few chains")
    sd = sorted(seeds(tm))
    work = []
    rs = np.random.RandomState(seed())
    for ci, ch in enumerate(chains):
        if len(ch) == 1:
            for s in sd:
                work.append((s, ch))
        else:
            for s in (sd[ci % len(sd)], sd[(ci * 5 + 2) % len(sd)]):
                work.append((s, ch))
    if tier == "quick":
        # a sample of three-hop chains on top of all one- and two-hop chains
        fm = sorted({c[0]["fmt"] for c in chains})
        tops = {c[0]["fmt"]: c[0]["exp"] for c in chains if len(c) == 1}
    res = pmap(_chunk, work, chunk=20)
    nhops = sum(x[1] for x in res)
    nchains = sum(x[2] for x in res)
    for x in res:
        for f in x[0]:
            V.violation("mesh:" + f["clause"], f)
    n_other, kinds = other_kinds(tm, V)
    distinct = len({(s, tuple(h["fmt"] for h in ch)) for s, ch in work}) + len(kinds)
    cov = {"evaluations": nhops + n_other, "distinct_nontrivial": distinct,
           "rule": "every chain of <= %d hops over 11 mesh format/option pairs on 6 seed meshes (face/vertex coloured, plain, two bodies, single face, odd coordinates) + point cloud, path, voxel, instanced scene and quantisation cases; distinct = distinct (geometry, format chain) pairs, all on non-empty geometry" % hops,
           "states": states, "transitions": trans, "chains": nchains, "hops": nhops, "other_kind_round_trips": n_other,
           "samples": [[h["fmt"] for h in chains[len(chains) // 2]], [h["fmt"] for h in chains[-1]], sorted(map(list, kinds))[:5]]}
    return V.finish("exploration", cov, assumptions=[
        "coordinates exactly representable in float32 for the exact comparisons; a separate family checks quantisation of non-representable values",
        "a colour kind is demanded of a format only if its exporter writes it by design (capability table in Exchange.tla)",
    ])


if __name__ == "__main__":
    try:
        sys.exit(main(sys.argv[1:]))
    except MachineryError as e:
        print("MACHINERY-ERROR:", e)
        sys.exit(2)
