"""C02 helper: container-level histories (hash of mesh / point cloud / path / visual / scene is a
function of the bytes of the member arrays).  Python builds the real objects, runs a history of
edits and hash reads and records byte identities and hash identities; the judgement is made by TLC
(spec/C02ContainerHash.tla)."""
import numpy as np

from harness.common import MachineryError

CFG = "INIT Init\nNEXT Next\nINVARIANT Report\nCHECK_DEADLOCK FALSE\n"

F3 = lambda: np.arange(18, dtype=np.float64).reshape(6, 3)[::-1].copy() % 5 + 0.5          # noqa: E731
F2 = lambda: np.arange(10, dtype=np.float64).reshape(5, 2)[::-1].copy() * 1.5 + 0.25       # noqa: E731
U4 = lambda n: (np.arange(4 * n, dtype=np.uint8).reshape(n, 4)[::-1].copy() * 5 + 3)       # noqa: E731
FACES = lambda: np.array([[0, 1, 2], [2, 3, 4], [3, 4, 5], [0, 2, 5]])                     # noqa: E731


class Kind:
    """name, build(arrays)->holder, members(holder)->{name: TrackedArray}, setters {name: f(holder, array)}"""

    def __init__(self, name, arrays, build, members, setters=None, mutators=None, copy=None, none_ok=(),
                 warm=None, equal_content_equal_hash=False, rebuild=None, extra_content=None):
        self.name, self.arrays, self.build, self.members, self.setters = name, arrays, build, members, setters or {}
        self.mutators = mutators or []      # library operations that rewrite the member arrays: (name, f(holder))
        self.copy = copy                    # f(holder) -> an independent object of the same kind
        self.none_ok = tuple(none_ok)       # members whose public setter accepts None / an empty array
        self.warm = warm                    # f(holder): read cached values (forces a verify of the hash)
        # meshes, paths and point clouds: the statement promises that two objects holding equal arrays hash
        # equal, so the hash of a copy may be compared with the hash of the original; for visuals and scenes
        # only the object itself is compared with itself and with a freshly built one
        self.equal_content_equal_hash = equal_content_equal_hash
        # f(holder, arrays): fresh object from copies of the arrays AND of whatever else the holder's hash covers
        # by design (the entities of a path, which merge_vertices / process re-index); default build(arrays)
        self.rebuild = rebuild
        self.extra_content = extra_content   # f(holder) -> bytes: that other content, for the identity of a state


def kinds(trimesh):
    from trimesh.path.entities import Line
    T = trimesh.transformations.translation_matrix

    def mesh(a):
        return trimesh.Trimesh(vertices=a["vertices"].copy(), faces=a["faces"].copy(), process=False)

    def mesh_cm(a):
        m = mesh(a)
        m.center_mass = a["center_mass"].copy()
        return m

    def points(a):
        return trimesh.PointCloud(a["vertices"].copy())

    def path3(a):
        return trimesh.path.Path3D(entities=[Line([0, 1, 2, 3, 4, 5, 0])], vertices=a["vertices"].copy(), process=False)

    def path2(a):
        return trimesh.path.Path2D(entities=[Line([0, 1, 2, 3, 4, 0])], vertices=a["vertices"].copy(), process=False)

    def vcolor(a):
        return trimesh.visual.ColorVisuals(vertex_colors=a["vertex_colors"].copy())

    def fcolor(a):
        return trimesh.visual.ColorVisuals(face_colors=a["face_colors"].copy())

    def texture(a):
        return trimesh.visual.TextureVisuals(uv=a["uv"].copy())

    def pcolor(a):
        return trimesh.PointCloud(F3(), colors=a["colors"].copy()).visual

    def scene_mixed(a):
        sc = trimesh.Scene()
        sc.add_geometry(mesh({"vertices": a["m.vertices"], "faces": a["m.faces"]}), node_name="n0", geom_name="m")
        sc.add_geometry(points({"vertices": a["c.vertices"]}), node_name="n1", geom_name="c", transform=T([9, 0, 0]))
        sc.add_geometry(path2({"vertices": a["p.vertices"]}), node_name="n2", geom_name="p", transform=T([0, 9, 0]))
        sc.add_geometry(mesh({"vertices": a["t.vertices"], "faces": a["t.faces"]}), node_name="n3", geom_name="t",
                        transform=T([0, 0, 9]))
        return sc

    def scene_twice(a):
        sc = trimesh.Scene()
        m = mesh({"vertices": a["g.vertices"], "faces": a["g.faces"]})
        sc.add_geometry(m, node_name="na", geom_name="g")
        sc.graph.update(frame_to="nb", frame_from="world", matrix=T([9, 0, 0]), geometry="g")
        return sc

    def scene_members(sc):
        out = {}
        for gname, g in sc.geometry.items():
            out[gname + ".vertices"] = g.vertices
            if hasattr(g, "faces"):
                out[gname + ".faces"] = g.faces
        return out

    def set_scene(which):
        gname, attr = which.split(".")
        return lambda sc, arr: setattr(sc.geometry[gname], attr, arr)

    R = trimesh.transformations.rotation_matrix(0.5, [0, 0, 1], point=[1, 0, 0])
    MIRROR = np.diag([-1.0, 1, 1, 1])
    MIRROR_SCALE = np.diag([2.0, -3.0, 1, 1])
    P_ROT = trimesh.transformations.planar_matrix(offset=[1, 2], theta=0.3)
    P_MIRROR = np.diag([-1.0, 1, 1])

    def call(name, *args, **kw):
        return lambda o: getattr(o, name)(*args, **kw)

    mesh_mut = [("apply_transform_rotation", call("apply_transform", R)),
                ("apply_transform_mirror", call("apply_transform", MIRROR)),
                ("apply_transform_mirror_scale", call("apply_transform", MIRROR_SCALE)),
                ("apply_translation", call("apply_translation", [1.0, 2.0, 3.0])),
                ("apply_scale", call("apply_scale", 2.0)), ("apply_scale_negative", call("apply_scale", -1.0)),
                ("invert", call("invert")), ("rezero", call("rezero")), ("merge_vertices", call("merge_vertices")),
                ("update_faces_mask", lambda m: m.update_faces(np.arange(len(m.faces)) != 1)),
                ("update_vertices_mask", lambda m: m.update_vertices(np.arange(len(m.vertices)) != len(m.vertices) - 1)),
                ("remove_unreferenced_after_update_faces",
                 lambda m: (m.update_faces(np.arange(len(m.faces)) == len(m.faces) - 1), m.remove_unreferenced_vertices())),
                ("unmerge_vertices", call("unmerge_vertices")), ("process", call("process"))]
    cloud_mut = [("apply_transform_rotation", call("apply_transform", R)), ("apply_transform_mirror", call("apply_transform", MIRROR)),
                 ("apply_translation", call("apply_translation", [1.0, 2.0, 3.0])), ("apply_scale", call("apply_scale", 2.0))]
    path3_mut = cloud_mut + [("merge_vertices", call("merge_vertices")), ("process", call("process")),
                             ("remove_unreferenced_vertices", call("remove_unreferenced_vertices"))]
    path2_mut = [("apply_transform_rotation", call("apply_transform", P_ROT)), ("apply_transform_mirror", call("apply_transform", P_MIRROR)),
                 ("apply_translation", call("apply_translation", [1.0, 2.0])), ("apply_scale", call("apply_scale", 2.0)),
                 ("rezero", call("rezero")), ("merge_vertices", call("merge_vertices")), ("process", call("process")),
                 ("remove_unreferenced_vertices", call("remove_unreferenced_vertices"))]

    def in_scene(gname, f):
        return lambda sc: f(sc.geometry[gname])
    scene_mut = [("m." + n, in_scene("m", f)) for n, f in mesh_mut[:4]] + [("c." + n, in_scene("c", f)) for n, f in cloud_mut[:2]] + \
                [("p." + n, in_scene("p", f)) for n, f in path2_mut[:2]] + [("t." + n, in_scene("t", f)) for n, f in mesh_mut[1:2]]
    cp = call("copy")

    def path_entities(h):
        return repr([(type(e).__name__, np.asarray(e.points).tolist()) for e in h.entities]).encode()

    def path_rebuild(h, arrays):
        import copy
        return type(h)(entities=copy.deepcopy(list(h.entities)), vertices=arrays["vertices"], process=False)
    setv = lambda m, x: setattr(m, "vertices", x)      # noqa: E731
    setf = lambda m, x: setattr(m, "faces", x)         # noqa: E731
    vf = {"vertices": F3(), "faces": FACES()}
    ks = [
        Kind("mesh", vf, mesh, lambda m: {"vertices": m.vertices, "faces": m.faces},
             {"vertices": setv, "faces": setf}, mesh_mut, cp, ("vertices", "faces"),
             lambda m: (m.area, m.face_normals, m.bounds), True),
        Kind("mesh_center_mass", dict(vf, center_mass=np.array([0.5, 1.5, 2.5])), mesh_cm,
             lambda m: {"vertices": m.vertices, "faces": m.faces, "center_mass": m._data["center_mass"]},
             {"center_mass": lambda m, x: setattr(m, "center_mass", x), "vertices": setv, "faces": setf},
             mesh_mut[:5], cp, ("vertices", "faces"), lambda m: (m.area, m.bounds), True),
        Kind("points", {"vertices": F3()}, points, lambda m: {"vertices": m.vertices},
             {"vertices": setv}, cloud_mut, cp, ("vertices",), lambda m: (m.bounds,), True),
        Kind("path3d", {"vertices": F3()}, path3, lambda m: {"vertices": m.vertices},
             {"vertices": setv}, path3_mut, cp, ("vertices",), lambda m: (m.length, m.bounds), True, path_rebuild, path_entities),
        Kind("path2d", {"vertices": F2()}, path2, lambda m: {"vertices": m.vertices},
             {"vertices": setv}, path2_mut, cp, ("vertices",), lambda m: (m.length, m.bounds), True, path_rebuild, path_entities),
        Kind("vertex_colors", {"vertex_colors": U4(6)}, vcolor, lambda v: {"vertex_colors": v._data["vertex_colors"]},
             {"vertex_colors": lambda v, x: setattr(v, "vertex_colors", x)},
             [("update_vertices_mask", lambda v: v.update_vertices(np.arange(len(v._data["vertex_colors"])) != 1))], None),   # (ColorVisuals.copy() needs the mesh)
        Kind("face_colors", {"face_colors": U4(4)}, fcolor, lambda v: {"face_colors": v._data["face_colors"]},
             {"face_colors": lambda v, x: setattr(v, "face_colors", x)},
             [("update_faces_mask", lambda v: v.update_faces(np.arange(len(v._data["face_colors"])) != 1))], None),
        Kind("texture_uv", {"uv": F2() / 16}, texture,
             lambda v: {"uv": v.vertex_attributes["uv"]}, {"uv": lambda v, x: setattr(v, "uv", x)},
             [("update_vertices_mask", lambda v: v.update_vertices(np.arange(len(v.vertex_attributes["uv"])) != 1))], cp),
        Kind("pointcloud_colors", {"colors": U4(6)}, pcolor, lambda v: {"colors": v._colors}, {}, [], cp),
        Kind("scene_mixed", {"m.vertices": F3(), "m.faces": FACES(), "c.vertices": F3()[:4] * 2, "p.vertices": F2(),
                             "t.vertices": F3(), "t.faces": FACES()},   # t holds the same arrays as m
             scene_mixed, scene_members, {k: set_scene(k) for k in ("m.vertices", "c.vertices", "p.vertices", "t.faces")},
             scene_mut, cp, ("m.vertices", "t.faces"), lambda sc: (sc.bounds,)),
        Kind("scene_same_mesh_twice", {"g.vertices": F3(), "g.faces": FACES()}, scene_twice, scene_members,
             {"g.vertices": set_scene("g.vertices")},
             [("g." + n, (lambda f: lambda sc: f(sc.geometry["g"]))(f)) for n, f in mesh_mut[:3]], cp, ("g.vertices",),
             lambda sc: (sc.bounds,)),
    ]
    return ks


def _delta(a):
    return a.dtype.type(1)


# edits of one member array reached through the container (predicted fresh by the model: the object
# written through is the member itself and the route is one TrackedArray overrides, or the setter)
def e_setitem_row(get, setter):
    a = get()
    a[0] = a[0] + _delta(a)


def e_setitem_last_item(get, setter):
    a = get()
    idx = (-1,) * a.ndim
    a[idx] = a[idx] + _delta(a)


def e_iadd(get, setter):
    a = get()
    a += _delta(a)


def e_slice_col(get, setter):
    a = get()
    if a.ndim == 2:
        a[:, -1] = a[:, -1] + _delta(a)
    else:
        a[1:] = a[1:] + _delta(a)


def e_mask(get, setter):
    a = get()
    m = np.zeros(a.shape, dtype=bool)
    m.flat[1::3] = True
    a[m] = a[m] + _delta(a)


def e_imul_isub(get, setter):
    a = get()
    a *= a.dtype.type(2)
    a -= _delta(a)


def e_setter(get, setter):
    a = get()
    setter(np.array(a) + _delta(a))


def e_setter_roll(get, setter):
    a = get()
    new = np.array(a)
    new[0] = new[0] + _delta(a)
    setter(new.tolist() if new.dtype.kind == "f" else new)


def e_setter_none(get, setter):
    setter(None)


def e_setter_none_then_same(get, setter):
    a = np.array(get())
    setter(None)
    setter(a)


def e_setter_empty_then_same(get, setter):
    a = np.array(get())
    setter(a[:0])
    setter(a)


def e_setter_none_then_changed(get, setter):
    a = np.array(get())
    setter(None)
    a[0] = a[0] + _delta(a)
    setter(a)


EDITS = [("setitem_row", e_setitem_row), ("setitem_last_item", e_setitem_last_item), ("iadd", e_iadd),
         ("slice_col", e_slice_col), ("mask", e_mask), ("imul_isub", e_imul_isub),
         ("setter", e_setter), ("setter_changed_row", e_setter_roll)]
# re-assignment histories through the public setter (only for members whose setter documents None / empty)
NONE_EDITS = [("setter_none", e_setter_none), ("setter_none_then_same", e_setter_none_then_same),
              ("setter_empty_then_same", e_setter_empty_then_same), ("setter_none_then_changed", e_setter_none_then_changed)]

# history templates: H = read the hash, E = edit member A (or run the library mutator), F = edit member B (or A
# again by the next route when the container has one member), R = put the original content of every member back
# (in place where the shape still fits, else through the setter), T = read the hash of a twin built separately
# from the same arrays, V = read cached values of the container (the cache verifies the hash),
# c = take a copy with the library's copy() and direct the following edits at the copy, o = direct them at the
# original again, h = read the hash of the copy
TEMPLATES = ["HEH", "TEH", "HEEH", "HEHRH", "EHRH", "HEHFH", "HFHEH", "HEFHRHT", "HHEHH", "TEHRHEH",
             "VHEH", "HEVH", "HcEH", "HcEhH", "VHcEVH", "HchoEhH", "HEcFhH"]
# (member edit) x template combinations that add nothing over the others are not run: the plain in-place routes
# meet the copy / cached-value templates through two representatives
LONG = ("VHEH", "HEVH", "HcEH", "HcEhH", "VHcEVH", "HchoEhH", "HEcFhH")
REPRESENTATIVE_EDITS = ("setitem_row", "iadd", "setter")


def run_history(trimesh, kind, member, other, edit, edit2, template, hash_ids, key_ids):
    """edit / edit2: ("member", name, f(get, setter)) or ("mutator", name, f(holder))"""
    holder = kind.build(kind.arrays)
    objs = {"orig": holder, "copy": None}
    cur = "orig"
    orig = {k: np.array(v) for k, v in kind.members(holder).items()}
    for k, v in kind.members(holder).items():
        if type(v).__name__ != "TrackedArray":
            raise MachineryError(f"{kind.name}.{k} is not a TrackedArray")
    ks, hs, fs, steps = [], [], [], []

    def ident(table, value):
        if value not in table:
            table[value] = len(table)
        return table[value]

    def content(h):
        extra = kind.extra_content(h) if kind.extra_content is not None else b""
        return extra + b"|".join(k.encode() + repr(np.asarray(v).shape).encode() + b":" + np.ascontiguousarray(np.asarray(v)).tobytes()
                                 for k, v in sorted(kind.members(h).items()))

    def rebuild(h):
        arrays = {k: np.array(v) for k, v in kind.members(h).items()}
        return kind.rebuild(h, arrays) if kind.rebuild is not None else kind.build(arrays)

    def read(h, label):
        ks.append(ident(key_ids, content(h)))
        hs.append(ident(hash_ids, h.__hash__()))
        fresh = rebuild(h)
        if content(fresh) != content(h):
            raise MachineryError(f"{kind.name}: rebuilt container does not hold the same bytes")
        fs.append(ident(hash_ids, fresh.__hash__()))
        steps.append(label)

    def do_edit(name, ed):
        tgt = objs[cur]
        cls, edn, edf = ed
        if cls == "mutator":
            edf(tgt)
            steps.append(f"{edn}() on {cur}")
            return
        f = kind.setters.get(name)
        st = (lambda arr: f(tgt, arr)) if f is not None else None
        if st is None and edn.startswith("setter"):
            edn, edf = EDITS[0]
        edf(lambda: kind.members(tgt)[name], st)
        steps.append(f"{edn}({name}) on {cur}")

    for ch in template:
        if ch == "H":
            read(holder, "hash")
        elif ch == "T":
            twin = rebuild(holder)
            ks.append(ident(key_ids, content(twin)))
            hs.append(ident(hash_ids, twin.__hash__()))
            fs.append(ident(hash_ids, rebuild(holder).__hash__()))
            steps.append("hash_of_twin")
        elif ch == "h":
            if kind.equal_content_equal_hash:
                read(objs["copy"], "hash_of_copy")
        elif ch == "E":
            do_edit(member, edit)
        elif ch == "F":
            do_edit(other, edit2)
        elif ch == "V":
            if kind.warm is not None:
                try:
                    kind.warm(objs[cur])
                    steps.append(f"read_cached_values on {cur}")
                except Exception as e:   # e.g. faces edited to indexes beyond the vertices: only a pre-state
                    steps.append(f"read_cached_values on {cur} raised {type(e).__name__}")
        elif ch == "c":
            objs["copy"] = kind.copy(holder)
            cur = "copy"
            steps.append("copy()")
        elif ch == "o":
            cur = "orig"
        elif ch == "R":
            tgt = objs[cur]
            for k in orig:
                a = kind.members(tgt)[k]
                if np.asarray(a).shape == orig[k].shape:
                    a[...] = orig[k]
                elif k in kind.setters:
                    kind.setters[k](tgt, orig[k].copy())
                else:
                    raise MachineryError(f"{kind.name}.{k}: cannot restore")
            steps.append(f"restore on {cur}")
    return {"kind": kind.name, "member": member, "template": template, "steps": steps,
            "k": ks, "h": hs, "f": fs, "exc": ""}


def cases(trimesh, tier, seed):
    """(container kind x member x edit route x template) and (container kind x library mutator x template)
    histories; a few seconds of Python, so both tiers take all of them."""
    out = []
    per_kind, per_family = {}, {"member_edit": 0, "setter_none_or_empty": 0, "library_mutator": 0, "with_copy": 0}
    for kind in kinds(trimesh):
        names = sorted(kind.arrays)
        hash_ids, key_ids = {}, {}
        n = 0
        work = []
        for mi, member in enumerate(names):
            other = names[(mi + 1) % len(names)]
            for ei, (edn, edf) in enumerate(EDITS):
                ed2 = ("member",) + EDITS[(ei + 3) % len(EDITS)]
                for tpl in TEMPLATES:
                    if tpl in LONG and edn not in REPRESENTATIVE_EDITS:
                        continue
                    work.append(("member_edit", member, other, ("member", edn, edf), ed2, tpl))
            if member in kind.none_ok:
                for edn, edf in NONE_EDITS:
                    for tpl in ("HEH", "TEH", "HEHRH", "HEHFH", "HFHEH", "VHEH", "HEcFhH", "TEHRHEH"):
                        if edn == "setter_none" and ("F" in tpl or tpl == "TEHRHEH"):
                            continue   # the member is empty after the edit: nothing to edit in place
                        work.append(("setter_none_or_empty", member, other, ("member", edn, edf), ("member",) + EDITS[0], tpl))
        for qi, (mn, mf) in enumerate(kind.mutators):
            nxt = kind.mutators[(qi + 1) % len(kind.mutators)]
            for tpl in TEMPLATES:
                # the second edit goes to a member that is not an index array, so that the geometry stays valid
                safe = [x for x in names if not x.endswith("faces")]
                work.append(("library_mutator", "*", safe[qi % len(safe)], ("mutator", mn, mf),
                             ("member",) + EDITS[qi % 6], tpl))
        for fam, member, other, ed, ed2, tpl in work:
            if "c" in tpl and kind.copy is None:
                continue
            rec = run_history(trimesh, kind, member, other, ed, ed2, tpl, hash_ids, key_ids)
            rec["family"] = fam
            out.append(rec)
            per_family[fam] += 1
            per_family["with_copy"] += "c" in tpl
            n += 1
        per_kind[kind.name] = n
    for i, c in enumerate(out):
        c["id"] = i
    return out, per_kind, per_family
