"""C02 helper: container-level histories (hash of mesh / point cloud / path / visual / scene is a
function of the bytes of the member arrays).  Python builds the real objects, runs a history of
edits and hash reads and records byte identities and hash identities; the judgement is made by TLC
(spec/C02ContainerHash.tla)."""
import numpy as np

from harness.common import MachineryError

CFG = "INIT Init\nNEXT Next\nINVARIANT Report\nCHECK_DEADLOCK FALSE\n"

F3 = lambda: np.arange(18, dtype=np.float64).reshape(6, 3)[::-1].copy() % 5 + 0.5          # noqa: E731
F2 = lambda: np.arange(10, dtype=np.float64).reshape(5, 2)[::-1].copy() * 1.5 + 0.25       # noqa: E731
U4 = lambda n: (np.arange(4 * n, dtype=np.uint8).reshape(n, 4)[::-1].copy() * 5 + 3)       # noqa: E731
FACES = lambda: np.array([[0, 1, 2], [2, 3, 4], [3, 4, 5], [0, 2, 5]])                     # noqa: E731


class Kind:
    """name, build(arrays)->holder, members(holder)->{name: TrackedArray}, setters {name: f(holder, array)}"""

    def __init__(self, name, arrays, build, members, setters=None):
        self.name, self.arrays, self.build, self.members, self.setters = name, arrays, build, members, setters or {}


def kinds(trimesh):
    from trimesh.path.entities import Line
    T = trimesh.transformations.translation_matrix

    def mesh(a):
        return trimesh.Trimesh(vertices=a["vertices"].copy(), faces=a["faces"].copy(), process=False)

    def mesh_cm(a):
        m = mesh(a)
        m.center_mass = a["center_mass"].copy()
        return m

    def points(a):
        return trimesh.PointCloud(a["vertices"].copy())

    def path3(a):
        return trimesh.path.Path3D(entities=[Line([0, 1, 2, 3, 4, 5, 0])], vertices=a["vertices"].copy(), process=False)

    def path2(a):
        return trimesh.path.Path2D(entities=[Line([0, 1, 2, 3, 4, 0])], vertices=a["vertices"].copy(), process=False)

    def vcolor(a):
        m = trimesh.Trimesh(vertices=F3(), faces=FACES(), process=False)
        m.visual.vertex_colors = a["vertex_colors"].copy()
        return m.visual

    def fcolor(a):
        m = trimesh.Trimesh(vertices=F3(), faces=FACES(), process=False)
        m.visual.face_colors = a["face_colors"].copy()
        return m.visual

    def texture(a):
        return trimesh.visual.TextureVisuals(uv=a["uv"].copy())

    def pcolor(a):
        return trimesh.PointCloud(F3(), colors=a["colors"].copy()).visual

    def scene_mixed(a):
        sc = trimesh.Scene()
        sc.add_geometry(mesh({"vertices": a["m.vertices"], "faces": a["m.faces"]}), node_name="n0", geom_name="m")
        sc.add_geometry(points({"vertices": a["c.vertices"]}), node_name="n1", geom_name="c", transform=T([9, 0, 0]))
        sc.add_geometry(path2({"vertices": a["p.vertices"]}), node_name="n2", geom_name="p", transform=T([0, 9, 0]))
        sc.add_geometry(mesh({"vertices": a["t.vertices"], "faces": a["t.faces"]}), node_name="n3", geom_name="t",
                        transform=T([0, 0, 9]))
        return sc

    def scene_twice(a):
        sc = trimesh.Scene()
        m = mesh({"vertices": a["g.vertices"], "faces": a["g.faces"]})
        sc.add_geometry(m, node_name="na", geom_name="g")
        sc.graph.update(frame_to="nb", frame_from="world", matrix=T([9, 0, 0]), geometry="g")
        return sc

    def scene_members(sc):
        out = {}
        for gname, g in sc.geometry.items():
            out[gname + ".vertices"] = g.vertices
            if hasattr(g, "faces"):
                out[gname + ".faces"] = g.faces
        return out

    def set_scene(which):
        gname, attr = which.split(".")
        return lambda sc, arr: setattr(sc.geometry[gname], attr, arr)

    vf = {"vertices": F3(), "faces": FACES()}
    ks = [
        Kind("mesh", vf, mesh, lambda m: {"vertices": m.vertices, "faces": m.faces},
             {"vertices": lambda m, x: setattr(m, "vertices", x), "faces": lambda m, x: setattr(m, "faces", x)}),
        Kind("mesh_center_mass", dict(vf, center_mass=np.array([0.5, 1.5, 2.5])), mesh_cm,
             lambda m: {"vertices": m.vertices, "faces": m.faces, "center_mass": m._data["center_mass"]},
             {"center_mass": lambda m, x: setattr(m, "center_mass", x)}),
        Kind("points", {"vertices": F3()}, points, lambda m: {"vertices": m.vertices},
             {"vertices": lambda m, x: setattr(m, "vertices", x)}),
        Kind("path3d", {"vertices": F3()}, path3, lambda m: {"vertices": m.vertices},
             {"vertices": lambda m, x: setattr(m, "vertices", x)}),
        Kind("path2d", {"vertices": F2()}, path2, lambda m: {"vertices": m.vertices},
             {"vertices": lambda m, x: setattr(m, "vertices", x)}),
        Kind("vertex_colors", {"vertex_colors": U4(6)}, vcolor, lambda v: {"vertex_colors": v._data["vertex_colors"]},
             {"vertex_colors": lambda v, x: setattr(v, "vertex_colors", x)}),
        Kind("face_colors", {"face_colors": U4(4)}, fcolor, lambda v: {"face_colors": v._data["face_colors"]},
             {"face_colors": lambda v, x: setattr(v, "face_colors", x)}),
        Kind("texture_uv", {"uv": F2() / 16}, texture,
             lambda v: {"uv": v.vertex_attributes["uv"]}, {"uv": lambda v, x: setattr(v, "uv", x)}),
        Kind("pointcloud_colors", {"colors": U4(6)}, pcolor, lambda v: {"colors": v._colors}, {}),
        Kind("scene_mixed", {"m.vertices": F3(), "m.faces": FACES(), "c.vertices": F3()[:4] * 2, "p.vertices": F2(),
                             "t.vertices": F3(), "t.faces": FACES()},   # t holds the same arrays as m
             scene_mixed, scene_members, {k: set_scene(k) for k in ("m.vertices", "c.vertices", "p.vertices", "t.faces")}),
        Kind("scene_same_mesh_twice", {"g.vertices": F3(), "g.faces": FACES()}, scene_twice, scene_members,
             {"g.vertices": set_scene("g.vertices")}),
    ]
    return ks


def _delta(a):
    return a.dtype.type(1)


# edits of one member array reached through the container (predicted fresh by the model: the object
# written through is the member itself and the route is one TrackedArray overrides, or the setter)
def e_setitem_row(get, setter):
    a = get()
    a[0] = a[0] + _delta(a)


def e_setitem_last_item(get, setter):
    a = get()
    idx = (-1,) * a.ndim
    a[idx] = a[idx] + _delta(a)


def e_iadd(get, setter):
    a = get()
    a += _delta(a)


def e_slice_col(get, setter):
    a = get()
    if a.ndim == 2:
        a[:, -1] = a[:, -1] + _delta(a)
    else:
        a[1:] = a[1:] + _delta(a)


def e_mask(get, setter):
    a = get()
    m = np.zeros(a.shape, dtype=bool)
    m.flat[1::3] = True
    a[m] = a[m] + _delta(a)


def e_imul_isub(get, setter):
    a = get()
    a *= a.dtype.type(2)
    a -= _delta(a)


def e_setter(get, setter):
    a = get()
    setter(np.array(a) + _delta(a))


def e_setter_roll(get, setter):
    a = get()
    new = np.array(a)
    new[0] = new[0] + _delta(a)
    setter(new.tolist() if new.dtype.kind == "f" else new)


EDITS = [("setitem_row", e_setitem_row), ("setitem_last_item", e_setitem_last_item), ("iadd", e_iadd),
         ("slice_col", e_slice_col), ("mask", e_mask), ("imul_isub", e_imul_isub),
         ("setter", e_setter), ("setter_changed_row", e_setter_roll)]

# history templates: H = read the hash, E = edit member A, F = edit member B (or A again by the next
# route when the container has one member), R = put the original bytes of every member back in place,
# T = read the hash of a twin built separately from the same arrays
TEMPLATES = ["HEH", "TEH", "HEEH", "HEHRH", "EHRH", "HEHFH", "HFHEH", "HEFHRHT", "HHEHH", "TEHRHEH"]


def run_history(trimesh, kind, member, other, edit, edit2, template, hash_ids, key_ids):
    holder = kind.build(kind.arrays)
    orig = {k: np.array(v) for k, v in kind.members(holder).items()}
    for k, v in kind.members(holder).items():
        if type(v).__name__ != "TrackedArray":
            raise MachineryError(f"{kind.name}.{k} is not a TrackedArray")
    ks, hs, fs, steps = [], [], [], []

    def ident(table, value):
        if value not in table:
            table[value] = len(table)
        return table[value]

    def content(h):
        return b"|".join(k.encode() + b":" + np.ascontiguousarray(np.asarray(v)).tobytes()
                         for k, v in sorted(kind.members(h).items()))

    def getter(name):
        return lambda: kind.members(holder)[name]

    def setter(name):
        f = kind.setters.get(name)
        if f is None:
            return None
        return lambda arr: f(holder, arr)

    def do_edit(name, ed):
        st = setter(name)
        edn, edf = ed
        if st is None and edn.startswith("setter"):
            edn, edf = EDITS[0]
        edf(getter(name), st)
        steps.append(f"{edn}({name})")

    for ch in template:
        if ch in "HT":
            tgt = holder if ch == "H" else kind.build({k: np.array(v) for k, v in kind.members(holder).items()})
            ks.append(ident(key_ids, content(tgt)))
            hs.append(ident(hash_ids, tgt.__hash__()))
            fresh = kind.build({k: np.array(v) for k, v in kind.members(holder).items()})
            if content(fresh) != content(holder):
                raise MachineryError(f"{kind.name}: rebuilt container does not hold the same bytes")
            fs.append(ident(hash_ids, fresh.__hash__()))
            steps.append("hash" if ch == "H" else "hash_of_twin")
        elif ch == "E":
            do_edit(member, edit)
        elif ch == "F":
            do_edit(other, edit2)
        elif ch == "R":
            for k in orig:
                a = kind.members(holder)[k]
                a[...] = orig[k]
            steps.append("restore_in_place")
    return {"kind": kind.name, "member": member, "template": template, "steps": steps,
            "k": ks, "h": hs, "f": fs, "exc": ""}


def cases(trimesh, tier, seed):
    """All (container kind x member x edit route x template) histories (about a second of Python, so
    both tiers take all of them)."""
    out = []
    per_kind = {}
    for kind in kinds(trimesh):
        names = sorted(kind.arrays)
        hash_ids, key_ids = {}, {}
        n = 0
        for mi, member in enumerate(names):
            other = names[(mi + 1) % len(names)]
            for ei, ed in enumerate(EDITS):
                ed2 = EDITS[(ei + 3) % len(EDITS)]
                for ti, tpl in enumerate(TEMPLATES):
                    rec = run_history(trimesh, kind, member, other, ed, ed2, tpl, hash_ids, key_ids)
                    out.append(rec)
                    n += 1
        per_kind[kind.name] = n
    for i, c in enumerate(out):
        c["id"] = i
    return out, per_kind
