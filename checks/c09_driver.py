"""C09 - histories driven through the entry points, containers, frame-name kinds, forest sizes and
Scene-level mutators that the TLC-emitted behaviours (4-5 string-named frames, update()/get() only)
do not reach.

Every history is generated here (inputs), applied to the real SceneGraph / Scene AND to a plain
dictionary forest kept by the driver (child -> parent, child -> matrix handed in by the caller).  At
every query one event is logged: the two frames, the driver's parent map, one token per edge matrix
and what the real code answered.  TLC (spec/TraceSceneGraph.tla) then says whether the frames are
connected and WHICH ordered product of (inverted) edges the answer must equal; numpy only evaluates
that term.  Nothing in here decides what a correct answer is.
"""
import numpy as np

from harness.common import MachineryError, import_trimesh

FAMILIES = ("entry", "deep", "scene", "verydeep")


class Log:
    """events + interned matrices + interned frame names of one history"""

    def __init__(self, fam, hid):
        self.fam, self.hid = fam, hid
        self.events = []
        self.mats = []
        self._tok = {}
        self._names = {}
        self.cov = {}

    def hit(self, k, n=1):
        self.cov[k] = self.cov.get(k, 0) + n

    def tok(self, M):
        M = np.ascontiguousarray(np.asarray(M, dtype=np.float64))
        key = M.tobytes()
        if key not in self._tok:
            self._tok[key] = len(self.mats)
            self.mats.append(M.tolist())
        return self._tok[key]

    def name(self, n):
        k = (type(n).__name__, repr(n))
        if k not in self._names:
            self._names[k] = "n%d" % len(self._names)
        return self._names[k]

    def query(self, shadow, a, b, call, how):
        """call() -> 4x4 ; logs one event judged later by TLC"""
        exc, res = "", None
        try:
            res = np.array(call(), dtype=np.float64)
            if res.shape != (4, 4):
                exc, res = "shape %r" % (res.shape,), None
        except RecursionError:
            exc = "RecursionError"
        except Exception as e:  # noqa
            exc = type(e).__name__
        self.events.append({
            "fam": self.fam, "hid": self.hid, "how": how, "a": self.name(a), "b": self.name(b),
            "a_repr": repr(a), "b_repr": repr(b),
            "par": {self.name(c): self.name(p) for c, p in shadow.par.items()},
            "edges": {self.name(c): self.tok(M) for c, M in shadow.mat.items()},
            "exc": exc, "res": None if res is None else res.tolist()})
        self.hit("get:" + how)


class Shadow:
    """the driver's own forest: what the caller asked for, nothing more"""

    def __init__(self, base):
        self.par, self.mat, self.nodes, self.base = {}, {}, set(), base

    def clone(self):
        s = Shadow(self.base)
        s.par, s.mat, s.nodes = dict(self.par), {k: v.copy() for k, v in self.mat.items()}, set(self.nodes)
        return s

    def ancestors(self, x):
        out = [x]
        while out[-1] in self.par and len(out) < 5000:
            out.append(self.par[out[-1]])
        return out

    def can(self, u, v):
        """may v become a child of u without closing a cycle?"""
        return u != v and v not in self.ancestors(u)

    def upd(self, v, u, M):
        self.par[v] = u
        self.mat[v] = np.array(M, dtype=np.float64)
        self.nodes |= {u, v}

    def remove(self, u):
        if u not in self.nodes:
            return
        self.nodes.discard(u)
        for c in [c for c, p in self.par.items() if p == u or c == u]:
            del self.par[c]
            del self.mat[c]

    def all_connected_to_base(self):
        if self.base not in self.nodes:
            return False
        r = self.ancestors(self.base)[-1]
        return all(self.ancestors(n)[-1] == r for n in self.nodes)


# ------------------------------------------------------------------ inputs
def rand_matrix(rs, tf):
    """rigid, uniformly / non-uniformly scaled, sheared, mirrored, pure translation, identity, integer"""
    k = rs.randint(9)
    M = tf.rotation_matrix(rs.uniform(-3, 3), rs.normal(size=3))
    M[:3, 3] = rs.uniform(-10, 10, size=3)
    if k == 1:
        M = tf.translation_matrix(rs.uniform(-5, 5, size=3))
    elif k == 2:
        M[:3, :3] *= rs.choice([0.5, 2.0, 25.4])
    elif k == 3:
        M = M @ np.diag([rs.choice([0.5, 2.0, 3.0]), 1.0, rs.choice([0.25, 4.0]), 1.0])
    elif k == 4:
        S = np.eye(4)
        S[0, 1], S[2, 0] = rs.choice([0.5, 1.5]), rs.choice([-0.5, 0.75])
        M = M @ S
    elif k == 5:
        M = M @ np.diag([1.0, -1.0, 1.0, 1.0])
    elif k == 6:
        M = np.eye(4)
    elif k == 7:
        M = np.eye(4)
        q = rs.randint(4)
        c, s = [(1, 0), (0, 1), (-1, 0), (0, -1)][q]
        M[0, 0], M[0, 1], M[1, 0], M[1, 1] = c, -s, s, c
        M[:3, 3] = rs.randint(-4, 5, size=3)
    return M


CONTAINERS = ("nd64", "list", "tuple", "f32", "fortran", "strided", "readonly", "int")


def container(rs, M, log):
    """-> (value handed to trimesh, matrix the caller means, scribble()) ; the caller's arrays are
    overwritten afterwards: the graph must keep its own values"""
    kind = CONTAINERS[rs.randint(len(CONTAINERS))]
    if kind == "int" and not np.array_equal(M, np.round(M)):
        kind = "nd64"
    log.hit("container:" + kind)
    if kind == "nd64":
        v = M.copy()
        return v, M, lambda: v.fill(77.0)
    if kind == "list":
        return M.tolist(), M, lambda: None
    if kind == "tuple":
        return tuple(tuple(r) for r in M.tolist()), M, lambda: None
    if kind == "f32":
        v = M.astype(np.float32)
        return v, v.astype(np.float64), lambda: v.fill(77.0)
    if kind == "fortran":
        v = np.asfortranarray(M.copy())
        return v, M, lambda: v.fill(77.0)
    if kind == "strided":
        big = np.zeros((8, 8))
        big[::2, ::2] = M
        return big[::2, ::2], M, lambda: big.fill(77.0)
    if kind == "readonly":
        v = M.copy()
        v.flags.writeable = False
        return v, M, lambda: None
    v = np.round(M).astype(np.int64)
    return v, v.astype(np.float64), lambda: v.fill(77)


# (no two of them with the same Python hash: that corner is exercised by the replay under its own deviation id)
NAMES = ["world", "a", "b", "c", "d", 0, "e f", ("t", 1), -1, 2.5]


def fam_entry(rs, log, trimesh, n_steps):
    """__setitem__ / __getitem__ / update without frame_from / from_edgelist and load onto a live graph /
    clear / copy-then-diverge / to_flattened, over all containers and frame-name kinds"""
    from trimesh import transformations as tf
    from trimesh.scene.transforms import SceneGraph
    base = NAMES[rs.randint(len(NAMES))] if rs.randint(3) == 0 else "world"
    g = SceneGraph(base_frame=base)
    sh = Shadow(base)
    frozen = []          # (graph left behind by copy(), its shadow at that moment)
    for _ in range(n_steps):
        op = rs.randint(14)
        u, v = NAMES[rs.randint(len(NAMES))], NAMES[rs.randint(len(NAMES))]
        M = rand_matrix(rs, tf)
        if op == 0 and sh.can(sh.base, v):
            val, meant, scribble = container(rs, M, log)
            g[v] = val
            sh.upd(v, sh.base, meant)
            scribble()
            log.hit("mut:setitem")
        elif op == 1 and sh.can(sh.base, v):
            val, meant, scribble = container(rs, M, log)
            if rs.randint(2):
                g.update(v, matrix=val)
            else:
                g.update(frame_to=v, frame_from=None, matrix=val)
            sh.upd(v, sh.base, meant)
            scribble()
            log.hit("mut:update_default_from")
        elif op in (2, 3) and sh.can(u, v):
            val, meant, scribble = container(rs, M, log)
            g.update(v, u, matrix=val)
            sh.upd(v, u, meant)
            scribble()
            log.hit("mut:update")
        elif op == 4:
            # a list of edges merged into the live graph (re-parents included); 2-tuples mean identity
            edges = []
            for _k in range(rs.randint(1, 4)):
                u2, v2 = NAMES[rs.randint(len(NAMES))], NAMES[rs.randint(len(NAMES))]
                if not sh.can(u2, v2):
                    continue
                if rs.randint(4) == 0:
                    edges.append((u2, v2))
                    sh.upd(v2, u2, np.eye(4))
                else:
                    M2 = rand_matrix(rs, tf)
                    val, meant, _s = container(rs, M2, log)
                    edges.append([u2, v2, {"matrix": val}])
                    sh.upd(v2, u2, meant)
            if edges:
                (g.load if rs.randint(2) else g.from_edgelist)(edges)
                log.hit("mut:edgelist_merge", len(edges))
        elif op == 5 and rs.randint(2):
            # export and re-import into the same graph: nothing may change
            g.from_edgelist(g.to_edgelist())
            log.hit("mut:edgelist_self")
        elif op == 6 and rs.randint(3) == 0:
            g.transforms.remove_node(v)
            sh.remove(v)
            log.hit("mut:remove")
        elif op == 7 and rs.randint(2):
            g.base_frame = u
            sh.base = u
            log.hit("mut:set_base")
        elif op == 8 and rs.randint(12) == 0:
            g.clear()
            sh.par, sh.mat, sh.nodes = {}, {}, set()
            log.hit("mut:clear")
        elif op == 9 and rs.randint(3) == 0 and len(frozen) < 3:
            # continue on the copy; the graph left behind must keep answering from its own state
            frozen.append((g, sh.clone()))
            g = g.copy()
            log.hit("mut:copy")
        elif op >= 10 and len(sh.nodes) >= 1:
            nodes = sorted(sh.nodes, key=repr)
            a, b = nodes[rs.randint(len(nodes))], nodes[rs.randint(len(nodes))]
            how = rs.randint(4)
            if how == 0:
                log.query(sh, sh.base, b, lambda: g[b][0], "getitem")
            elif how == 1:
                log.query(sh, sh.base, b, lambda: g.get(b)[0], "get_default_from")
            elif how == 2:
                log.query(sh, a, b, lambda: g.get(frame_to=b, frame_from=a)[0], "get")
            elif sh.all_connected_to_base():
                flat = {}
                try:
                    flat = g.to_flattened()
                except Exception:  # noqa  (judged through the per-node events below)
                    pass
                for n in nodes:
                    if n != sh.base:
                        log.query(sh, sh.base, n, lambda: flat[n]["transform"], "to_flattened")
    for old, osh in frozen:
        nodes = sorted(osh.nodes, key=repr)
        for n in nodes[:4]:
            for m in nodes[-2:]:
                log.query(osh, n, m, lambda: old.get(m, n)[0], "get_on_graph_left_by_copy")
    nodes = sorted(sh.nodes, key=repr)
    for n in nodes[:5]:
        for m in nodes[-3:]:
            log.query(sh, n, m, lambda: g.get(m, n)[0], "get")


def fam_deep(rs, log, trimesh, n_nodes):
    """forests of 20-39 frames (long branches and wide fans), queried, re-shaped, queried again"""
    from trimesh import transformations as tf
    from trimesh.scene.transforms import SceneGraph
    g = SceneGraph()
    sh = Shadow("world")
    names = ["world"] + ["f%d" % i for i in range(1, n_nodes)]
    pchain = (100, 93, 80)[log.hid % 3]      # one single branch / long branches / bushier
    for i in range(1, n_nodes):
        p = names[i - 1] if rs.randint(100) < pchain else names[rs.randint(i)]
        M = rand_matrix(rs, tf)
        g.update(names[i], p, matrix=M)
        sh.upd(names[i], p, M)

    log.cov["deep_max_depth"] = max(len(sh.ancestors(n)) for n in sh.nodes)

    def queries(k):
        for _ in range(k):
            a, b = names[rs.randint(n_nodes)], names[rs.randint(n_nodes)]
            if a in sh.nodes and b in sh.nodes:
                log.query(sh, a, b, lambda: g.get(b, a)[0], "get")
    queries(12)
    log.query(sh, "world", names[-1], lambda: g.get(names[-1])[0], "get")
    log.query(sh, names[-1], "world", lambda: g.get("world", names[-1])[0], "get")
    # move a subtree, replace a matrix high up, drop a frame in the middle: the earlier answers are stale now
    for _ in range(3):
        v, u = names[rs.randint(1, n_nodes)], names[rs.randint(n_nodes)]
        if u in sh.nodes and sh.can(u, v):
            M = rand_matrix(rs, tf)
            g.update(v, u, matrix=M)
            sh.upd(v, u, M)
            log.hit("mut:deep_reparent")
        queries(5)
    mid = names[n_nodes // 2]
    g.transforms.remove_node(mid)
    sh.remove(mid)
    log.hit("mut:deep_remove")
    queries(10)


VERYDEEP = (64, 130)          # quick
VERYDEEP_THOROUGH = (64, 130, 400, 1100)


def fam_verydeep(rs, log, trimesh, n):
    """one chain of n frames with a side branch: integer matrices, so the product is exact at any depth"""
    from trimesh.scene.transforms import SceneGraph
    gens = []
    for q, x, y in [(1, 1, 0), (0, 0, 1), (2, 0, 2), (3, -1, 1)]:
        M = np.eye(4)
        c, s = [(1, 0), (0, 1), (-1, 0), (0, -1)][q]
        M[0, 0], M[0, 1], M[1, 0], M[1, 1] = c, -s, s, c
        M[0, 3], M[1, 3] = x, y
        gens.append(M)
    g = SceneGraph()
    sh = Shadow("world")
    prev = "world"
    for i in range(1, n):
        g.update(i, prev, matrix=gens[i % 4])
        sh.upd(i, prev, gens[i % 4])
        prev = i
    half = n // 2
    prev = half
    for i in range(n // 4):
        nm = ("s", i)
        g.update(nm, prev, matrix=gens[(i + 1) % 4])
        sh.upd(nm, prev, gens[(i + 1) % 4])
        prev = nm
    log.query(sh, "world", n - 1, lambda: g.get(n - 1)[0], "get")
    if n <= 500:     # (a path of k edges costs k^3 Python steps in numpy's multi_dot today: one long query is enough)
        log.query(sh, n - 1, "world", lambda: g.get("world", n - 1)[0], "get")
        log.query(sh, prev, n - 1, lambda: g.get(n - 1, prev)[0], "get")
    log.cov["verydeep_max_depth"] = n


def fam_scene(rs, log, trimesh, n_steps):
    """the Scene-level mutators that write the graph: add_geometry under a parent, apply_transform, rezero,
    camera_transform, graph[...] =, delete_geometry, copy - with queries before and after each"""
    from trimesh import transformations as tf
    s = trimesh.Scene()
    sh = Shadow(s.graph.base_frame)
    box = trimesh.creation.box()
    made = []
    for step in range(n_steps):
        op = rs.randint(10)
        M = rand_matrix(rs, tf)
        if abs(np.linalg.det(M[:3, :3])) < 1e-3:
            continue
        if op <= 2 or not made:
            parent = made[rs.randint(len(made))] if made and rs.randint(2) else None
            name = "inst%d" % len(made)
            val, meant, scribble = container(rs, M, log)
            s.add_geometry(box, node_name=name, geom_name="box", parent_node_name=parent, transform=val)
            sh.upd(name, sh.base if parent is None else parent, meant)
            scribble()
            made.append(name)
            log.hit("mut:scene_add_geometry")
        elif op == 3:
            # "apply a transform to all children of the base frame"
            kids = [c for c, p in sh.par.items() if p == sh.base]
            if kids:
                s.apply_transform(M)
                for c in kids:
                    sh.mat[c] = M @ sh.mat[c]
                log.hit("mut:scene_apply_transform")
        elif op == 4 and rs.randint(2):
            # rezero hangs the old base under a new one; WHICH offset it picks is not C09's business
            # (C10 decides that), so the caller-side matrix is read back from the new edge
            old = s.graph.base_frame
            s.rezero()
            new = s.graph.base_frame
            if new != old:
                E = s.graph.transforms.edge_data.get((new, old), {})
                if "matrix" not in E:
                    raise MachineryError("rezero did not create the edge (new base, old base)")
                sh.upd(old, new, np.array(E["matrix"]))
                sh.base = new
                log.hit("mut:scene_rezero")
        elif op == 8 and rs.randint(3) == 0 and len(s.geometry) > 1:
            # detaches a geometry from its nodes; the frames and their transforms stay
            s.delete_geometry(sorted(s.geometry.keys())[rs.randint(len(s.geometry))])
            log.hit("mut:scene_delete_geometry")
        elif op == 5 and rs.randint(2) and len(s.geometry) > 0:
            R = tf.rotation_matrix(rs.uniform(-3, 3), rs.normal(size=3))
            R[:3, 3] = rs.uniform(-5, 5, 3)
            try:
                cam = s.camera.name     # creates a default camera looking at the scene when there is none
            except Exception:  # noqa  (no view can be computed for this scene: not a graph matter)
                log.hit("skip:camera")
                continue
            if not sh.can(sh.base, cam):
                continue
            s.camera_transform = R
            if True:
                sh.upd(s.camera.name, sh.base, R)
            log.hit("mut:scene_camera_transform")
        elif op == 6 and made:
            v = made[rs.randint(len(made))]
            if sh.can(sh.base, v):
                val, meant, scribble = container(rs, M, log)
                s.graph[v] = val
                sh.upd(v, sh.base, meant)
                scribble()
                log.hit("mut:scene_graph_setitem")
        elif op == 7 and rs.randint(4) == 0:
            old = s
            osh = sh.clone()
            s = s.copy()
            s.apply_transform(M)
            for c in [c for c, p in sh.par.items() if p == sh.base]:
                sh.mat[c] = M @ sh.mat[c]
            for n in sorted(osh.nodes, key=repr)[:4]:
                log.query(osh, osh.base, n, lambda: old.graph.get(n)[0], "get_on_scene_left_by_copy")
            log.hit("mut:scene_copy")
        else:
            nodes = sorted(sh.nodes, key=repr)
            if nodes:
                a, b = nodes[rs.randint(len(nodes))], nodes[rs.randint(len(nodes))]
                if rs.randint(2):
                    log.query(sh, sh.base, b, lambda: s.graph[b][0], "getitem")
                else:
                    log.query(sh, a, b, lambda: s.graph.get(b, a)[0], "get")
    nodes = sorted(sh.nodes, key=repr)
    for n in nodes[:4]:
        for m in nodes[-3:]:
            log.query(sh, n, m, lambda: s.graph.get(m, n)[0], "get")


def run_history(item):
    """item = (family, history id, seed, size) -> (events, mats, cov)"""
    fam, hid, sd, size = item
    trimesh = import_trimesh()
    rs = np.random.RandomState((sd * 1000003 + hid * 7919 + FAMILIES.index(fam)) % (2 ** 31))
    log = Log(fam, hid)
    {"entry": fam_entry, "deep": fam_deep, "scene": fam_scene, "verydeep": fam_verydeep}[fam](rs, log, trimesh, size)
    return log.events, log.mats, log.cov


def run_chunk(chunk):
    return [run_history(it) for it in chunk]


def plan(tier, sd):
    """the histories of one run"""
    quick = tier == "quick"
    items = []
    for h, n in reversed(list(enumerate(VERYDEEP if quick else VERYDEEP_THOROUGH))):
        items.append(("verydeep", h, sd, n))          # the longest first: it is the slowest single item
    for h in range(60 if quick else 600):
        items.append(("entry", h, sd, 45))
    for h in range(8 if quick else 60):
        items.append(("deep", h, sd, 39 if h % 3 == 0 else 20 + (h * 7 + sd) % 20))
    for h in range(16 if quick else 120):
        items.append(("scene", h, sd, 30))
    return items
