"""C20 - loading arbitrary or corrupted bytes terminates with a clean outcome.

spec/Loader.tla: life-cycle of load / load_mesh / load_scene / load_path (ParseArgs, Dispatch,
loader loop with a progress measure, the try/finally that closes what was opened, post
processing) model-checked by TLC for HandleClosedAtEnd, OutcomeOrdinary and termination
(liveness under weak fairness, no state constraint); and every fault sequence of at most two
faults (truncate at / inside a field, corrupt a field with a value class, swap, duplicate,
drop, splice) over an abstract 6-field file layout, enumerated by TLC.
The harness maps each abstract fault sequence through a per-format layout map (header, count
fields, body chunks, tail of a freshly exported seed file) onto concrete bytes for every
exportable format, adds every truncation point and seeded random splices, and loads each
mutated file in a pooled subprocess (RLIMIT_AS, alarm) through load / load_mesh / load_scene
/ load_path, by file object and by path.  Each load is recorded as a trace (who opened what,
closed or not, outcome class, time bucket, fd table) and validated by TLC (LoaderTrace.tla).

Memory: every load runs with the address space it can still obtain limited to the allowance of
LoaderTrace.tla (half a GiB + 1 KiB per input byte); every MemoryError raised anywhere during the
load is counted through sys.monitoring, also the ones a loader catches (`except BaseException` in
`_load_compressed`), so an allocation sized by a corrupted count field is a recorded observation.
Loader.tla also model-checks MemoryProportional (length check in exact arithmetic passes, in
wrapping arithmetic or absent is reported) and emits the symbolic value classes of a numeric field
(n + 2^(w - v2(size)) for every width and record size, sign / width boundaries, ...).

Further families (checks/c20_families.py): every numeric token of the parsed payload replaced by
value classes with the container re-framed (GLB chunk lengths, fresh zip CRCs, binary PLY / binvox
header + body); fixed-width binary count fields (STL face count, GLB lengths, sizes / lengths /
offsets of the zip local header, central directory and end record, PLY list lengths in hand-made
flavours: either endianness, all count / index types, doubles, quads) under every bit flip and
class; fresh exports of other geometry than the seed box (scaled by 2^-20 .. 2^40, far from the
origin, larger, empty, one face, zero-area, non-finite; arcs of every magnitude); structural
damage of the glTF JSON tree, accessors without bufferView, node cycles; the other archive containers (tar.gz, tar.bz2, bz2, zae) and a self-contained text glTF
as seeds; multi-file assets by path (obj+mtl+png, gltf+bin) with damaged sidecars / references,
where every file below the asset directory must be closed again; call variants (pathlib, upper
case extension, file object at an offset, caller-opened file, loading twice, loader options).
"""
import builtins
import gc
import io
import json
import os
import re
import resource
import signal
import sys
import time
import zipfile

import numpy as np

from harness import tlc
from harness.common import (NCPU, WORK, MachineryError, Verdict, import_trimesh, seed,
                            tier_from_args)
from checks import c20_families as F

PROP = "C20"
NFIELDS = 6
TRACE_CFG = "INIT TInit\nNEXT TNext\nINVARIANT TReport\nCHECK_DEADLOCK FALSE\n"

LIFE_CFG = """CONSTANTS
  Entries <- Entries4
  ClosesOnAllPaths = {closes}
  MaxInput = 4
  NFields = 4
  MaxFaults = 1
  Classes <- Classes4
  LengthCheck = "{lc}"
SPECIFICATION Spec
INVARIANT HandleClosedAtEnd
INVARIANT OutcomeOrdinary
INVARIANT MemoryProportional
PROPERTY Terminates
"""
FAULT_CFG = """CONSTANTS
  Entries <- Entries4
  ClosesOnAllPaths = TRUE
  MaxInput = 1
  NFields = {nf}
  MaxFaults = {mf}
  Classes <- Classes4
  LengthCheck = "exact"
INIT FInit
NEXT FNext
INVARIANT EmitFaults
CHECK_DEADLOCK FALSE
"""
CLASS_CFG = """CONSTANTS
  Entries <- Entries4
  ClosesOnAllPaths = TRUE
  MaxInput = 1
  NFields = 1
  MaxFaults = 0
  Classes <- Classes4
  LengthCheck = "exact"
INIT FInit
NEXT FNext
INVARIANT EmitClasses
CHECK_DEADLOCK FALSE
"""


# ------------------------------------------------------------------ seeds
def seeds(tm):
    """file_type -> bytes of a small valid file"""
    out = {}
    box = tm.creation.box(extents=[1, 2, 3])
    box.visual.face_colors = (np.arange(48).reshape(12, 4) * 5 % 255).astype(np.uint8)
    for ft in ("stl", "stl_ascii", "off", "obj", "glb", "3mf", "dae"):
        try:
            out[ft] = box.export(file_type=ft)
        except BaseException:
            pass
    try:
        out["ply"] = box.export(file_type="ply")
        out["ply_ascii"] = box.export(file_type="ply", encoding="ascii")
    except BaseException:
        pass
    try:
        g = box.export(file_type="gltf")
        # gltf export is a dict of files; pack the json with embedded buffers instead
        s = tm.Scene(box)
        out["gltf"] = s.export(file_type="gltf", embed_buffers=True)["model.gltf"] if False else g.get("model.gltf", None)
    except BaseException:
        pass
    if not isinstance(out.get("gltf"), (bytes, bytearray)):
        out.pop("gltf", None)
    pc = tm.PointCloud(np.arange(30, dtype=float).reshape(10, 3), colors=(np.arange(40).reshape(10, 4) * 6 % 255).astype(np.uint8))
    try:
        out["xyz"] = pc.export(file_type="xyz")
    except BaseException:
        pass
    cells = (np.arange(27).reshape(3, 3, 3) % 3) != 1      # binvox needs a cubic grid
    vg = tm.voxel.VoxelGrid(cells)
    try:
        out["binvox"] = vg.export(file_type="binvox")
    except BaseException:
        pass
    from trimesh.path.entities import Arc, Line
    p = tm.path.Path2D(entities=[Line([0, 1, 2]), Line([2, 3, 0]), Arc([4, 5, 6], closed=True)],
                       vertices=np.array([[0, 0], [4, 0], [4, 3], [0, 3], [1, 1], [2, 2], [3, 1]], dtype=float), process=False)
    for ft in ("dxf", "svg"):
        try:
            out[ft] = p.export(file_type=ft)
        except BaseException:
            pass
    if "obj" in out:
        bio = io.BytesIO()
        with zipfile.ZipFile(bio, "w") as z:
            z.writestr("box.obj", out["obj"] if isinstance(out["obj"], (bytes, bytearray)) else out["obj"].encode())
        out["zip"] = bio.getvalue()
    # small files from the repository's own corpus: features the exporters never write
    # (interleaved / strided glTF accessors, primitives, nested nodes, ascii variants)
    from harness.common import repo_dir
    for key, fn in (("glb@interleaved", "BoxInterleaved.glb"), ("glb@nested", "nested.glb"), ("glb@cubevc", "cubevc.glb"),
                    ("gltf@mode5", "mode5.gltf"), ("ply@corpus", "ascii.ply"), ("obj@corpus", "negative_indices.obj"), ("off@corpus", "comments.off")):
        pth = os.path.join(repo_dir(), "models", fn)
        if os.path.exists(pth) and os.path.getsize(pth) < 60000:
            with open(pth, "rb") as fh:
                out[key] = fh.read()
    res = {}
    for k, v in out.items():
        if isinstance(v, str):
            v = v.encode("utf-8")
        if isinstance(v, (bytes, bytearray)) and len(v) > 0:
            res[k] = bytes(v)
    return res


def file_type_of(key):
    key = key.split("@")[0]
    return {"ply_ascii": "ply"}.get(key, key)


TEXT = {"stl_ascii", "off", "obj", "ply_ascii", "xyz", "dxf", "svg", "dae", "gltf"}


def layout(key, data):
    """Split a seed file into NFIELDS fields [(start, end)]: header, count span, body chunks, tail."""
    key = key.split("@")[0]
    n = len(data)
    count = None
    if key == "stl":
        head, count = 80, (80, 84)
    elif key == "glb":
        head, count = 8, (8, 20)          # total length, first chunk length + type
    elif key in ("ply", "ply_ascii"):
        m = re.search(rb"element vertex (\d+)", data)
        head = m.start(1) if m else n // NFIELDS
        count = m.span(1) if m else None
    elif key == "off":
        m = re.search(rb"OFF\s+(\d+ \d+ \d+)", data)
        head = m.start(1) if m else 4
        count = m.span(1) if m else None
    elif key == "binvox":
        m = re.search(rb"dim (\d+ \d+ \d+)", data)
        head = m.start(1) if m else 10
        count = m.span(1) if m else None
    else:
        head = max(1, n // NFIELDS)
    if count is None:
        count = (head, min(n, head + max(1, n // NFIELDS)))
    rest0 = count[1]
    body = max(0, n - rest0)
    k = NFIELDS - 2
    cuts = [rest0 + (body * j) // k for j in range(k + 1)]
    fields = [(0, count[0]), count] + [(cuts[j], cuts[j + 1]) for j in range(k)]
    return fields


CLASS_BYTES = {"zero": b"\x00\x00\x00\x00", "max": b"\xff\xff\xff\xff", "negative": b"\xff\xff\xff\x80"}
CLASS_TEXT = {"zero": b"0", "max": b"99999999999", "negative": b"-1"}


def glb_rewrite(data, field, value):
    """Re-frame a GLB after changing every occurrence of one numeric JSON field (lengths stay consistent,
    so the corruption is not caught by the container checks)."""
    import struct
    if data[:4] != b"glTF" or len(data) < 20:
        return None
    jlen = struct.unpack("<I", data[12:16])[0]
    js = data[20:20 + jlen]
    rest = data[20 + jlen:]
    new, n = re.subn(rb'("' + field.encode() + rb'"\s*:\s*)\d+', lambda m: m.group(1) + str(value).encode(), js)
    if n == 0:
        return None
    new = new.rstrip(b" ")
    new += b" " * ((4 - len(new) % 4) % 4)
    total = 12 + 8 + len(new) + len(rest)
    return data[:8] + struct.pack("<I", total) + struct.pack("<I", len(new)) + data[16:20] + new + rest


def apply_faults(key, data, faults, rs, others):
    fields = layout(key, data)
    parts = [data[a:b] for a, b in fields]
    text = key.split("@")[0] in TEXT
    for f in faults:
        i = f["f"] - 1
        op = f["op"]
        if i >= len(parts):
            continue
        if op == "truncate_at":
            parts = parts[:i]
        elif op == "truncate_in":
            parts = parts[:i] + [parts[i][: len(parts[i]) // 2]]
        elif op == "corrupt":
            c = f["c"]
            if c == "random":
                val = bytes(rs.randint(0, 256, size=max(1, min(8, len(parts[i])))).tolist())
            else:
                val = (CLASS_TEXT if text else CLASS_BYTES)[c]
            if i == 1:
                parts[i] = val if text else (val * ((len(parts[i]) + 3) // 4))[: len(parts[i])]
            else:
                parts[i] = val + parts[i][len(val):]
        elif op == "swap" and i + 1 < len(parts):
            parts[i], parts[i + 1] = parts[i + 1], parts[i]
        elif op == "duplicate":
            parts = parts[: i + 1] + [parts[i]] + parts[i + 1:]
        elif op == "drop":
            parts = parts[:i] + parts[i + 1:]
        elif op == "splice":
            o = others[rs.randint(len(others))]
            a = rs.randint(0, max(1, len(o) - 1))
            parts = parts[:i] + [o[a: a + 1 + rs.randint(0, 64)]] + parts[i:]
    return b"".join(parts)


# ------------------------------------------------------------------ running loads
class Alarm(BaseException):
    pass


def _on_alarm(signum, frame):
    raise Alarm()


HARD_AS = 4 << 30
MEM_BASE = 512 << 20          # the allowance applied; LoaderTrace.tla checks it is at least the bound it states
MEM_PER_BYTE = 1024
_memerrs = []


def _vmsize():
    with open("/proc/self/statm") as f:
        return int(f.read().split()[0]) * os.sysconf("SC_PAGE_SIZE")


def install_memory_monitor():
    """count every MemoryError raised while a load runs, also the ones the loader swallows"""
    mon = sys.monitoring
    tool = None
    for cand in (4, 3, mon.PROFILER_ID):
        if mon.get_tool(cand) in (None, "c20"):
            tool = cand
            break
    if tool is None:
        raise RuntimeError("no free sys.monitoring tool id")
    if mon.get_tool(tool) is None:
        mon.use_tool_id(tool, "c20")

    def on_raise(code, offset, exc):
        if isinstance(exc, MemoryError) and not any(e is exc for e in _memerrs):
            _memerrs.append(exc)
    mon.register_callback(tool, mon.events.RAISE, on_raise)
    mon.set_events(tool, mon.events.RAISE)


def load_once(tm, job, data, tmpdir, idx):
    """Run one load; returns the trace record fields."""
    import shutil
    from checks.c20_families import KWARGS
    entry, by_path, ftype = job["entry"], job["bypath"], job["ftype"]
    mode = job.get("mode", "")
    aux = {k: bytes.fromhex(v) for k, v in (job.get("files") or {}).items()}
    nbytes = len(data) + sum(len(v) for v in aux.values())
    bound = 10.0 + 1e-3 * nbytes
    opened = []
    aux_opened = []
    real_open = builtins.open
    path = None
    jobdir = None
    caller_fo = None
    kwargs = dict(KWARGS[mode[3:]]) if mode.startswith("kw:") else {}
    if "force" in kwargs and entry != "load":
        kwargs.pop("force")
    if by_path or aux or mode == "realfile":
        jobdir = os.path.join(tmpdir, "j%d_%d" % (os.getpid(), idx))
        os.makedirs(jobdir, exist_ok=True)
        for name, b in aux.items():
            with real_open(os.path.join(jobdir, name), "wb") as fh:
                fh.write(b)
        # a bz2 archive holds one nameless member: its type is what is left of the file name
        ext = {"stl_ascii": "stl", "bz2": "stl.bz2"}.get(ftype, ftype)
        if mode == "upper":
            ext = ext.upper()
        path = os.path.join(jobdir, "model." + ext)
        with real_open(path, "wb") as fh:
            fh.write(data)
        if mode == "realfile":
            caller_fo = real_open(path, "rb")       # opened by the caller: not the loader's to close

        def spy_open(file, *a, **k):
            fo = real_open(file, *a, **k)
            try:
                if isinstance(file, (str, bytes, os.PathLike)):
                    ap = os.path.abspath(os.fsdecode(os.fspath(file)))
                    if ap == path and by_path:
                        opened.append(fo)
                    elif ap.startswith(jobdir + os.sep):
                        aux_opened.append(fo)
            except BaseException:
                pass
            return fo
        builtins.open = spy_open
        io.open = spy_open
    gc.collect()
    fds0 = set(os.listdir("/proc/self/fd"))
    fn = {"load": tm.load, "load_mesh": tm.load_mesh, "load_scene": tm.load_scene, "load_path": tm.load_path}[entry]
    outcome = "none"
    exc_name = ""
    result = None
    del _memerrs[:]
    allow = MEM_BASE + MEM_PER_BYTE * nbytes
    soft = min(HARD_AS, _vmsize() + allow)
    allow_kib = (soft - _vmsize()) // 1024
    # the bound is on CPU time (a hang is a busy loop; a starved machine must not look like one), with a
    # generous wall-clock backstop for a loader that would block without computing; the timers re-fire so
    # that an alarm swallowed by an `except BaseException` of a loader is not the last one
    signal.signal(signal.SIGPROF, _on_alarm)
    signal.signal(signal.SIGALRM, _on_alarm)
    resource.setrlimit(resource.RLIMIT_AS, (soft, HARD_AS))
    c0 = time.process_time()
    signal.setitimer(signal.ITIMER_PROF, bound, 1.0)
    signal.setitimer(signal.ITIMER_REAL, bound * 30, 5.0)
    try:
        try:
            if by_path:
                import pathlib
                src = pathlib.Path(path) if mode == "pathlib" else path
            elif mode == "realfile":
                src = caller_fo
            elif mode == "offset":
                src = io.BytesIO(b"\x00junk\n" * 3 + data)
                src.seek(18)
            else:
                src = io.BytesIO(data)
            # "twice": the same path again, or the same file object left where the first load left it
            for _round in range(2 if mode == "twice" else 1):
                if by_path:
                    result = fn(src, **kwargs) if ftype not in ("stl_ascii",) else fn(src, file_type=ftype, **kwargs)
                else:
                    result = fn(src, file_type=ftype, **kwargs)
            outcome = "return"
        except Alarm:
            outcome = "timeout"
        except MemoryError as e:
            outcome, exc_name = "memory", "MemoryError"
        except Exception as e:  # ordinary
            outcome, exc_name = "exception", type(e).__name__
            if "Unable to allocate" in str(e):
                outcome = "memory"
        except BaseException as e:  # SystemExit, KeyboardInterrupt, GeneratorExit ...
            outcome, exc_name = "fatal", type(e).__name__
    finally:
        signal.setitimer(signal.ITIMER_PROF, 0)
        signal.setitimer(signal.ITIMER_REAL, 0)
        elapsed = time.process_time() - c0
        resource.setrlimit(resource.RLIMIT_AS, (HARD_AS, HARD_AS))
        builtins.open = real_open
        io.open = real_open
    mem_attempts = len(_memerrs)
    mem_msg = str(_memerrs[0])[:120] if _memerrs else ""
    del _memerrs[:]
    closed = all(fo.closed for fo in opened)
    # result still referenced here: a descriptor held by it is a leak of the loader
    fds1 = set(os.listdir("/proc/self/fd"))
    main_fd = aux_fd = 0
    if jobdir is not None:
        for fd in fds1 - fds0:
            try:
                target = os.readlink("/proc/self/fd/" + fd)
            except OSError:
                continue
            if target == path:
                main_fd += 1
            elif target.startswith(jobdir + os.sep):
                aux_fd += 1
    fd_leak = (len(fds1) > len(fds0) and not closed) or (by_path and main_fd > 0)
    aux_open = max(sum(1 for fo in aux_opened if not fo.closed), aux_fd)
    # now drop everything
    for fo in opened + aux_opened + ([caller_fo] if caller_fo is not None else []):
        try:
            fo.close()
        except BaseException:
            pass
    del result
    if jobdir:
        shutil.rmtree(jobdir, ignore_errors=True)
    return {"entry": entry, "bypath": bool(by_path), "opened": len(opened) > 0, "closed": bool(closed),
            "outcome": outcome, "slow": outcome == "timeout" or elapsed > bound, "fd_leak": bool(fd_leak),
            "exc": exc_name, "ms": int(elapsed * 1000), "nbytes": nbytes, "mem_allow_kib": int(allow_kib),
            "mem_attempts": mem_attempts, "mem_msg": mem_msg, "aux_open": int(aux_open)}


def worker(chunk_path):
    """Subprocess entry: read a chunk description, run the loads, write results next to it."""
    resource.setrlimit(resource.RLIMIT_AS, (HARD_AS, HARD_AS))
    tm = import_trimesh()
    import logging
    logging.disable(logging.CRITICAL)
    install_memory_monitor()
    # everything imported so far is permanent: the per-job gc.collect() then only walks what a load created
    gc.collect()
    gc.freeze()
    with open(chunk_path, "rb") as f:
        chunk = json.loads(f.read())
    tmpdir = os.path.dirname(chunk_path)
    out = []
    done_path = chunk_path + ".out"
    for k, job in enumerate(chunk):
        data = bytes.fromhex(job["hex"])
        # progress marker so that a hard crash can be attributed to the job that was running
        with open(chunk_path + ".cur", "w") as f:
            f.write(str(k))
        try:
            r = load_once(tm, job, data, tmpdir, k)
        except Exception as e:   # an error of the harness itself, not of the loader
            with open(chunk_path + ".err", "w") as f:
                f.write("%s: %s" % (type(e).__name__, e))
            return 3
        r["id"] = job["id"]
        out.append(r)
    with open(done_path, "w") as f:
        json.dump(out, f)
    return 0


def run_jobs(jobs, name):
    """Run jobs in pooled subprocesses; a crashed subprocess is attributed to the job that was running."""
    import subprocess
    d = os.path.join(WORK, "c20-%d" % os.getpid(), name)
    os.makedirs(d, exist_ok=True)
    nchunk = max(NCPU * 3, len(jobs) // 400 + 1)
    chunks = [jobs[i::nchunk] for i in range(nchunk)]
    paths = []
    for i, c in enumerate(chunks):
        if not c:
            continue
        p = os.path.join(d, "chunk%d.json" % i)
        with open(p, "w") as f:
            json.dump(c, f)
        paths.append((p, c))
    env = dict(os.environ)
    results = []
    pending = list(paths)
    running = []
    while pending or running:
        while pending and len(running) < NCPU:
            p, c = pending.pop()
            pr = subprocess.Popen([sys.executable, "-W", "ignore", "-m", "checks.c20", "--worker", p],
                                  stdout=subprocess.DEVNULL, stderr=subprocess.DEVNULL, env=env, cwd=os.path.dirname(os.path.dirname(os.path.abspath(__file__))))
            running.append((pr, p, c, time.time()))
        time.sleep(0.05)
        still = []
        for pr, p, c, t0 in running:
            rc = pr.poll()
            if rc is None:
                if time.time() - t0 > 1200:
                    pr.kill()
                still.append((pr, p, c, t0))
                continue
            if os.path.exists(p + ".out"):
                with open(p + ".out") as f:
                    results += json.load(f)
            elif os.path.exists(p + ".err"):
                raise MachineryError("load worker failed: " + open(p + ".err").read())
            else:
                if p.count(".r") > 6:
                    raise MachineryError("load worker keeps dying on chunk " + p)
                # hard crash: the job marked in .cur brought the interpreter down; re-run the others
                cur = 0
                try:
                    cur = int(open(p + ".cur").read())
                except BaseException:
                    pass
                bad = c[cur]
                results.append({"id": bad["id"], "entry": bad["entry"], "bypath": bad["bypath"], "opened": bad["bypath"], "closed": True,
                                "outcome": "fatal", "slow": False, "fd_leak": False, "exc": "interpreter_exit_%s" % rc, "ms": 0,
                                "nbytes": len(bad["hex"]) // 2, "mem_allow_kib": (MEM_BASE + MEM_PER_BYTE * (len(bad["hex"]) // 2)) // 1024,
                                "mem_attempts": 0, "mem_msg": "", "aux_open": 0})
                rest = c[:cur] + c[cur + 1:]
                if rest:
                    np_ = p + ".r"
                    with open(np_, "w") as f:
                        json.dump(rest, f)
                    pending.append((np_, rest))
        running = still
    import shutil
    shutil.rmtree(d, ignore_errors=True)
    return results


def main(argv):
    if "--worker" in argv:
        return worker(argv[argv.index("--worker") + 1])
    tier = tier_from_args(argv)
    V = Verdict(PROP, tier)
    tm = import_trimesh()
    cov = {"tlc_runs": []}
    states = trans = 0

    def note(name, r):
        nonlocal states, trans
        states += r.distinct
        trans += r.generated
        cov["tlc_runs"].append({"run": name, "distinct": r.distinct, "generated": r.generated, "wall_s": round(r.wall, 1)})

    d = tlc.prepare("c20/mc")
    r = tlc.must(tlc.run(d, "Loader", LIFE_CFG.format(closes="TRUE", lc="exact"), timeout=1500), "lifecycle")
    note("life-cycle: HandleClosedAtEnd, OutcomeOrdinary, MemoryProportional, Terminates (fair)", r)
    rr = tlc.run(d, "Loader", LIFE_CFG.format(closes="FALSE", lc="exact"), timeout=1500)
    if rr.violated != "HandleClosedAtEnd":
        raise MachineryError("spec self-test: an entry point without finally was not reported")
    for lc in ("wrapping", "none", "declared"):
        rr = tlc.run(d, "Loader", LIFE_CFG.format(closes="TRUE", lc=lc), timeout=1500)
        if rr.violated != "MemoryProportional":
            raise MachineryError("spec self-test: a %s length check was not reported (%s)" % (lc, rr.violated))
    cov["spec_selftest"] = ("entry point without finally -> HandleClosedAtEnd violated; length check in wrapping arithmetic / "
                            "absent / against another header field -> MemoryProportional violated, as expected")
    r = tlc.must(tlc.run(d, "Loader", CLASS_CFG, workers=1, timeout=900), "value classes")
    note("value classes of a numeric field", r)
    if len(r.printed) != 1:
        raise MachineryError("value classes not emitted")
    ints, reals, structs, pairs = (sorted(r.printed[0][k], key=lambda c: json.dumps(c, sort_keys=True)) for k in ("ints", "reals", "structs", "pairs"))
    if len(pairs) < 16:
        raise MachineryError("too few class pairs: %d" % len(pairs))
    if any(c not in ints for c in F.ESSENTIAL):
        raise MachineryError("a class the quick tier always applies is not among the classes TLC emitted")
    if len(ints) < 60 or len(reals) < 8 or len(structs) < 8:
        raise MachineryError("too few value classes: %d %d %d" % (len(ints), len(reals), len(structs)))
    mf = 2
    r = tlc.must(tlc.run(d, "Loader", FAULT_CFG.format(nf=NFIELDS, mf=mf), workers=1, timeout=900), "faults")
    note(f"fault sequences <= {mf} over {NFIELDS} fields", r)
    faultseqs = r.printed
    if len(faultseqs) < 1000:
        raise MachineryError("too few fault sequences")

    sd = seeds(tm)
    if len(sd) < 10:
        raise MachineryError("too few seed formats: %s" % sorted(sd))
    extra = F.extra_seeds(tm, sd)
    if len(extra) < 6:
        raise MachineryError("too few container / flavour seeds: %s" % sorted(extra))
    sd.update(extra)
    asm = F.assembly_seeds(tm)
    if "3mf@assembly" not in asm:
        raise MachineryError("instanced scene could not be exported: %s" % sorted(asm))
    asm.pop("glb@assembly", None)        # node graphs of glTF are covered by glb@nested + json_structure
    sd.update(asm)
    light = set(asm)                     # seeds for the structural families only: no byte-level enumeration of their own
    quick = tier == "quick"
    rs = np.random.RandomState(seed() + 20)
    others = list(sd.values())
    jobs = []
    desc = []
    path_types = {"dxf", "svg"}

    fam_count = {}

    def add(key, data, how, fam="bytes", files=None, mode="", entry=None, bypath=None):
        ft = file_type_of(key)
        entries = ["load_path", "load"] if ft in path_types else ["load", "load_mesh", "load_scene"]
        e = entry or entries[len(jobs) % len(entries)]
        bp = ((len(jobs) // 3) % 2 == 0) if bypath is None else bypath
        if ft in ("zip", "tar.gz", "tar.bz2", "bz2") and e == "load_mesh":
            e = "load"
        if mode in ("pathlib", "upper"):
            bp = True
        elif mode in ("offset", "realfile"):
            bp = False
        job = {"id": len(jobs), "entry": e, "bypath": bp, "ftype": ft, "hex": data.hex()}
        if files:
            job["files"] = {k: v.hex() for k, v in files.items()}
        if mode:
            job["mode"] = mode
        jobs.append(job)
        dsc = {"seed": key, "how": how, "entry": e, "bypath": bp, "bytes": len(data), "family": fam}
        if mode:
            dsc["mode"] = mode
        desc.append(dsc)
        fam_count[fam] = fam_count.get(fam, 0) + 1

    stride_f = 9 if tier == "quick" else 1
    for si, (key, data) in enumerate(sorted(sd.items())):
        # the valid file itself through every entry point, by path and by object
        for _ in range(6):
            add(key, data, "valid")
        if key in light:
            continue
        # TLC fault sequences
        for fi, fs in enumerate(faultseqs):
            if (fi + si) % stride_f:
                continue
            add(key, apply_faults(key, data, fs, rs, others), {"faults": fs})
        # every truncation point (stride for big files)
        n = len(data)
        step = max(1, n // (80 if tier == "quick" else 1500))
        for cut in range(0, n, step):
            add(key, data[:cut], {"truncate_bytes": cut})
        # numeric fields of JSON headers (glTF accessors: byteStride, count, byteOffset, componentType ...)
        if file_type_of(key) in ("glb", "gltf"):
            for mnum in list(re.finditer(rb'"(byteStride|count|byteOffset|byteLength|componentType|bufferView|buffer|mode)"\s*:\s*(\d+)', data))[:40]:
                a, b = mnum.span(2)
                # (quick: two values; the region is also covered by numeric_token, glb_rewrite and json_structure)
                for val in ((b"0", b"999999") if tier == "quick" else (b"0", b"1", b"92", b"999999", b"1048576")):
                    if len(val) <= b - a:
                        add(key, data[:a] + val.rjust(b - a, b" ") + data[b:], {"json_field": mnum.group(1).decode(), "value": val.decode()})
        if file_type_of(key) == "glb":
            for field in ("byteStride", "count", "byteOffset", "byteLength", "componentType"):
                for val in (0, 1, 3, 92, 65536, 1048576, 1073741824, 4294967295):
                    mutated = glb_rewrite(data, field, val)
                    if mutated is not None:
                        add(key, mutated, {"glb_json_field": field, "value": val})
        # single byte / word corruptions
        for _ in range(40 if tier == "quick" else 600):
            pos = rs.randint(0, n)
            b = bytearray(data)
            w = rs.randint(1, 5)
            b[pos:pos + w] = bytes(rs.randint(0, 256, size=w).tolist())
            add(key, bytes(b), {"corrupt_at": int(pos), "width": int(w)})
        # arbitrary byte strings under this loader
        for _ in range(10 if tier == "quick" else 60):
            add(key, bytes(rs.randint(0, 256, size=rs.randint(0, 300)).tolist()), "random_bytes")
    n_base = len(jobs)
    # ---- numeric tokens of the parsed payload under the value classes of Loader.tla (containers re-framed)
    for key, data in sorted(sd.items()):
        for how, mutated in F.token_family(key, data, ints, reals, rs, quick):
            add(key, mutated, how, fam="numeric_token")
    # ---- fixed-width binary count / length fields: every bit flip, every class modulo the width
    for key, data in sorted(sd.items()):
        flds = F.binary_fields(key, data)
        for how, mutated in F.field_family(data, flds, ints, rs, quick and file_type_of(key) != "stl"):
            add(key, mutated, how, fam="binary_field")
    # ---- pairs of adjacent fields corrupted together, each pair by path and by file object
    for key, data in sorted(sd.items()):
        flds = F.binary_fields(key, data)
        zipped = file_type_of(key) in ("3mf", "zip", "zae")
        for how, mutated in F.pair_family(data, flds, pairs, rs, limit=(6 if quick else 24) if zipped else None):
            for bp in (True, False):
                add(key, mutated, how, fam="field_pair", bypath=bp)
    # ---- references between the parts of an XML payload pointed at every other part (cycles, self references)
    for key, data in sorted(sd.items()):
        for how, mutated in F.reference_family(key, data, rs, limit=60 if quick else 600):
            add(key, mutated, how, fam="reference")
    # ---- drawings that still parse but whose construction fails afterwards, through load_path and load, by path and by object
    for key, data in sorted(sd.items()):
        if file_type_of(key) in path_types:
            for how, mutated in F.post_parse_family(key, data, reals, rs, 24 if quick else 200):
                for e, bp in (("load_path", True), ("load_path", False), ("load", True)):
                    add(key, mutated, how, fam="post_parse", entry=e, bypath=bp)
    nvar = 0
    for vkey, vdata in F.ply_variants(rs, quick):
        nvar += 1
        for _ in range(2):
            add(vkey, vdata, "valid", fam="ply_flavour")
        flds = F.ply_list_fields(vdata)
        flds = [flds[0], flds[-1]] if quick else flds
        for how, mutated in F.field_family(vdata, flds, ints, rs, quick, bits=True):
            add(vkey, mutated, how, fam="ply_flavour")
        for how, mutated in F.token_family(vkey, vdata, ints, reals, rs, True):
            add(vkey, mutated, how, fam="ply_flavour")
    # ---- structure of the glTF JSON tree
    for key, data in sorted(sd.items()):
        for how, mutated in F.json_family(key, data, structs, ints, rs, quick):
            add(key, mutated, how, fam="json_structure")
    # ---- assets of several files, by path: every file below the asset directory must be closed again
    bundles = F.bundles(tm)
    if len(bundles) < 2:
        raise MachineryError("multi-file assets could not be built: %s" % sorted(bundles))
    for bname, (bft, main_bytes, aux) in sorted(bundles.items()):
        for how, m2, a2 in F.bundle_mutations(bft, main_bytes, aux, rs, 6 if quick else 60):
            for e in (("load", "load_scene") if quick else ("load", "load_mesh", "load_scene")):
                add(bft + "@" + bname, m2, how, fam="sidecar", files=a2, entry=e, bypath=True)
    # ---- other valid files than the one small seed geometry: scaled, translated, larger, degenerate
    for gft, gdata, how in F.geometry_variants(tm):
        for e in (("load_path", "load") if gft in path_types else ("load", "load_mesh", "load_scene")):
            add(gft + "@geometry", gdata, dict(how, valid_export=True), fam="valid_geometry", entry=e)
    # ---- the same inputs through the other ways of calling a loader
    pool = [i for i in range(len(jobs)) if "files" not in jobs[i]]
    per_mode = 60 if quick else 1200
    for mode in F.MODES:
        cand = pool
        if mode == "kw:force_mesh" or mode == "kw:force_scene":
            cand = [i for i in pool if jobs[i]["entry"] == "load"]
        pick = rs.choice(len(cand), size=min(per_mode, len(cand)), replace=False)
        for i in pick:
            j, dsc = jobs[cand[i]], desc[cand[i]]
            add(dsc["seed"], bytes.fromhex(j["hex"]), dsc["how"], fam="call_variant", mode=mode, entry=j["entry"], bypath=j["bypath"])
    # no family may come out (nearly) empty
    need = {"numeric_token": 2000, "binary_field": 300, "ply_flavour": 300, "json_structure": 300, "sidecar": 150, "call_variant": 500, "valid_geometry": 150,
            "field_pair": 300, "reference": 30, "post_parse": 150}
    for fam, lo in need.items():
        if fam_count.get(fam, 0) < lo:
            raise MachineryError("family %s nearly empty: %d records" % (fam, fam_count.get(fam, 0)))
    t0 = time.time()
    results = run_jobs(jobs, "run")
    if len(results) != len(jobs):
        raise MachineryError("lost results: %d of %d" % (len(results), len(jobs)))
    results.sort(key=lambda r: r["id"])
    traces = [{k: r[k] for k in ("id", "entry", "bypath", "opened", "closed", "outcome", "slow", "fd_leak",
                                 "nbytes", "mem_allow_kib", "mem_attempts", "aux_open", "ms")} for r in results]
    rejects, st, wall = tlc.validate_batches("c20", "LoaderTrace", traces, TRACE_CFG)
    states += st
    trans += st
    if any(cl.startswith("machinery_") for cl in rejects.values()):
        raise MachineryError("memory allowance could not be applied: %s" % [results[c] for c, cl in rejects.items() if cl.startswith("machinery_")][:2])
    # the valid files must load: a seed that does not is not a seed (guards the hand-made flavours and bundles)
    bad_valid = [desc[i]["seed"] for i, r_ in enumerate(results) if desc[i]["how"] in ("valid", {"bundle": "valid"})
                 and not desc[i].get("mode") and r_["outcome"] != "return" and desc[i]["seed"] != "gltf"]
    cov["valid_seeds_not_returning"] = sorted(set(bad_valid))
    if len(set(bad_valid)) > 3:
        raise MachineryError("valid seed files do not load: %s" % sorted(set(bad_valid)))
    # a timeout is retried once in isolation before it counts
    retry = [jobs[cid] for cid, cl in rejects.items() if cl == "time_bound_exceeded"]
    if retry:
        again = {r["id"]: r for r in run_jobs(retry, "retry")}
        for cid in list(rejects):
            if rejects[cid] == "time_bound_exceeded" and cid in again and not again[cid]["slow"]:
                del rejects[cid]
    # report the rejected records group by group (clause, family, format, kind of change) so that the first
    # records of the replay file show every distinct group rather than 25 instances of the first one
    def group_of(cid):
        how = desc[cid]["how"]
        kind = "/".join(sorted(k for k in how if k not in ("at", "was", "value", "to"))) if isinstance(how, dict) else str(how)
        return "%s | %s | %s | %s" % (rejects[cid], desc[cid]["family"], file_type_of(desc[cid]["seed"]), kind)

    groups = {}
    for cid in sorted(rejects):
        groups.setdefault(group_of(cid), []).append(cid)
    order = sorted(rejects, key=lambda cid: (groups[group_of(cid)].index(cid), group_of(cid)))
    cov["violation_groups"] = {g: len(v) for g, v in sorted(groups.items())}
    for cid in order:
        clause = rejects[cid]
        dev = None
        if clause == "memory_out_of_proportion_to_input":
            # attribution only: an id that known_findings.jsonl does not list stays a violation
            dev = F.memory_deviation(jobs[cid]["ftype"], bytes.fromhex(jobs[cid]["hex"]), jobs[cid]["bypath"])
        V.violation(clause, dict(desc[cid], outcome=results[cid]["outcome"], exc=results[cid]["exc"], ms=results[cid]["ms"],
                                 mem=results[cid].get("mem_msg", ""), aux_open=results[cid].get("aux_open", 0)), dev)
    hist = {}
    changed = set()
    for r_, dsc in zip(results, desc):
        k = r_["outcome"] + (":" + r_["exc"] if r_["exc"] else "")
        hist[k] = hist.get(k, 0) + 1
        if dsc["how"] != "valid":
            changed.add((dsc["seed"], json.dumps(dsc["how"], sort_keys=True)))
    fam_out = {}
    for r_, dsc in zip(results, desc):
        fo = fam_out.setdefault(dsc["family"], {})
        fo[r_["outcome"]] = fo.get(r_["outcome"], 0) + 1
    # a family whose every record dies in the container check never reached a parser
    for fam in ("numeric_token", "json_structure", "binary_field", "ply_flavour", "sidecar", "valid_geometry"):
        if fam_out.get(fam, {}).get("return", 0) < 20:
            raise MachineryError("family %s: almost no mutated input still loads (%s) - the mutations do not reach the parsers" % (fam, fam_out.get(fam)))
    cov.update({"evaluations": len(jobs), "distinct_nontrivial": len(changed), "families": fam_count, "family_outcomes": fam_out,
                "base_records": n_base, "value_classes": {"int": len(ints), "real": len(reals), "struct": len(structs)},
                "ply_flavours": nvar, "bundles": sorted(bundles), "call_modes": list(F.MODES),
                "mem_attempt_records": sum(1 for r_ in results if r_["mem_attempts"] > 0 or r_["outcome"] == "memory"),
                "rule": "every TLC fault sequence (<=2 faults over a 6-field layout), every truncation point (strided), seeded byte/word corruptions and random byte strings, per exportable format; distinct = distinct (seed format, mutation) pairs that differ from the valid file",
                "states": states, "transitions": trans, "traces_validated_against_impl": len(traces),
                "formats": sorted(sd), "fault_sequences_from_tlc": len(faultseqs), "outcomes": dict(sorted(hist.items(), key=lambda kv: -kv[1])[:25]),
                "max_ms": max(r_["ms"] for r_ in results), "run_wall_s": round(time.time() - t0, 1),
                "samples": [desc[len(desc) // 3], desc[len(desc) // 2], desc[-1]]})
    return V.finish("fault_enumeration", cov, assumptions=[
        "time bound 10 s + 1 ms per byte of CPU time (wall-clock backstop 30x); address space limited to 4 GB per loading process",
        "memory in proportion to the input is read as: no request beyond 512 MiB + 1 KiB per input byte (LoaderTrace.tla); a MemoryError raised anywhere during a load under that allowance counts, also when the loader swallows it; decompression bombs (zip / bz2 / png payloads that legitimately inflate) are not enumerated",
        "formats limited to those with an exporter in this environment (seed files are fresh exports of small geometry)",
    ])


if __name__ == "__main__":
    try:
        sys.exit(main(sys.argv[1:]))
    except MachineryError as e:
        print("MACHINERY-ERROR:", e)
        sys.exit(2)
