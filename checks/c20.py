"""C20 - loading arbitrary or corrupted bytes terminates with a clean outcome.

spec/Loader.tla: life-cycle of load / load_mesh / load_scene / load_path (ParseArgs, Dispatch,
loader loop with a progress measure, the try/finally that closes what was opened, post
processing) model-checked by TLC for HandleClosedAtEnd, OutcomeOrdinary and termination
(liveness under weak fairness, no state constraint); and every fault sequence of at most two
faults (truncate at / inside a field, corrupt a field with a value class, swap, duplicate,
drop, splice) over an abstract 6-field file layout, enumerated by TLC.
The harness maps each abstract fault sequence through a per-format layout map (header, count
fields, body chunks, tail of a freshly exported seed file) onto concrete bytes for every
exportable format, adds every truncation point and seeded random splices, and loads each
mutated file in a pooled subprocess (RLIMIT_AS, alarm) through load / load_mesh / load_scene
/ load_path, by file object and by path.  Each load is recorded as a trace (who opened what,
closed or not, outcome class, time bucket, fd table) and validated by TLC (LoaderTrace.tla).
"""
import builtins
import gc
import io
import json
import os
import re
import resource
import signal
import sys
import time
import zipfile

import numpy as np

from harness import tlc
from harness.common import (NCPU, WORK, MachineryError, Verdict, import_trimesh, seed,
                            tier_from_args)

PROP = "C20"
NFIELDS = 6
TRACE_CFG = "INIT TInit\nNEXT TNext\nINVARIANT TReport\nCHECK_DEADLOCK FALSE\n"

LIFE_CFG = """CONSTANTS
  Entries <- Entries4
  ClosesOnAllPaths = {closes}
  MaxInput = 4
  NFields = 4
  MaxFaults = 1
  Classes <- Classes4
SPECIFICATION Spec
INVARIANT HandleClosedAtEnd
INVARIANT OutcomeOrdinary
PROPERTY Terminates
"""
FAULT_CFG = """CONSTANTS
  Entries <- Entries4
  ClosesOnAllPaths = TRUE
  MaxInput = 1
  NFields = {nf}
  MaxFaults = {mf}
  Classes <- Classes4
INIT FInit
NEXT FNext
INVARIANT EmitFaults
CHECK_DEADLOCK FALSE
"""


# ------------------------------------------------------------------ seeds
def seeds(tm):
    """file_type -> bytes of a small valid file"""
    out = {}
    box = tm.creation.box(extents=[1, 2, 3])
    box.visual.face_colors = (np.arange(48).reshape(12, 4) * 5 % 255).astype(np.uint8)
    for ft in ("stl", "stl_ascii", "off", "obj", "glb", "3mf", "dae"):
        try:
            out[ft] = box.export(file_type=ft)
        except BaseException:
            pass
    try:
        out["ply"] = box.export(file_type="ply")
        out["ply_ascii"] = box.export(file_type="ply", encoding="ascii")
    except BaseException:
        pass
    try:
        g = box.export(file_type="gltf")
        # gltf export is a dict of files; pack the json with embedded buffers instead
        s = tm.Scene(box)
        out["gltf"] = s.export(file_type="gltf", embed_buffers=True)["model.gltf"] if False else g.get("model.gltf", None)
    except BaseException:
        pass
    if not isinstance(out.get("gltf"), (bytes, bytearray)):
        out.pop("gltf", None)
    pc = tm.PointCloud(np.arange(30, dtype=float).reshape(10, 3), colors=(np.arange(40).reshape(10, 4) * 6 % 255).astype(np.uint8))
    try:
        out["xyz"] = pc.export(file_type="xyz")
    except BaseException:
        pass
    cells = (np.arange(27).reshape(3, 3, 3) % 3) != 1      # binvox needs a cubic grid
    vg = tm.voxel.VoxelGrid(cells)
    try:
        out["binvox"] = vg.export(file_type="binvox")
    except BaseException:
        pass
    from trimesh.path.entities import Arc, Line
    p = tm.path.Path2D(entities=[Line([0, 1, 2]), Line([2, 3, 0]), Arc([4, 5, 6], closed=True)],
                       vertices=np.array([[0, 0], [4, 0], [4, 3], [0, 3], [1, 1], [2, 2], [3, 1]], dtype=float), process=False)
    for ft in ("dxf", "svg"):
        try:
            out[ft] = p.export(file_type=ft)
        except BaseException:
            pass
    if "obj" in out:
        bio = io.BytesIO()
        with zipfile.ZipFile(bio, "w") as z:
            z.writestr("box.obj", out["obj"] if isinstance(out["obj"], (bytes, bytearray)) else out["obj"].encode())
        out["zip"] = bio.getvalue()
    # small files from the repository's own corpus: features the exporters never write
    # (interleaved / strided glTF accessors, primitives, nested nodes, ascii variants)
    from harness.common import repo_dir
    for key, fn in (("glb@interleaved", "BoxInterleaved.glb"), ("glb@nested", "nested.glb"), ("glb@cubevc", "cubevc.glb"),
                    ("gltf@mode5", "mode5.gltf"), ("ply@corpus", "ascii.ply"), ("obj@corpus", "negative_indices.obj"), ("off@corpus", "comments.off")):
        pth = os.path.join(repo_dir(), "models", fn)
        if os.path.exists(pth) and os.path.getsize(pth) < 60000:
            with open(pth, "rb") as fh:
                out[key] = fh.read()
    res = {}
    for k, v in out.items():
        if isinstance(v, str):
            v = v.encode("utf-8")
        if isinstance(v, (bytes, bytearray)) and len(v) > 0:
            res[k] = bytes(v)
    return res


def file_type_of(key):
    key = key.split("@")[0]
    return {"ply_ascii": "ply"}.get(key, key)


TEXT = {"stl_ascii", "off", "obj", "ply_ascii", "xyz", "dxf", "svg", "dae", "gltf"}


def layout(key, data):
    """Split a seed file into NFIELDS fields [(start, end)]: header, count span, body chunks, tail."""
    key = key.split("@")[0]
    n = len(data)
    count = None
    if key == "stl":
        head, count = 80, (80, 84)
    elif key == "glb":
        head, count = 8, (8, 20)          # total length, first chunk length + type
    elif key in ("ply", "ply_ascii"):
        m = re.search(rb"element vertex (\d+)", data)
        head = m.start(1) if m else n // NFIELDS
        count = m.span(1) if m else None
    elif key == "off":
        m = re.search(rb"OFF\s+(\d+ \d+ \d+)", data)
        head = m.start(1) if m else 4
        count = m.span(1) if m else None
    elif key == "binvox":
        m = re.search(rb"dim (\d+ \d+ \d+)", data)
        head = m.start(1) if m else 10
        count = m.span(1) if m else None
    else:
        head = max(1, n // NFIELDS)
    if count is None:
        count = (head, min(n, head + max(1, n // NFIELDS)))
    rest0 = count[1]
    body = max(0, n - rest0)
    k = NFIELDS - 2
    cuts = [rest0 + (body * j) // k for j in range(k + 1)]
    fields = [(0, count[0]), count] + [(cuts[j], cuts[j + 1]) for j in range(k)]
    return fields


CLASS_BYTES = {"zero": b"\x00\x00\x00\x00", "max": b"\xff\xff\xff\xff", "negative": b"\xff\xff\xff\x80"}
CLASS_TEXT = {"zero": b"0", "max": b"99999999999", "negative": b"-1"}


def glb_rewrite(data, field, value):
    """Re-frame a GLB after changing every occurrence of one numeric JSON field (lengths stay consistent,
    so the corruption is not caught by the container checks)."""
    import struct
    if data[:4] != b"glTF" or len(data) < 20:
        return None
    jlen = struct.unpack("<I", data[12:16])[0]
    js = data[20:20 + jlen]
    rest = data[20 + jlen:]
    new, n = re.subn(rb'("' + field.encode() + rb'"\s*:\s*)\d+', lambda m: m.group(1) + str(value).encode(), js)
    if n == 0:
        return None
    new = new.rstrip(b" ")
    new += b" " * ((4 - len(new) % 4) % 4)
    total = 12 + 8 + len(new) + len(rest)
    return data[:8] + struct.pack("<I", total) + struct.pack("<I", len(new)) + data[16:20] + new + rest


def apply_faults(key, data, faults, rs, others):
    fields = layout(key, data)
    parts = [data[a:b] for a, b in fields]
    text = key.split("@")[0] in TEXT
    for f in faults:
        i = f["f"] - 1
        op = f["op"]
        if i >= len(parts):
            continue
        if op == "truncate_at":
            parts = parts[:i]
        elif op == "truncate_in":
            parts = parts[:i] + [parts[i][: len(parts[i]) // 2]]
        elif op == "corrupt":
            c = f["c"]
            if c == "random":
                val = bytes(rs.randint(0, 256, size=max(1, min(8, len(parts[i])))).tolist())
            else:
                val = (CLASS_TEXT if text else CLASS_BYTES)[c]
            if i == 1:
                parts[i] = val if text else (val * ((len(parts[i]) + 3) // 4))[: len(parts[i])]
            else:
                parts[i] = val + parts[i][len(val):]
        elif op == "swap" and i + 1 < len(parts):
            parts[i], parts[i + 1] = parts[i + 1], parts[i]
        elif op == "duplicate":
            parts = parts[: i + 1] + [parts[i]] + parts[i + 1:]
        elif op == "drop":
            parts = parts[:i] + parts[i + 1:]
        elif op == "splice":
            o = others[rs.randint(len(others))]
            a = rs.randint(0, max(1, len(o) - 1))
            parts = parts[:i] + [o[a: a + 1 + rs.randint(0, 64)]] + parts[i:]
    return b"".join(parts)


# ------------------------------------------------------------------ running loads
class Alarm(BaseException):
    pass


def _on_alarm(signum, frame):
    raise Alarm()


def load_once(tm, entry, by_path, ftype, data, tmpdir, idx):
    """Run one load; returns the trace record fields."""
    bound = 10.0 + 1e-3 * len(data)
    opened = []
    real_open = builtins.open
    path = None
    if by_path:
        ext = {"stl_ascii": "stl"}.get(ftype, ftype)
        path = os.path.join(tmpdir, "f%d_%d.%s" % (os.getpid(), idx, ext))
        with real_open(path, "wb") as fh:
            fh.write(data)

        def spy_open(file, *a, **k):
            fo = real_open(file, *a, **k)
            try:
                if isinstance(file, (str, bytes, os.PathLike)) and os.path.abspath(os.fspath(file)) == path:
                    opened.append(fo)
            except BaseException:
                pass
            return fo
        builtins.open = spy_open
        io.open = spy_open
    gc.collect()
    fds0 = len(os.listdir("/proc/self/fd"))
    fn = {"load": tm.load, "load_mesh": tm.load_mesh, "load_scene": tm.load_scene, "load_path": tm.load_path}[entry]
    outcome = "none"
    exc_name = ""
    t0 = time.time()
    c0 = time.process_time()
    result = None
    # the bound is on CPU time (a hang is a busy loop; a starved machine must not look like one), with a
    # generous wall-clock backstop for a loader that would block without computing
    signal.signal(signal.SIGPROF, _on_alarm)
    signal.signal(signal.SIGALRM, _on_alarm)
    signal.setitimer(signal.ITIMER_PROF, bound)
    signal.setitimer(signal.ITIMER_REAL, bound * 30)
    try:
        try:
            if by_path:
                result = fn(path) if ftype not in ("stl_ascii",) else fn(path, file_type=ftype)
            else:
                result = fn(io.BytesIO(data), file_type=ftype)
            outcome = "return"
        except Alarm:
            outcome = "timeout"
        except MemoryError as e:
            outcome, exc_name = "memory", "MemoryError"
        except Exception as e:  # ordinary
            outcome, exc_name = "exception", type(e).__name__
            if "Unable to allocate" in str(e):
                outcome = "memory"
        except BaseException as e:  # SystemExit, KeyboardInterrupt, GeneratorExit ...
            outcome, exc_name = "fatal", type(e).__name__
    finally:
        signal.setitimer(signal.ITIMER_PROF, 0)
        signal.setitimer(signal.ITIMER_REAL, 0)
        builtins.open = real_open
        io.open = real_open
    elapsed = time.process_time() - c0
    closed = all(fo.closed for fo in opened)
    fds1 = len(os.listdir("/proc/self/fd"))
    fd_leak = fds1 > fds0 and not closed      # result still referenced here: an fd held by it is a leak of the loader
    # now drop everything
    for fo in opened:
        try:
            fo.close()
        except BaseException:
            pass
    del result
    if path:
        try:
            os.remove(path)
        except OSError:
            pass
    return {"entry": entry, "bypath": bool(by_path), "opened": len(opened) > 0, "closed": bool(closed),
            "outcome": outcome, "slow": outcome == "timeout" or elapsed > bound, "fd_leak": bool(fd_leak),
            "exc": exc_name, "ms": int(elapsed * 1000)}


def worker(chunk_path):
    """Subprocess entry: read a chunk description, run the loads, write results next to it."""
    resource.setrlimit(resource.RLIMIT_AS, (4 << 30, 4 << 30))
    tm = import_trimesh()
    import logging
    logging.disable(logging.CRITICAL)
    with open(chunk_path, "rb") as f:
        chunk = json.loads(f.read())
    tmpdir = os.path.dirname(chunk_path)
    out = []
    done_path = chunk_path + ".out"
    for k, job in enumerate(chunk):
        data = bytes.fromhex(job["hex"])
        # progress marker so that a hard crash can be attributed to the job that was running
        with open(chunk_path + ".cur", "w") as f:
            f.write(str(k))
        try:
            r = load_once(tm, job["entry"], job["bypath"], job["ftype"], data, tmpdir, k)
        except Exception as e:   # an error of the harness itself, not of the loader
            with open(chunk_path + ".err", "w") as f:
                f.write("%s: %s" % (type(e).__name__, e))
            return 3
        r["id"] = job["id"]
        out.append(r)
    with open(done_path, "w") as f:
        json.dump(out, f)
    return 0


def run_jobs(jobs, name):
    """Run jobs in pooled subprocesses; a crashed subprocess is attributed to the job that was running."""
    import subprocess
    d = os.path.join(WORK, "c20-%d" % os.getpid(), name)
    os.makedirs(d, exist_ok=True)
    nchunk = max(NCPU * 3, len(jobs) // 400 + 1)
    chunks = [jobs[i::nchunk] for i in range(nchunk)]
    paths = []
    for i, c in enumerate(chunks):
        if not c:
            continue
        p = os.path.join(d, "chunk%d.json" % i)
        with open(p, "w") as f:
            json.dump(c, f)
        paths.append((p, c))
    env = dict(os.environ)
    results = []
    pending = list(paths)
    running = []
    while pending or running:
        while pending and len(running) < NCPU:
            p, c = pending.pop()
            pr = subprocess.Popen([sys.executable, "-W", "ignore", "-m", "checks.c20", "--worker", p],
                                  stdout=subprocess.DEVNULL, stderr=subprocess.DEVNULL, env=env, cwd=os.path.dirname(os.path.dirname(os.path.abspath(__file__))))
            running.append((pr, p, c, time.time()))
        time.sleep(0.05)
        still = []
        for pr, p, c, t0 in running:
            rc = pr.poll()
            if rc is None:
                if time.time() - t0 > 1200:
                    pr.kill()
                still.append((pr, p, c, t0))
                continue
            if os.path.exists(p + ".out"):
                with open(p + ".out") as f:
                    results += json.load(f)
            elif os.path.exists(p + ".err"):
                raise MachineryError("load worker failed: " + open(p + ".err").read())
            else:
                if p.count(".r") > 6:
                    raise MachineryError("load worker keeps dying on chunk " + p)
                # hard crash: the job marked in .cur brought the interpreter down; re-run the others
                cur = 0
                try:
                    cur = int(open(p + ".cur").read())
                except BaseException:
                    pass
                bad = c[cur]
                results.append({"id": bad["id"], "entry": bad["entry"], "bypath": bad["bypath"], "opened": bad["bypath"], "closed": True,
                                "outcome": "fatal", "slow": False, "fd_leak": False, "exc": "interpreter_exit_%s" % rc, "ms": 0})
                rest = c[:cur] + c[cur + 1:]
                if rest:
                    np_ = p + ".r"
                    with open(np_, "w") as f:
                        json.dump(rest, f)
                    pending.append((np_, rest))
        running = still
    import shutil
    shutil.rmtree(d, ignore_errors=True)
    return results


def main(argv):
    if "--worker" in argv:
        return worker(argv[argv.index("--worker") + 1])
    tier = tier_from_args(argv)
    V = Verdict(PROP, tier)
    tm = import_trimesh()
    cov = {"tlc_runs": []}
    states = trans = 0

    def note(name, r):
        nonlocal states, trans
        states += r.distinct
        trans += r.generated
        cov["tlc_runs"].append({"run": name, "distinct": r.distinct, "generated": r.generated, "wall_s": round(r.wall, 1)})

    d = tlc.prepare("c20/mc")
    r = tlc.must(tlc.run(d, "Loader", LIFE_CFG.format(closes="TRUE"), timeout=1500), "lifecycle")
    note("life-cycle: HandleClosedAtEnd, OutcomeOrdinary, Terminates (fair)", r)
    rr = tlc.run(d, "Loader", LIFE_CFG.format(closes="FALSE"), timeout=1500)
    if rr.violated != "HandleClosedAtEnd":
        raise MachineryError("spec self-test: an entry point without finally was not reported")
    cov["spec_selftest"] = "entry point without finally -> HandleClosedAtEnd violated, as expected"
    mf = 2
    r = tlc.must(tlc.run(d, "Loader", FAULT_CFG.format(nf=NFIELDS, mf=mf), workers=1, timeout=900), "faults")
    note(f"fault sequences <= {mf} over {NFIELDS} fields", r)
    faultseqs = r.printed
    if len(faultseqs) < 1000:
        raise MachineryError("too few fault sequences")

    sd = seeds(tm)
    if len(sd) < 10:
        raise MachineryError("too few seed formats: %s" % sorted(sd))
    rs = np.random.RandomState(seed() + 20)
    others = list(sd.values())
    jobs = []
    desc = []
    path_types = {"dxf", "svg"}

    def add(key, data, how):
        ft = file_type_of(key)
        entries = ["load_path", "load"] if ft in path_types else ["load", "load_mesh", "load_scene"]
        e = entries[len(jobs) % len(entries)]
        bp = (len(jobs) // 3) % 2 == 0
        if ft in ("zip",) and e == "load_mesh":
            e = "load"
        jobs.append({"id": len(jobs), "entry": e, "bypath": bp, "ftype": ft, "hex": data.hex()})
        desc.append({"seed": key, "how": how, "entry": e, "bypath": bp, "bytes": len(data)})

    stride_f = 9 if tier == "quick" else 1
    for si, (key, data) in enumerate(sorted(sd.items())):
        # the valid file itself through every entry point, by path and by object
        for _ in range(6):
            add(key, data, "valid")
        # TLC fault sequences
        for fi, fs in enumerate(faultseqs):
            if (fi + si) % stride_f:
                continue
            add(key, apply_faults(key, data, fs, rs, others), {"faults": fs})
        # every truncation point (stride for big files)
        n = len(data)
        step = max(1, n // (80 if tier == "quick" else 1500))
        for cut in range(0, n, step):
            add(key, data[:cut], {"truncate_bytes": cut})
        # numeric fields of JSON headers (glTF accessors: byteStride, count, byteOffset, componentType ...)
        if file_type_of(key) in ("glb", "gltf"):
            for mnum in list(re.finditer(rb'"(byteStride|count|byteOffset|byteLength|componentType|bufferView|buffer|mode)"\s*:\s*(\d+)', data))[:40]:
                a, b = mnum.span(2)
                for val in (b"0", b"1", b"92", b"999999", b"1048576"):
                    if len(val) <= b - a:
                        add(key, data[:a] + val.rjust(b - a, b" ") + data[b:], {"json_field": mnum.group(1).decode(), "value": val.decode()})
        if file_type_of(key) == "glb":
            for field in ("byteStride", "count", "byteOffset", "byteLength", "componentType"):
                for val in (0, 1, 3, 92, 65536, 1048576, 1073741824, 4294967295):
                    mutated = glb_rewrite(data, field, val)
                    if mutated is not None:
                        add(key, mutated, {"glb_json_field": field, "value": val})
        # single byte / word corruptions
        for _ in range(40 if tier == "quick" else 600):
            pos = rs.randint(0, n)
            b = bytearray(data)
            w = rs.randint(1, 5)
            b[pos:pos + w] = bytes(rs.randint(0, 256, size=w).tolist())
            add(key, bytes(b), {"corrupt_at": int(pos), "width": int(w)})
        # arbitrary byte strings under this loader
        for _ in range(10 if tier == "quick" else 60):
            add(key, bytes(rs.randint(0, 256, size=rs.randint(0, 300)).tolist()), "random_bytes")
    t0 = time.time()
    results = run_jobs(jobs, "run")
    if len(results) != len(jobs):
        raise MachineryError("lost results: %d of %d" % (len(results), len(jobs)))
    results.sort(key=lambda r: r["id"])
    traces = [{k: r[k] for k in ("id", "entry", "bypath", "opened", "closed", "outcome", "slow", "fd_leak")} for r in results]
    rejects, st, wall = tlc.validate_batches("c20", "LoaderTrace", traces, TRACE_CFG)
    states += st
    trans += st
    # a timeout is retried once in isolation before it counts
    retry = [jobs[cid] for cid, cl in rejects.items() if cl == "time_bound_exceeded"]
    if retry:
        again = {r["id"]: r for r in run_jobs(retry, "retry")}
        for cid in list(rejects):
            if rejects[cid] == "time_bound_exceeded" and cid in again and not again[cid]["slow"]:
                del rejects[cid]
    for cid, clause in sorted(rejects.items()):
        V.violation(clause, dict(desc[cid], outcome=results[cid]["outcome"], exc=results[cid]["exc"], ms=results[cid]["ms"]))
    hist = {}
    changed = set()
    for r_, dsc in zip(results, desc):
        k = r_["outcome"] + (":" + r_["exc"] if r_["exc"] else "")
        hist[k] = hist.get(k, 0) + 1
        if dsc["how"] != "valid":
            changed.add((dsc["seed"], json.dumps(dsc["how"], sort_keys=True)))
    cov.update({"evaluations": len(jobs), "distinct_nontrivial": len(changed),
                "rule": "every TLC fault sequence (<=2 faults over a 6-field layout), every truncation point (strided), seeded byte/word corruptions and random byte strings, per exportable format; distinct = distinct (seed format, mutation) pairs that differ from the valid file",
                "states": states, "transitions": trans, "traces_validated_against_impl": len(traces),
                "formats": sorted(sd), "fault_sequences_from_tlc": len(faultseqs), "outcomes": dict(sorted(hist.items(), key=lambda kv: -kv[1])[:25]),
                "max_ms": max(r_["ms"] for r_ in results), "run_wall_s": round(time.time() - t0, 1),
                "samples": [desc[len(desc) // 3], desc[len(desc) // 2], desc[-1]]})
    return V.finish("fault_enumeration", cov, assumptions=[
        "time bound 10 s + 1 ms per byte of CPU time (wall-clock backstop 30x); address space limited to 4 GB per loading process",
        "formats limited to those with an exporter in this environment (seed files are fresh exports of small geometry)",
    ])


if __name__ == "__main__":
    try:
        sys.exit(main(sys.argv[1:]))
    except MachineryError as e:
        print("MACHINERY-ERROR:", e)
        sys.exit(2)
