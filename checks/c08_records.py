"""C08 helper: recorded single round trips judged by TLC (spec/ExchangeRecords.tla).

Every record is one export-then-load of a geometry of a known class through one (format, option
variant) named in spec/ExchangeCaps.tla.  The harness only OBSERVES: it records booleans / counts
saying which parts of the loaded object equal the object that was exported (after the format's
quantisation Q_prec where the coordinates are not representable); which of them the property
demands for that variant and class is decided by TLC from the capability tables.
"""
import io
import os
import shutil
import tempfile
import zipfile

import numpy as np

from harness.common import WORK, MachineryError, import_trimesh

# ----------------------------------------------------------------------------- variants
# name -> (file_type, export kwargs, load kwargs); the name set must equal the TLA+ table's domain
MESH_VARIANTS = {
    "stl": ("stl", {}, {}),
    "stl_ascii": ("stl_ascii", {}, {}),
    "dae": ("dae", {}, {}),
    "off": ("off", {}, {}),
    "off_d12": ("off", {"digits": 12}, {}),
    "3mf": ("3mf", {}, {}),
    "3mf_b2": ("3mf", {"batch_size": 2}, {}),
    "3mf_stored": ("3mf", {"compression": zipfile.ZIP_STORED}, {}),
    "obj": ("obj", {}, {}),
    "obj_vn": ("obj", {"include_normals": True}, {}),
    "obj_nocolor": ("obj", {"include_color": False}, {}),
    "obj_d12": ("obj", {"digits": 12}, {}),
    "obj_nohdr": ("obj", {"header": None}, {}),
    "obj_lmo": ("obj", {}, {"maintain_order": True}),
    "glb": ("glb", {}, {}),
    "glb_vn": ("glb", {"include_normals": True}, {}),
    "glb_vn_raw": ("glb", {"include_normals": True, "unitize_normals": False}, {}),
    "glb_lmp": ("glb", {}, {"merge_primitives": True}),
    "gltf": ("gltf", {}, {}),
    "gltf_merge": ("gltf", {"merge_buffers": True}, {}),
    "gltf_embed": ("gltf", {"embed_buffers": True}, {}),
    "gltf_merge_embed": ("gltf", {"merge_buffers": True, "embed_buffers": True}, {}),
    "ply": ("ply", {}, {}),
    "ply_vn": ("ply", {"vertex_normal": True}, {}),
    "ply_noattr": ("ply", {"include_attributes": False}, {}),
    "ply_ascii": ("ply", {"encoding": "ascii"}, {}),
    "ply_ascii_vn": ("ply", {"encoding": "ascii", "vertex_normal": True}, {}),
    "dict": ("dict", {}, {}),
    "dict64": ("dict64", {}, {}),
}
CLOUD_VARIANTS = {
    "xyz": ("xyz", {}, {}),
    "xyz_nocolor": ("xyz", {"write_colors": False}, {}),
    "xyz_comma": ("xyz", {"delimiter": ","}, {"delimiter": ","}),
    "xyz_comma_auto": ("xyz", {"delimiter": ","}, {}),
    "xyz_tab": ("xyz", {"delimiter": "\t"}, {}),
    "ply": ("ply", {}, {}),
    "ply_ascii": ("ply", {"encoding": "ascii"}, {}),
    "glb": ("glb", {}, {}),
    "gltf_merge_embed": ("gltf", {"merge_buffers": True, "embed_buffers": True}, {}),
    "obj": ("obj", {}, {}),
}
PATH_VARIANTS = {
    "dxf": ("dxf", {}, {}),
    "svg": ("svg", {}, {}),
    "svg_d3": ("svg", {"digits": 3}, {}),
    "dict": ("dict", {}, {}),
    "ply": ("ply", {}, {}),
    "ply_ascii": ("ply", {"encoding": "ascii"}, {}),
    "glb": ("glb", {}, {}),
}
VOXEL_VARIANTS = {
    "binvox": ("binvox", {}, {}),
    "binvox_xyz": ("binvox", {"axis_order": "xyz"}, {"axis_order": "xyz"}),
}
SCENE_VARIANTS = {
    "glb": ("glb", {}, {}),
    "gltf": ("gltf", {}, {}),
    "gltf_merge_embed": ("gltf", {"merge_buffers": True, "embed_buffers": True}, {}),
    "3mf": ("3mf", {}, {}),
    "obj": ("obj", {}, {}),
    "ply": ("ply", {}, {}),
    "stl": ("stl", {}, {}),
    "dict": ("dict", {}, {}),
    "dict64": ("dict64", {}, {}),
}
VARIANTS = {"mesh": MESH_VARIANTS, "cloud": CLOUD_VARIANTS, "path": PATH_VARIANTS, "voxel": VOXEL_VARIANTS, "scene": SCENE_VARIANTS}


def check_tables(tables):
    """The TLA+ tables and the harness adapters must name the same variants."""
    for kind, var in VARIANTS.items():
        a, b = set(tables[kind]), set(var)
        if a != b:
            raise MachineryError("variant names of kind %s differ between ExchangeCaps.tla and the harness: %s" % (kind, sorted(a ^ b)))
    if not set(tables["base"]) <= set(MESH_VARIANTS):
        raise MachineryError("BaseMeshFormats names unknown variants")


# ----------------------------------------------------------------------------- quantisation Q_prec
def _ulp(x):
    return np.spacing(np.abs(np.asarray(x, dtype=np.float64)))


def qeq(got, x, prec):
    """got equals x to the precision class the format stores (symbolic term Q_prec(x))."""
    got = np.asarray(got, dtype=np.float64)
    x = np.asarray(x, dtype=np.float64)
    if got.shape != x.shape:
        return False
    if got.size == 0:
        return True
    if prec in ("f64", "repr"):
        return bool(np.array_equal(got, x))
    if prec == "f32":
        with np.errstate(over="ignore"):
            return bool(np.array_equal(got, x.astype(np.float32).astype(np.float64)))
    if prec == "f32t8":
        with np.errstate(over="ignore"):
            x32 = x.astype(np.float32).astype(np.float64)
        return bool(np.all(np.abs(got - x32) <= 0.5000001e-8 + 4 * _ulp(x32)))
    if prec == "approx6":
        return bool(np.all(np.abs(got - x) <= 1e-6 * np.abs(x) + 1e-12))
    if prec.startswith("t"):
        n = int(prec[1:])
        return bool(np.all(np.abs(got - x) <= 0.5000001 * 10.0 ** (-n) + 4 * _ulp(x)))
    raise MachineryError("unknown precision class " + prec)


# ----------------------------------------------------------------------------- export / load adapters
def _resolver(tm, files):
    class DictResolver(tm.resolvers.Resolver):
        def __init__(self, d):
            self.d = d

        def get(self, name):
            return self.d[name]

        def write(self, name, data):
            self.d[name] = data

        def namespaced(self, namespace):
            return self

        def keys(self):
            return self.d.keys()
    return DictResolver(files)


def load_back(tm, data, ft, lkw, how):
    """how: 'mesh' | 'scene' | 'any' | 'path'"""
    if ft in ("dict", "dict64"):
        if how == "path":
            return tm.load_path(data)
        return {"mesh": tm.load_mesh, "scene": tm.load_scene, "any": tm.load}[how](data, process=False, **lkw)
    if isinstance(data, dict):
        if "model.gltf" not in data:
            raise MachineryError("exporter returned a dict of files without model.gltf for " + ft)
        fn = {"mesh": tm.load_mesh, "scene": tm.load_scene, "any": tm.load_scene, "path": tm.load_scene}[how]
        return fn(io.BytesIO(data["model.gltf"]), file_type="gltf", resolver=_resolver(tm, dict(data)), process=False, **lkw)
    raw = data.encode("utf-8") if isinstance(data, str) else data
    if how == "path":
        return tm.load_path(io.BytesIO(raw), file_type=ft, **lkw)
    if ft == "binvox":
        return tm.load(io.BytesIO(raw), file_type=ft, **lkw)
    fn = {"mesh": tm.load_mesh, "scene": tm.load_scene, "any": tm.load}[how]
    return fn(io.BytesIO(raw), file_type=ft, process=False, **lkw)


def _exc(e):
    return (type(e).__name__ + ": " + str(e))[:120] or "exception"


# ----------------------------------------------------------------------------- mesh geometry classes
def _colour(n, mult, rs=None):
    if rs is not None:
        return rs.randint(0, 256, size=(n, 4)).astype(np.uint8)
    return (np.arange(n * 4).reshape(-1, 4) * mult % 250 + 3).astype(np.uint8)


def mesh_geometry(tm, name):
    """-> (vertices, faces, colour kind or None, colours or None, lossless)"""
    b = tm.creation.box(extents=[1, 2, 3])
    bv = np.array(b.vertices) + [0.5, 1.0, 1.5]
    bf = np.array(b.faces)
    tv = np.array([[0, 0, 0], [2, 0, 0], [0, 4, 0], [0, 0, 1], [8, 8, 8.5], [10, 8, 8.5], [8, 12, 8.5], [8, 8, 9.5]], dtype=float)
    tf = np.array([[0, 2, 1], [0, 1, 3], [1, 2, 3], [2, 0, 3], [4, 6, 5], [4, 5, 7], [5, 6, 7], [6, 4, 7]])
    gv = np.array([[-1024.5, 0.125, 3], [2048, -0.0625, 7], [0.5, 65536, -8], [1, 1, 1], [-3, -5, -7], [4096.25, 2, 2]])
    gf = np.array([[5, 0, 3], [3, 0, 1], [4, 2, 5], [1, 2, 3]])
    # vertex 5 repeats the position of vertex 1 (with another colour), vertices 4 and 6 are referenced by no
    # face; faces: repeated index, zero area through the duplicate vertex, duplicate face, flipped duplicate, point face
    mv = np.array([[0, 0, 0], [2, 0, 0], [0, 4, 0], [0, 0, 1], [8, 8, 8.5], [2, 0, 0], [-3, 5, 7]], dtype=float)
    mf = np.array([[0, 2, 1], [0, 1, 3], [1, 1, 3], [1, 5, 3], [0, 2, 1], [1, 2, 0], [2, 0, 3], [3, 3, 3]])
    # the same without unreferenced vertices
    dv = mv[[0, 1, 2, 3, 5]]
    df = np.array([[0, 2, 1], [0, 1, 3], [1, 1, 3], [1, 4, 3], [0, 2, 1], [1, 2, 0], [2, 0, 3], [4, 2, 3]])
    table = {
        "box_fc": (bv, bf, "fc"), "box_vc": (bv, bf, "vc"), "box_plain": (bv, bf, None),
        "two_tets_vc": (tv, tf, "vc"),
        "one_face_fc": (np.array([[0, 0, 0], [1, 0, 0], [0, 1, 0.25]]), np.array([[0, 1, 2]]), "fc"),
        "odd_coords_fc": (gv, gf, "fc"),
        "dup_vc": (dv, df, "vc"), "dup_fc": (dv, df, "fc"),
        "messy_vc": (mv, mf, "vc"), "messy_fc": (mv, mf, "fc"), "messy_plain": (mv, mf, None),
        "empty": (np.zeros((0, 3)), np.zeros((0, 3), dtype=np.int64), None),
        "verts_nofaces": (np.array([[0, 0, 0], [1, 0, 0], [0, 1, 0]], dtype=float), np.zeros((0, 3), dtype=np.int64), None),
    }
    if name in table:
        v, f, kind = table[name]
        cols = None if kind is None else _colour(len(f) if kind == "fc" else len(v), 5 if kind == "fc" else 7)
        return np.array(v, dtype=np.float64), np.array(f), kind, cols, True
    if name.startswith("rnd:"):
        _, sd, k = name.split(":")
        rs = np.random.RandomState((int(sd) * 7919 + int(k) * 104729 + 17) % (2 ** 31))
        nv = int(rs.randint(3, 13))
        nf = int(rs.randint(1, 15))
        v = rs.randint(-512, 513, size=(nv, 3)) / 8.0
        if rs.rand() < 0.3:
            v[rs.randint(nv)] = v[rs.randint(nv)]            # coincident vertices
        f = rs.randint(0, nv, size=(nf, 3))
        if rs.rand() < 0.5:                                   # mostly proper faces
            f = np.array([rs.choice(nv, 3, replace=False) for _ in range(nf)])
        if int(k) % 3 == 1:
            f = f % (nv - 1) + 1                              # the first vertex is referenced by no face
        kind = [None, "fc", "vc"][int(rs.randint(3))]
        cols = None if kind is None else _colour(nf if kind == "fc" else nv, 0, rs)
        return v, f, kind, cols, True
    if name.startswith("q:"):
        X = {"mixed": [[1 / 3, -2 / 7, 1e-20], [1e20, 123456.789, -0.1], [3.141592653589793, 2.718281828459045, 1.4142135623730951]],
             "f64only": [[16777217, 0, 0], [0, 123456789.125, 0], [0, 0, -987654321.5]],
             "huge": [[1e20, 0, 0], [0, -1e30, 0], [0, 0, 3e38]],
             "tiny": [[1e-20, 0, 0], [0, 1e-30, 0], [0, 0, 1e-40]],
             "negzero": [[-0.0, 0, 0], [1, -0.0, 0], [0, 1, -0.0]],
             "thirds": [[1 / 3, 2 / 3, 1], [-4 / 3, 5 / 7, 0.1], [100 / 7, -0.2, 1e-3], [7.7, 8.8, -9.9]]}[name[2:]]
        x = np.array(X, dtype=np.float64)
        f = np.array([[0, 1, 2]]) if len(x) == 3 else np.array([[0, 1, 2], [3, 2, 1]])
        return x, f, None, None, False
    if name.startswith("soup:"):
        nf = int(name.split(":")[1])
        i = np.arange(nf * 3)
        sv = np.zeros((nf * 3, 3))
        sv[:, 0] = i % 251
        sv[:, 1] = (i // 251) % 263
        sv[:, 2] = (i * 7) % 13
        sf = i.reshape(-1, 3)[::-1].copy()                    # face order is not vertex order
        return sv, sf, None, None, True
    raise MachineryError("unknown mesh geometry " + name)


def build_mesh(tm, name):
    v, f, kind, cols, lossless = mesh_geometry(tm, name)
    if name == "empty":
        m = tm.Trimesh()
    else:
        m = tm.Trimesh(v.copy(), f.copy(), process=False)
    if kind == "fc":
        m.visual.face_colors = cols.copy()
    elif kind == "vc":
        m.visual.vertex_colors = cols.copy()
    return m, (v, f, kind, cols, lossless)


def mesh_class(name, spec):
    v, f, kind, cols, lossless = spec
    used = np.zeros(len(v), dtype=bool)
    if len(f):
        used[np.unique(f)] = True
    return {"empty": bool(len(f) == 0), "unref": bool((~used).any()) and len(f) > 0, "fc": kind == "fc", "vc": kind == "vc", "lossless": bool(lossless)}


def warm(m, level):
    """Read derived values before exporting (the exporters look into the cache)."""
    if level >= 1:
        m.vertex_normals
    if level >= 2:
        m.face_normals
        m.bounds
        m.edges_unique
        m.visual.vertex_colors
        m.visual.face_colors
        m.triangles
        m.area


def _source_snapshot(m):
    k = m.visual.kind
    c = np.array(m.visual.face_colors).copy() if k == "face" else np.array(m.visual.vertex_colors).copy() if k == "vertex" else None
    return (m.__hash__(), np.array(m.vertices).copy(), np.array(m.faces).copy(), k, c)


def _source_same(m, snap):
    h, v, f, k, c = snap
    if m.__hash__() != h or m.visual.kind != k:
        return False
    if not (np.array_equal(np.array(m.vertices), v) and np.array_equal(np.array(m.faces), f)):
        return False
    if k == "face":
        return bool(np.array_equal(np.array(m.visual.face_colors), c))
    if k == "vertex":
        return bool(np.array_equal(np.array(m.visual.vertex_colors), c))
    return True


def mesh_obs(spec, r, prec):
    v0, f0, kind, cols, _ = spec
    o = {"nin": int(len(f0)), "nout": -1, "tris": False, "trisq": False, "vid": False,
         "vcrgb": False, "vca": False, "fcrgb": False, "fca": False}
    if not hasattr(r, "faces") or not hasattr(r, "vertices"):
        return o
    rv, rf = np.array(r.vertices, dtype=np.float64).reshape(-1, 3), np.array(r.faces).reshape(-1, 3)
    o["nout"] = int(len(rf))
    if len(rf) != len(f0):
        return o
    if len(rf) and (rf.min() < 0 or rf.max() >= len(rv)):
        return o
    tri0, tri = v0[f0], rv[rf]
    o["tris"] = bool(np.array_equal(tri, tri0))
    o["trisq"] = qeq(tri, tri0, prec)
    o["vid"] = bool(rv.shape == v0.shape and qeq(rv, v0, prec) and np.array_equal(rf, f0))
    if kind == "vc" and r.visual.kind == "vertex":
        c = np.array(r.visual.vertex_colors)
        if c.shape == (len(rv), 4) and len(rf):
            o["vcrgb"] = bool(np.array_equal(c[rf][..., :3], cols[f0][..., :3]))
            o["vca"] = bool(np.array_equal(c[rf], cols[f0]))
    if kind == "fc" and r.visual.kind == "face":
        c = np.array(r.visual.face_colors)
        if c.shape == cols.shape:
            o["fcrgb"] = bool(np.array_equal(c[:, :3], cols[:, :3]))
            o["fca"] = bool(np.array_equal(c, cols))
    return o


def _scratch():
    os.makedirs(os.path.join(WORK, "c08"), exist_ok=True)
    return tempfile.mkdtemp(prefix="entry-%d-" % os.getpid(), dir=os.path.join(WORK, "c08"))


def run_mesh(tm, item, tables):
    """item = ('mesh', fam, fmt, geometry name, extra)"""
    _, fam, fmt, gname, extra = item
    ft, ekw, lkw = MESH_VARIANTS[fmt]
    prec = tables["mesh"][fmt]["prec"]
    m, spec = build_mesh(tm, gname)
    rec = {"kind": "mesh", "fam": fam, "fmt": fmt, "geom": gname, "extra": extra, "cls": mesh_class(gname, spec), "exc": "", "src_ok": True,
           "obs": {"nin": 0, "nout": 0, "tris": False, "trisq": False, "vid": False, "vcrgb": False, "vca": False, "fcrgb": False, "fca": False}}
    try:
        if fam == "history":
            if extra == "exported_before":
                m.export(file_type=ft, **ekw)       # an earlier export must leave nothing behind
            else:
                warm(m, int(extra))
        snap = _source_snapshot(m)
        if fam == "entry":
            r = _mesh_entry(tm, m, ft, ekw, lkw, extra, gname)
        else:
            data = m.export(file_type=ft, **ekw)
            r = load_back(tm, data, ft, lkw, "mesh")
        rec["src_ok"] = _source_same(m, snap)
        rec["obs"] = mesh_obs(spec, r, prec)
    except MachineryError:
        raise
    except BaseException as e:  # noqa
        rec["exc"] = _exc(e)
    return rec


def _mesh_entry(tm, m, ft, ekw, lkw, how, gname):
    """Other entry points reaching the same exporters / loaders: file names (type from the extension,
    any case), open file objects, pathlib paths; a second export to the same name replaces the first."""
    import pathlib
    d = _scratch()
    try:
        ext = ft.upper() if how == "name_upper" else ft
        p = os.path.join(d, "model." + ext)
        if how in ("name", "name_upper"):
            m.export(p, **ekw)
            return tm.load_mesh(p, process=False, **lkw)
        if how == "pathlib":
            m.export(pathlib.Path(p), **ekw)
            return tm.load_mesh(pathlib.Path(p), process=False, **lkw)
        if how == "fileobj":
            with open(p, "wb") as fh:
                m.export(fh, file_type=ft, **ekw)
            with open(p, "rb") as fh:
                return tm.load_mesh(fh, file_type=ft, process=False, **lkw)
        if how == "overwrite":
            big, _ = build_mesh(tm, "soup:300")
            big.export(p, **ekw)
            m.export(p, **ekw)
            return tm.load_mesh(p, process=False, **lkw)
        if how == "load_any":
            data = m.export(file_type=ft, **ekw)
            r = load_back(tm, data, ft, lkw, "any")
            if isinstance(r, tm.Scene):
                r = r.to_mesh()
            return r
        raise MachineryError("unknown entry point " + how)
    finally:
        shutil.rmtree(d, ignore_errors=True)


# ----------------------------------------------------------------------------- point clouds
def cloud_geometry(name):
    pv = np.array([[0, 0, 0], [1.5, -2, 0.25], [3, 3, 3], [-8, 0.5, 4], [1024, 2048, -4096.5], [3, 3, 3], [0.125, -0.0625, 64]])
    pc = (np.arange(28).reshape(7, 4) * 11 % 250 + 2).astype(np.uint8)
    if name == "plain":
        return pv, None, "none", True
    if name == "rgba":
        return pv, pc, "rgba", True
    if name == "rgb3":
        return pv, pc[:, :3], "rgb", True
    if name == "alpha_extremes":
        c = pc.copy()
        c[:, 3] = [0, 255, 1, 254, 128, 0, 255]
        return pv, c, "rgba", True
    if name == "one":
        return pv[1:2], pc[1:2], "rgba", True
    if name == "one_plain":
        return pv[1:2], None, "none", True
    if name == "empty":
        return np.zeros((0, 3)), None, "none", True
    if name == "thirds":
        return np.array([[1 / 3, 2 / 3, 1], [-4 / 3, 5 / 7, 0.1], [100 / 7, -0.2, 1e-3], [123456.789, 1e-20, -1e5 / 3]]), pc[:4], "rgba", False
    if name.startswith("rnd:"):
        _, sd, k = name.split(":")
        rs = np.random.RandomState((int(sd) * 7907 + int(k) * 611953 + 5) % (2 ** 31))
        n = int(rs.randint(1, 12))
        v = rs.randint(-2048, 2049, size=(n, 3)) / 16.0
        mode = int(rs.randint(3))
        c = rs.randint(0, 256, size=(n, 4)).astype(np.uint8)
        return v, (None, c, c[:, :3])[mode], ("none", "rgba", "rgb")[mode], True
    raise MachineryError("unknown cloud " + name)


def run_cloud(tm, item, tables):
    _, fam, fmt, gname, extra = item
    ft, ekw, lkw = CLOUD_VARIANTS[fmt]
    prec = tables["cloud"][fmt]["prec"]
    v, c, cmode, lossless = cloud_geometry(gname)
    rec = {"kind": "cloud", "fam": fam, "fmt": fmt, "geom": gname, "extra": extra, "exc": "", "src_ok": True,
           "cls": {"empty": bool(len(v) == 0), "colors": cmode, "lossless": bool(lossless)},
           "obs": {"nin": int(len(v)), "nout": -1, "pts": False, "ptsq": False, "rgb": False, "alpha": False}}
    try:
        cloud = tm.PointCloud(v.copy()) if c is None else tm.PointCloud(v.copy(), colors=c.copy())
        h0 = cloud.__hash__()
        if fam == "entry":
            d = _scratch()
            try:
                p = os.path.join(d, "cloud." + ft)
                cloud.export(p, **ekw)
                r = tm.load(p, process=False, **lkw)
            finally:
                shutil.rmtree(d, ignore_errors=True)
        else:
            data = cloud.export(file_type=ft, **ekw)
            r = load_back(tm, data, ft, lkw, "any")
        if isinstance(r, tm.Scene):
            g = list(r.geometry.values())
            r = g[0] if len(g) == 1 else r
        rec["src_ok"] = bool(cloud.__hash__() == h0 and np.array_equal(np.array(cloud.vertices), v))
        o = rec["obs"]
        if isinstance(r, tm.Scene):
            o["nout"] = 0 if len(r.geometry) == 0 else -1
            got = np.zeros((0, 3))
        else:
            got = np.array(r.vertices, dtype=np.float64).reshape(-1, 3)
            o["nout"] = int(len(got))
        if o["nout"] == o["nin"]:
            o["pts"] = bool(np.array_equal(got, v))
            o["ptsq"] = qeq(got, v, prec)
            if c is not None and hasattr(r, "colors") and r.colors is not None:
                gc = np.array(r.colors)
                if gc.ndim == 2 and gc.shape[0] == len(v) and gc.shape[1] >= 3:
                    o["rgb"] = bool(np.array_equal(gc[:, :3], c[:, :3]))
                    want_a = c[:, 3] if c.shape[1] == 4 else np.full(len(v), 255)
                    o["alpha"] = bool(o["rgb"] and gc.shape[1] == 4 and np.array_equal(gc[:, 3], want_a))
    except MachineryError:
        raise
    except BaseException as e:  # noqa
        rec["exc"] = _exc(e)
    return rec


# ----------------------------------------------------------------------------- paths
PATH_CLASSES_2D = ("lines", "closed_poly", "neg_large", "single_seg", "layers", "thirds", "arc_ccw", "arc_cw", "arc_big",
                   "circle", "bezier", "bspline", "mixed_entities", "empty")
PATH_CLASSES_3D = ("lines3", "closed3", "empty3")


def build_path(tm, name):
    from trimesh.path import Path2D, Path3D
    from trimesh.path.entities import Arc, Bezier, BSpline, Line
    V = np.array([[0, 0], [4, 0], [4, 3], [0, 3], [1, 1], [2, 1], [2, 2], [-5, -7.5], [1024.25, -2048.5], [6, 0], [8, 2], [6, 4],
                  [10, 0], [10, 2], [12, 2], [12, 0], [1 / 3, 2 / 3], [100 / 7, -0.2], [7.7, -9.9]], dtype=float)
    kn = [0, 0, 0, 0, 1, 1, 1, 1]
    e2 = {
        "lines": lambda: [Line([0, 1, 2]), Line([2, 3, 0]), Line([4, 5, 6, 4])],
        "closed_poly": lambda: [Line([0, 1, 2, 3, 0])],
        "neg_large": lambda: [Line([7, 8]), Line([8, 0, 7])],
        "single_seg": lambda: [Line([0, 1])],
        "layers": lambda: [Line([0, 1, 2], layer="a"), Line([2, 3, 0], layer="b")],
        "thirds": lambda: [Line([16, 17, 18]), Line([18, 16])],
        "arc_ccw": lambda: [Arc([9, 10, 11])],
        "arc_cw": lambda: [Arc([11, 10, 9])],
        "arc_big": lambda: [Arc([9, 11, 10])],
        "circle": lambda: [Arc([9, 10, 11], closed=True)],
        "bezier": lambda: [Bezier([12, 13, 14, 15])],
        "bspline": lambda: [BSpline([12, 13, 14, 15], knots=kn)],
        "mixed_entities": lambda: [Line([0, 1, 2]), Arc([9, 10, 11]), Bezier([12, 13, 14, 15]), Line([2, 3, 0])],
    }
    if name in e2:
        return Path2D(entities=e2[name](), vertices=V.copy(), process=False)
    if name == "empty":
        return Path2D(entities=[], vertices=np.zeros((0, 2)), process=False)
    V3 = np.array([[0, 0, 0], [4, 0, 1], [4, 3, 2], [0, 3, -3], [1, 1, 1], [-8.5, 0.25, 16]], dtype=float)
    if name == "lines3":
        return Path3D(entities=[Line([0, 1, 2]), Line([2, 3, 0, 4]), Line([4, 5])], vertices=V3.copy(), process=False)
    if name == "closed3":
        return Path3D(entities=[Line([0, 1, 2, 3, 0])], vertices=V3.copy(), process=False)
    if name == "empty3":
        return Path3D(entities=[], vertices=np.zeros((0, 3)), process=False)
    raise MachineryError("unknown path " + name)


def path_polylines(p):
    out = []
    for e in p.entities:
        if type(e).__name__ == "Text":
            continue
        d = np.array(e.discrete(p.vertices), dtype=np.float64)
        if len(d) >= 2:
            out.append(d)
    return out


def _segments(polys, dim):
    s = [np.stack((d[:-1, :dim], d[1:, :dim]), axis=1) for d in polys]
    s = np.concatenate(s) if s else np.zeros((0, 2, dim))
    # a repeated point is not a segment
    return s[(s[:, 0] != s[:, 1]).any(axis=1)]


def _canon_segments(seg):
    """orientation of a segment is not part of the contract: order its two end points, then sort"""
    if len(seg) == 0:
        return seg
    a, b = seg[:, 0], seg[:, 1]
    swap = np.zeros(len(seg), dtype=bool)
    for k in range(seg.shape[2] - 1, -1, -1):
        swap = np.where(a[:, k] != b[:, k], a[:, k] > b[:, k], swap)
    lo = np.where(swap[:, None], b, a)
    hi = np.where(swap[:, None], a, b)
    flat = np.hstack((lo, hi))
    return flat[np.lexsort(flat.T[::-1])]


def _dense(polys, dim, per=8):
    pts = []
    for d in polys:
        t = np.linspace(0, 1, per, endpoint=False)[None, :, None]
        a, b = d[:-1, None, :dim], d[1:, None, :dim]
        pts.append((a + (b - a) * t).reshape(-1, dim))
        pts.append(d[-1:, :dim])
    return np.vstack(pts) if pts else np.zeros((0, dim))


def segs_equal(p_in, p_out, dim, prec):
    a = _canon_segments(_segments(path_polylines(p_in), dim))
    b = _canon_segments(_segments(path_polylines(p_out), dim))
    if a.shape != b.shape:
        return False
    if qeq(b, a, prec):
        return True
    # sorting may order nearly equal rows differently once coordinates are quantised: match greedily
    from scipy.spatial import cKDTree
    if len(a) == 0:
        return True
    dist, idx = cKDTree(b).query(a)
    return bool(len(set(idx.tolist())) == len(a) and qeq(b[idx], a, prec))


def hausdorff_micro(p_in, p_out, dim):
    from scipy.spatial import cKDTree
    pa, pb = path_polylines(p_in), path_polylines(p_out)
    a, b = _dense(pa, dim), _dense(pb, dim)
    if len(a) == 0 and len(b) == 0:
        return 0
    if len(a) == 0 or len(b) == 0:
        return 10 ** 9
    scale = max(float(np.ptp(a, axis=0).max()), 1e-9)
    h = max(cKDTree(a).query(b)[0].max(), cKDTree(b).query(a)[0].max())
    # both sides are sampled on the segments, so subtract nothing: sampling error is below the tolerance
    return int(min(10 ** 9, np.ceil(1e6 * h / scale)))


def run_path(tm, item, tables):
    _, fam, fmt, gname, extra = item
    ft, ekw, lkw = PATH_VARIANTS[fmt]
    prec = tables["path"][fmt]["prec"]
    dim = 3 if gname.endswith("3") else 2
    empty = gname.startswith("empty")
    rec = {"kind": "path", "fam": fam, "fmt": fmt, "geom": gname, "extra": extra, "exc": "", "src_ok": True,
           "cls": {"empty": empty, "dim": dim, "ent": gname},
           "obs": {"segs": False, "hd": 10 ** 9, "types": False, "nout": -1}}
    try:
        p = build_path(tm, gname)
        h0 = p.__hash__()
        v0 = np.array(p.vertices).copy()
        if fmt == "glb":
            data = p.scene().export(file_type="glb")
            s = tm.load_scene(io.BytesIO(data), file_type="glb")
            g = list(s.geometry.values())
            r = g[0] if len(g) == 1 else None
        elif fam == "entry":
            d = _scratch()
            try:
                fn = os.path.join(d, "drawing." + ft)
                p.export(fn, **ekw)
                r = tm.load_path(fn, **lkw)
            finally:
                shutil.rmtree(d, ignore_errors=True)
        elif ft == "ply":
            r = tm.load(io.BytesIO(p.export(file_type="ply", **ekw)), file_type="ply", process=False)
            if isinstance(r, tm.Scene):
                g = list(r.geometry.values())
                r = g[0] if len(g) == 1 else None
        else:
            r = load_back(tm, p.export(file_type=ft, **ekw), ft, lkw, "path")
        rec["src_ok"] = bool(p.__hash__() == h0 and np.array_equal(np.array(p.vertices), v0))
        o = rec["obs"]
        if r is None or not hasattr(r, "entities"):
            o["nout"] = 0 if r is None else -1
            r_polys_owner = None
        else:
            r_polys_owner = r
            o["nout"] = int(sum(len(d) - 1 for d in path_polylines(r)))
        if r_polys_owner is not None:
            o["segs"] = segs_equal(p, r, dim, prec)
            o["hd"] = hausdorff_micro(p, r, dim)
            o["types"] = [type(e).__name__ for e in p.entities] == [type(e).__name__ for e in r.entities]
    except MachineryError:
        raise
    except BaseException as e:  # noqa
        rec["exc"] = _exc(e)
    return rec


# ----------------------------------------------------------------------------- voxel grids
VOXEL_TRANSFORMS = {"a": (0.5, [1, 2, 3]), "b": (1.0, [0, 0, 0]), "c": (0.125, [-7.25, 0.001, 1e5]), "d": (3.0, [1 / 3, -2 / 7, 0.1]),
                    # an origin that is huge next to the pitch (survey coordinates, millimetre cells)
                    "e": (0.001, [123456.789, -98765.4321, 4321.1234])}
# run lengths (alternating empty / filled, starting with empty; the rest of the grid is empty) in the order
# in which the exporter encodes the cells: every count-width boundary of the uint8 run-length code
RUN_LISTS = {
    "r255_1": (8, [255, 1]), "r254_1": (8, [254, 1]), "r256_1": (8, [256, 1]), "r255_2_255": (8, [255, 2, 255]),
    "r0_255": (8, [0, 255]), "r1_255_1_255": (8, [1, 255, 1, 255]), "r510_1": (16, [510, 1]), "r511_1": (16, [511, 1]),
    "r765_1_510_3": (16, [765, 1, 510, 3]), "r0_510_255_765": (16, [0, 510, 255, 765]), "r1020_255": (16, [1020, 255]),
    "r4095_1": (16, [4095, 1]),
}
_BOUNDARY = [1, 2, 254, 255, 256, 509, 510, 511, 765]


def runs_to_grid(side, runs, order):
    flat = np.zeros(side ** 3, dtype=bool)
    pos, val = 0, False
    for n in runs:
        flat[pos:pos + n] = val
        pos += n
        val = not val
    if pos > len(flat):
        raise MachineryError("run list longer than the grid")
    g = flat.reshape(side, side, side)
    # binvox encodes x, then z, then y; axis_order='xyz' encodes the array as it lies in memory
    return g.transpose(0, 2, 1).copy() if order == "xzy" else g.copy()


def voxel_geometry(name, order="xzy"):
    if name.startswith("rnd:"):
        _, sd, k = name.split(":")
        rs = np.random.RandomState((int(sd) * 6151 + int(k) * 49157 + 3) % (2 ** 31))
        s = float(rs.choice([0.125, 0.5, 1.0, 3.0]))
        t = (rs.randint(-64, 65, size=3) / 4.0).tolist()
        if int(k) % 2 == 1:
            # seeded run lists drawn from the count-width boundaries
            side = 16
            runs, total = [], 0
            while True:
                n = int(rs.choice(_BOUNDARY)) * int(rs.choice([1, 1, 2]))
                if total + n > side ** 3 or len(runs) >= 8:
                    break
                runs.append(n)
                total += n
            return runs_to_grid(side, runs, order), s, t
        n = int(rs.randint(2, 8))
        cells = rs.rand(n, n, n) < rs.choice([0.1, 0.5, 0.9])
        return cells, s, t
    g, tr = name.split("@")
    s, t = VOXEL_TRANSFORMS[tr]
    if g in RUN_LISTS:
        side, runs = RUN_LISTS[g]
        return runs_to_grid(side, runs, order), s, t
    rs = np.random.RandomState(11)
    grids = {
        "3x3x3": (np.arange(27).reshape(3, 3, 3) % 3) != 1,
        "asym4": rs.rand(4, 4, 4) > 0.5,
        "all_true5": np.ones((5, 5, 5), bool),
        "shell8": np.pad(np.ones((6, 6, 6), bool), 1),
        "all_false": np.zeros((3, 3, 3), bool),
        "run729": np.ones((9, 9, 9), bool),               # a single run longer than 255
        "corner2": np.arange(8).reshape(2, 2, 2) == 5,
        "sparse12": rs.rand(12, 12, 12) > 0.97,
    }
    return grids[g], s, t


VOXEL_GRIDS = ("3x3x3", "asym4", "all_true5", "shell8", "all_false", "run729", "corner2", "sparse12")


def run_voxel(tm, item, tables):
    _, fam, fmt, gname, extra = item
    ft, ekw, lkw = VOXEL_VARIANTS[fmt]
    cells, s, t = voxel_geometry(gname, "xyz" if ekw.get("axis_order") == "xyz" else "xzy")
    rec = {"kind": "voxel", "fam": fam, "fmt": fmt, "geom": gname, "extra": extra, "exc": "", "src_ok": True,
           "cls": {"n": int(cells.sum()), "side": int(cells.shape[0])}, "obs": {"cells": False, "centres": False}}
    try:
        T = np.eye(4)
        T[:3, :3] *= s
        T[:3, 3] = t
        vg = tm.voxel.VoxelGrid(cells.copy(), transform=T)
        h0 = vg.__hash__()
        if fam == "entry":
            d = _scratch()
            try:
                fn = os.path.join(d, "grid.binvox")
                vg.export(fn, **ekw)
                r = tm.load(fn, **lkw)
            finally:
                shutil.rmtree(d, ignore_errors=True)
        else:
            r = load_back(tm, vg.export(file_type="binvox", **ekw), "binvox", lkw, "any")
        rec["src_ok"] = bool(vg.__hash__() == h0 and np.array_equal(np.array(vg.encoding.dense), cells))
        dense = np.array(r.encoding.dense)
        rec["obs"]["cells"] = bool(dense.shape == cells.shape and np.array_equal(dense, cells))
        a, b = np.array(vg.points).reshape(-1, 3), np.array(r.points).reshape(-1, 3)
        if a.shape == b.shape:
            if len(a):
                a = a[np.lexsort(np.round(a, 6).T[::-1])]
                b = b[np.lexsort(np.round(b, 6).T[::-1])]
            # the header is decimal text of doubles: centres come back to a millionth of a cell
            tol = 1e-6 * abs(s) + 1e-13 * (float(np.abs(a).max()) if len(a) else 0.0)
            rec["obs"]["centres"] = bool(len(a) == 0 or np.abs(a - b).max() <= tol)
    except MachineryError:
        raise
    except BaseException as e:  # noqa
        rec["exc"] = _exc(e)
    return rec


# ----------------------------------------------------------------------------- scenes
def _M(R=None, t=(0, 0, 0), s=None):
    A = np.eye(4)
    if R is not None:
        A[:3, :3] = R
    if s is not None:
        A[:3, :3] = A[:3, :3] @ np.diag(s)
    A[:3, 3] = t
    return A


RZ = [[0, -1, 0], [1, 0, 0], [0, 0, 1]]
RX = [[1, 0, 0], [0, 0, -1], [0, 1, 0]]
SCENE_CONFIGS = ("faceless_first", "faceless_middle", "empty_first", "cloud_first", "cloud_middle",
                 "same_name", "two_inst", "scale", "mirror", "shear", "deep", "identical_geoms", "colours", "mixed_kinds",
                 "list_ctor", "base_frame", "geometry_on_group", "grouped_two", "unused_geom", "face_colours")


def build_scene(tm, name):
    def box():
        return tm.creation.box(extents=[1, 2, 3])

    def tet():
        return tm.Trimesh([[0, 0, 0], [2, 0, 0], [0, 4, 0], [0, 0, 1]], [[0, 2, 1], [0, 1, 3], [1, 2, 3], [2, 0, 3]], process=False)
    s = tm.Scene()
    if name == "same_name":
        s.add_geometry(box(), node_name="box", geom_name="box", transform=_M(RZ, [4, 0, 2]))
    elif name == "two_inst":
        s.add_geometry(box(), node_name="a", geom_name="box", transform=_M(RZ, [4, 0, 2]))
        s.add_geometry(box(), node_name="b", geom_name="box", transform=_M(RX, [0, 9, 0]))
    elif name == "scale":
        s.add_geometry(tet(), node_name="a", geom_name="tet", transform=_M(RZ, [4, 0, 2], [2, 2, 2]))
        s.add_geometry(tet(), node_name="b", geom_name="tet", transform=_M(None, [0, 9, 0], [1, 2, 0.5]))
    elif name == "mirror":
        s.add_geometry(tet(), node_name="tet", geom_name="tet", transform=_M(None, [1, 0, 0], [-1, 1, 1]))
    elif name == "shear":
        A = np.eye(4)
        A[0, 1] = 0.5
        A[:3, 3] = [1, 2, 3]
        s.add_geometry(tet(), node_name="tet", geom_name="tet", transform=A)
    elif name == "deep":
        s.graph.update(frame_from="world", frame_to="g1", matrix=_M(RZ, [0, 5, 0]))
        s.graph.update(frame_from="g1", frame_to="g2", matrix=_M(RX, [1, 0, 0]))
        s.graph.update(frame_from="g2", frame_to="g3", matrix=_M(None, [0, 0, 2], [2, 2, 2]))
        s.add_geometry(tet(), node_name="leaf", geom_name="tet", parent_node_name="g3", transform=_M(RZ, [3, 0, 0]))
        s.add_geometry(box(), node_name="box", geom_name="box", transform=_M(None, [20, 0, 0]))
    elif name == "identical_geoms":
        s.add_geometry(tet(), node_name="t1", geom_name="t1", transform=_M(None, [5, 0, 0]))
        s.add_geometry(tet(), node_name="t2", geom_name="t2", transform=_M(RZ, [0, 5, 0]))
    elif name in ("colours", "face_colours"):
        a, b = tet(), tet()
        if name == "colours":
            a.visual.vertex_colors = [[255, 0, 0, 255], [0, 255, 0, 255], [0, 0, 255, 255], [9, 9, 9, 200]]
            b.visual.vertex_colors = [[1, 2, 3, 255], [4, 5, 6, 255], [7, 8, 9, 255], [10, 11, 12, 255]]
        else:
            a.visual.face_colors = [[255, 0, 0, 255], [0, 255, 0, 255], [0, 0, 255, 255], [9, 9, 9, 200]]
            b.visual.face_colors = [[1, 2, 3, 255], [4, 5, 6, 255], [7, 8, 9, 255], [10, 11, 12, 255]]
        s.add_geometry(a, node_name="t1", geom_name="t1", transform=_M(None, [5, 0, 0]))
        s.add_geometry(b, node_name="t2", geom_name="t2", transform=_M(RZ, [0, 5, 0]))
    elif name in ("faceless_first", "faceless_middle", "empty_first", "cloud_first", "cloud_middle"):
        # a geometry that contributes vertices but no triangles (or nothing at all) next to real meshes, in
        # front of them or between them: what the format carries of the others must come back undisturbed
        if name.startswith("faceless"):
            odd = tm.Trimesh(vertices=[[0, 0, 0], [1, 0, 0], [0, 1, 0], [5, 5, 5], [6, 6, 6]], faces=np.zeros((0, 3), dtype=np.int64), process=False)
        elif name.startswith("empty"):
            odd = tm.Trimesh()
        else:
            odd = tm.PointCloud([[0, 0, 0], [1, 2, 3], [-4, 5, 6.5], [8, 8, 8]], colors=[[255, 0, 0, 255], [0, 255, 0, 255], [0, 0, 255, 255], [7, 7, 7, 9]])
        parts = [("odd", odd, _M(RZ, [1, 1, 1])), ("tet", tet(), _M(None, [5, 0, 0])), ("box", box(), _M(RX, [0, 7, 0]))]
        if name.endswith("middle"):
            parts = [parts[1], parts[0], parts[2]]
        for n, g, A in parts:
            s.add_geometry(g, node_name=n, geom_name=n, transform=A)
    elif name == "mixed_kinds":
        s.add_geometry(tet(), node_name="t1", geom_name="t1", transform=_M(None, [5, 0, 0]))
        s.add_geometry(tm.PointCloud([[0, 0, 0], [1, 2, 3], [-4, 5, 6.5]], colors=[[255, 0, 0, 255], [0, 255, 0, 255], [0, 0, 255, 255]]),
                       node_name="pc", geom_name="cloud", transform=_M(RZ, [0, 0, 7]))
        # two polylines that do not touch
        seg = np.array([[[0, 0, 0], [1, 0, 0]], [[1, 0, 0], [1, 2, 5]], [[4, 0, 0], [4, 2, 0.5]]], dtype=float)
        s.add_geometry(tm.path.Path3D(**tm.path.exchange.misc.lines_to_path(seg)), node_name="pth", geom_name="path", transform=_M(None, [0, -3, 0]))
    elif name == "list_ctor":
        s = tm.Scene([box(), tet()])
    elif name == "base_frame":
        s = tm.Scene(base_frame="root")
        s.add_geometry(tet(), node_name="tet", geom_name="tet", transform=_M(RZ, [4, 0, 2]))
    elif name == "geometry_on_group":
        s.add_geometry(box(), node_name="box", geom_name="box", transform=_M(RZ, [4, 0, 2]))
        s.add_geometry(tet(), node_name="c", geom_name="tet", parent_node_name="box", transform=_M(RX, [0, 3, 0]))
    elif name == "grouped_two":
        s.graph.update(frame_from="world", frame_to="grp", matrix=_M(RZ, [0, 5, 0]))
        s.add_geometry(box(), node_name="i1", geom_name="box", parent_node_name="grp", transform=_M(None, [7, 0, 0]))
        s.add_geometry(box(), node_name="i2", geom_name="box", parent_node_name="grp", transform=_M(RX, [0, 0, 9]))
        s.add_geometry(tet(), node_name="i3", geom_name="tet", parent_node_name="grp", transform=_M(None, [20, 0, 0], [2, 2, 2]))
    elif name == "unused_geom":
        s.add_geometry(tet(), node_name="tet", geom_name="tet", transform=_M(RZ, [4, 0, 2]))
        s.geometry["orphan"] = box()
    else:
        raise MachineryError("unknown scene " + name)
    return s


def scene_parts(tm, s):
    """placed triangles (n,3,3), placed cloud points, placed path segments of every instance"""
    tris, pts, segs = [], [], []
    for node in s.graph.nodes_geometry:
        T, gname = s.graph[node]
        g = s.geometry[gname]
        if isinstance(g, tm.Trimesh):
            if len(g.faces):
                tris.append(tm.transform_points(np.array(g.vertices), T)[np.array(g.faces)])
        elif isinstance(g, tm.PointCloud):
            pts.append(tm.transform_points(np.array(g.vertices), T))
        elif hasattr(g, "entities"):
            for d in path_polylines(g):
                d3 = d if d.shape[1] == 3 else np.column_stack((d, np.zeros(len(d))))
                d3 = tm.transform_points(d3, T)
                sg = np.stack((d3[:-1], d3[1:]), axis=1)
                segs.append(sg[(sg[:, 0] != sg[:, 1]).any(axis=1)])      # a repeated point is not a segment
    cat = lambda x, shape: np.concatenate(x) if x else np.zeros(shape)  # noqa
    return cat(tris, (0, 3, 3)), cat(pts, (0, 3)), cat(segs, (0, 2, 3))


def _bag(tri, oriented):
    """multiset of triangles; oriented: keep the cyclic vertex order, else only the three corners"""
    if len(tri) == 0:
        return tri.reshape(0, 9)
    t = np.round(tri, 5) + 0.0
    if oriented:
        # rotate every triangle so that its lexicographically smallest corner comes first
        out = np.empty_like(t)
        for n, row in enumerate(t):
            k = min(range(3), key=lambda j: tuple(row[j]))
            out[n] = np.roll(row, -k, axis=0)
        t = out
    else:
        out = np.empty_like(t)
        for n, row in enumerate(t):
            out[n] = row[sorted(range(3), key=lambda j: tuple(row[j]))]
        t = out
    flat = t.reshape(-1, 9)
    return flat[np.lexsort(flat.T[::-1])]


def _bag_eq(a, b):
    return bool(a.shape == b.shape and np.allclose(a, b, rtol=0, atol=2e-5))


def run_scene(tm, item, tables):
    _, fam, fmt, gname, extra = item
    ft, ekw, lkw = SCENE_VARIANTS[fmt]
    rec = {"kind": "scene", "fam": fam, "fmt": fmt, "geom": gname, "extra": extra, "exc": "", "src_ok": True,
           "cls": {"kinds": ["mesh"], "mirror": False, "top_named_differently": False, "geometry_node_has_children": False},
           "obs": {"nin": 0, "nout": -1, "bag": False, "bago": False, "cloud": False, "path": False}}
    try:
        s = build_scene(tm, gname)
        kinds = set()
        for g in s.geometry.values():
            kinds.add("mesh" if isinstance(g, tm.Trimesh) else "cloud" if isinstance(g, tm.PointCloud) else "path")
        rec["cls"]["kinds"] = sorted(kinds)
        top_diff = False
        mirror = False
        for node in s.graph.nodes_geometry:
            T, gn = s.graph[node]
            if np.linalg.det(T[:3, :3]) < 0:
                mirror = True
            if s.graph.transforms.parents.get(node) == s.graph.base_frame and node != gn:
                top_diff = True
            if len(s.graph.transforms.children.get(node, [])) > 0:
                rec["cls"]["geometry_node_has_children"] = True
        rec["cls"]["mirror"] = mirror
        rec["cls"]["top_named_differently"] = top_diff
        tri0, pts0, seg0 = scene_parts(tm, s)
        h0 = s.__hash__()
        if fam == "entry":
            d = _scratch()
            try:
                fn = os.path.join(d, "scene." + ft)
                s.export(fn, **ekw)
                r = tm.load_scene(fn, process=False, **lkw)
            finally:
                shutil.rmtree(d, ignore_errors=True)
        else:
            r = load_back(tm, s.export(file_type=ft, **ekw), ft, lkw, "scene")
        t1, p1, s1 = scene_parts(tm, s)
        rec["src_ok"] = bool(s.__hash__() == h0 and np.array_equal(t1, tri0) and np.array_equal(p1, pts0))
        tri, pts, seg = scene_parts(tm, r)
        o = rec["obs"]
        o["nin"], o["nout"] = int(len(tri0)), int(len(tri))
        o["bag"] = _bag_eq(_bag(tri, False), _bag(tri0, False))
        o["bago"] = _bag_eq(_bag(tri, True), _bag(tri0, True))
        if len(pts0):
            a = pts0[np.lexsort(np.round(pts0, 4).T[::-1])]
            b = pts[np.lexsort(np.round(pts, 4).T[::-1])] if len(pts) else pts
            o["cloud"] = bool(a.shape == b.shape and np.allclose(a, b, rtol=0, atol=2e-5))
        if len(seg0):
            a, b = _canon_segments(np.round(seg0, 5) + 0.0), _canon_segments(np.round(seg, 5) + 0.0)
            o["path"] = bool(a.shape == b.shape and np.allclose(a, b, rtol=0, atol=2e-5))
    except MachineryError:
        raise
    except BaseException as e:  # noqa
        rec["exc"] = _exc(e)
    return rec


RUNNERS = {"mesh": run_mesh, "cloud": run_cloud, "path": run_path, "voxel": run_voxel, "scene": run_scene}
_TABLES = {}


def set_tables(t):
    _TABLES.clear()
    _TABLES.update(t)


def chunk_worker(items):
    tm = import_trimesh()
    return [RUNNERS[it[0]](tm, it, _TABLES) for it in items]


# ----------------------------------------------------------------------------- enumeration
def enumerate_items(tables, tier, sd):
    """-> list of work items (kind, family, variant, geometry class, extra)"""
    thorough = tier == "thorough"
    items = []
    mesh_all = sorted(tables["mesh"])
    base = sorted(tables["base"])
    seeds_clean = ["box_fc", "box_vc", "box_plain", "two_tets_vc", "one_face_fc", "odd_coords_fc", "dup_vc", "dup_fc"]
    seeds_unref = ["messy_vc", "messy_fc", "messy_plain"]
    # history: derived values read before exporting (exporters consult the cache)
    for fmt in mesh_all:
        for g in (seeds_clean + seeds_unref) if thorough else ["box_vc", "dup_fc", "messy_vc", "messy_fc"]:
            for level in ("1", "2", "exported_before"):
                items.append(("mesh", "history", fmt, g, level))
    # empty geometry
    for fmt in mesh_all:
        for g in ("empty", "verts_nofaces"):
            items.append(("mesh", "empty", fmt, g, ""))
    # seeded random small meshes (degenerate / repeated / unreferenced allowed)
    for k in range(60 if thorough else 10):
        for fmt in mesh_all:
            items.append(("mesh", "random", fmt, "rnd:%d:%d" % (sd, k), ""))
    # coordinates that the format cannot represent, compared at its precision class
    for q in ("mixed", "f64only", "huge", "tiny", "negzero", "thirds"):
        for fmt in mesh_all:
            items.append(("mesh", "quant", fmt, "q:" + q, ""))
    # other entry points
    for fmt in ("stl", "off", "ply", "obj", "glb", "gltf", "3mf", "dae", "ply_ascii", "obj_vn", "gltf_merge"):
        for how in ("name", "name_upper", "pathlib", "fileobj", "overwrite", "load_any"):
            if how == "fileobj" and fmt.startswith("gltf"):
                continue        # a multi-file export has nothing to write into one file object
            for g in ("messy_vc", "box_fc") if thorough else ("messy_vc",):
                items.append(("mesh", "entry", fmt, g, how))
    for fmt in ("dict", "dict64", "stl_ascii"):
        items.append(("mesh", "entry", fmt, "messy_vc", "load_any"))
    # large index values / many records
    big = ["3mf", "obj", "obj_vn", "ply_ascii", "ply_vn", "stl", "stl_ascii", "gltf", "gltf_merge_embed", "glb_vn", "off_d12", "dae", "dict"]
    for fmt in big:
        items.append(("mesh", "large", fmt, "soup:22000", ""))
    for fmt in ("3mf_b2", "3mf", "obj", "dae", "ply", "glb", "off", "dict64", "stl"):
        items.append(("mesh", "large", fmt, "soup:5000", ""))
    if thorough:
        for fmt in mesh_all:
            if fmt not in ("3mf_b2",):
                items.append(("mesh", "large", fmt, "soup:70000", ""))
    # point clouds
    for fmt in sorted(tables["cloud"]):
        for g in ("plain", "rgba", "rgb3", "alpha_extremes", "one", "one_plain", "empty", "thirds"):
            items.append(("cloud", "cloud", fmt, g, ""))
        for k in range(30 if thorough else 6):
            items.append(("cloud", "cloud_random", fmt, "rnd:%d:%d" % (sd, k), ""))
    for fmt in ("xyz", "ply", "glb", "obj"):
        items.append(("cloud", "entry", fmt, "rgba", "name"))
    # paths
    for fmt in sorted(tables["path"]):
        dims = tables["path"][fmt]["dims"]
        for g in (PATH_CLASSES_2D if 2 in dims else ()) + (PATH_CLASSES_3D if 3 in dims else ()):
            items.append(("path", "path", fmt, g, ""))
    for fmt in ("dxf", "svg"):
        items.append(("path", "entry", fmt, "lines", "name"))
    # voxel grids
    for fmt in sorted(tables["voxel"]):
        for g in VOXEL_GRIDS:
            for tr in ("abcde" if g in ("3x3x3", "asym4", "sparse12") or thorough else "a"):
                items.append(("voxel", "voxel", fmt, g + "@" + tr, ""))
        for g in RUN_LISTS:
            items.append(("voxel", "voxel_runs", fmt, g + "@a", ""))
        for k in range(60 if thorough else 8):
            items.append(("voxel", "voxel_random", fmt, "rnd:%d:%d" % (sd, k), ""))
    items.append(("voxel", "entry", "binvox", "asym4@a", "name"))
    # scenes
    for fmt in sorted(tables["scene"]):
        for g in SCENE_CONFIGS:
            kinds = {"mixed_kinds": {"cloud", "path"}, "cloud_first": {"cloud"}, "cloud_middle": {"cloud"}}.get(g, set())
            if not kinds <= set(tables["scene"][fmt]["kinds"]) | set(tables["scene"][fmt]["tolerates"]):
                continue        # the exporter does not accept this kind: nothing is promised
            items.append(("scene", "scene", fmt, g, ""))
    for fmt in ("glb", "gltf", "obj", "3mf", "ply", "stl"):
        items.append(("scene", "entry", fmt, "grouped_two", "name"))
    return items


MIN_PER_FAMILY = {"history": 300, "voxel_runs": 20, "empty": 50, "random": 250, "quant": 150, "entry": 60, "large": 20,
                  "cloud": 70, "cloud_random": 50, "path": 60, "voxel": 36, "voxel_random": 14, "scene": 130}
