"""C07 - re-indexing operations never move triangles or misalign attached data.

Reference semantics: spec/Reindex.tla.  Every re-indexing operation is a relation between an
abstract pre-state (vertex slots with position ids, faces as slot triples, uv / normal classes)
and the observed post-state; TLC decides for every recorded (pre, operation, options, post)
whether the relation holds and names the failing clause.

code -> spec: Python enumerates abstract meshes (every mesh of one or two faces over three slots
and every duplicate pattern of their positions, seeded meshes of up to 4 - 6 faces with duplicated
and unreferenced slots, repeated / reversed / degenerate / collinear faces and a NaN / inf slot,
and interleaved triangle strips of 17 - 22 faces, where numpy's sorts behave differently),
builds trimesh.Trimesh(process=False) with identity tags attached (face attribute and face colour
= original face index, vertex attribute and vertex colour = original slot, uv / stored vertex
normal = class of the slot), runs one operation with one option combination, projects every
returned mesh back to abstract form (position id of each vertex looked up from its coordinates,
tags decoded from colours / attributes / uv / normals) and records.  Python computes no expected
value.  A rejection is attributed to a known defect by a predicate on the input and the operation,
restricted to the clause that defect breaks (for the face_subset defect also to results that came
back with vertex colours); everything else is an unexplained violation.
"""
import itertools
import logging
import os
import re
import sys
import warnings

import numpy as np

from harness import tlc
from harness.common import (SPEC_DIR, MachineryError, Verdict, import_trimesh, pmap, seed,
                            tier_from_args)

PROP = "C07"
CFG = "INIT Init\nNEXT Next\nINVARIANT Report\nINVARIANT RefSane\nCHECK_DEADLOCK FALSE\n"
VISUALS = ("none", "face", "vertex", "texture")
NO_OPT = {"mt": False, "mn": False, "dv": False, "du": False, "dn": False,
          "app": False, "ow": False, "rep": False}


# ------------------------------------------------------------------ tag encodings
def position_table():
    """fine position id (1-based) -> coordinates, read from the specification's own table"""
    text = open(os.path.join(SPEC_DIR, "Reindex.tla")).read()
    m = re.search(r"^Lattice4 == <<(.*)>>\s*$", text, re.M)
    s = re.search(r"^Sub4 == <<\s*(\d+),\s*(\d+),\s*(\d+)\s*>>\s*$", text, re.M)
    if not m or not s:
        raise MachineryError("position table not found in Reindex.tla")
    rows = [tuple(int(x) for x in r) for r in re.findall(r"<<\s*(-?\d+),\s*(-?\d+),\s*(-?\d+)\s*>>", m.group(1))]
    sub = tuple(int(x) for x in s.groups())
    if len(rows) != 5:
        raise MachineryError("unexpected position table")
    out = [None]
    for r in rows:
        for b in (0, 1):
            out.append(tuple((r[k] + b * sub[k]) / 4.0 for k in range(3)))
    return out


XYZ = position_table()
XYZ_ARR = np.array(XYZ[1:], dtype=np.float64)
MAXTAG = 32
FCOL = np.array([[(17 * t + 3) % 256, (200 - 7 * t) % 256, (5 + 29 * t) % 256, 255] for t in range(MAXTAG)], dtype=np.uint8)
VCOL = np.array([[(90 + 13 * t) % 256, (31 * t + 7) % 256, (250 - 9 * t) % 256, 255] for t in range(MAXTAG)], dtype=np.uint8)
FCOL_KEY = {tuple(int(x) for x in c): k for k, c in enumerate(FCOL)}
VCOL_KEY = {tuple(int(x) for x in c): k for k, c in enumerate(VCOL)}
# uv / normal classes 0..3: class div 2 is what is left at coarse digits
# classes 4..11 are classes 0..3 moved by whole texture repeats (seam columns, tiled coordinates): different
# texture coordinates all the same; class 4 + b = class b + (1, 0) and 8 + b = class b + (2, 0) for b in 0..1,
# 4 + b = class b + (0, 1) and 8 + b = class b + (0, -1) for b in 2..3
_UV0 = [[0.2 * (u // 2) + 0.004 * (u % 2), 0.1 * (u // 2) + 0.02] for u in range(4)]
_SHIFT = {4: ((1, 0), (0, 1)), 8: ((2, 0), (0, -1))}
UVS = np.array(_UV0 + [[_UV0[b][0] + _SHIFT[g][b // 2][0], _UV0[b][1] + _SHIFT[g][b // 2][1]]
                       for g in (4, 8) for b in range(4)], dtype=np.float64)
_T = 0.1
NORMS = np.array([[1, 0, 0], [np.cos(_T), np.sin(_T), 0], [0, 0, 1], [0, np.sin(_T), np.cos(_T)]], dtype=np.float64)
NONFINITE = ([np.nan, 0.5, 0.5], [np.inf, 0.5, 0.5], [0.5, -np.inf, 0.5], [np.nan, np.nan, np.nan])
if len(FCOL_KEY) != MAXTAG or len(VCOL_KEY) != MAXTAG or set(FCOL_KEY) & set(VCOL_KEY):
    raise MachineryError("tag colours are not distinct")


def chan(values=None):
    return {"has": values is not None, "v": [] if values is None else values}


def decode_rows(arr, table, tol):
    """row -> index of the equal row of `table`, -1 if there is none"""
    arr = np.asarray(arr, dtype=np.float64)
    out = []
    for row in arr:
        if not np.isfinite(row).all():
            out.append(-1)
            continue
        d = np.abs(table - row).max(axis=1)
        k = int(d.argmin())
        out.append(k if d[k] <= tol else -1)
    return out


def decode_positions(V):
    out = []
    for row in np.asarray(V, dtype=np.float64):
        if not np.isfinite(row).all():
            out.append(0)
            continue
        d = np.abs(XYZ_ARR - row).max(axis=1)
        k = int(d.argmin())
        out.append(k + 1 if d[k] < 1e-6 else -1)
    return out


def decode_colors(arr, key):
    return [key.get(tuple(int(x) for x in row), -1) for row in np.asarray(arr)]


# ------------------------------------------------------------------ concrete meshes
def build(trimesh, am, vis, hasn, pre, rs, foff=0, voff=0, made=""):
    """abstract mesh -> Trimesh(process=False) with identity tags attached.  An abstract mesh without faces
    is made directly or (made = "masked") by masking away the only face of a mesh; one without slots is
    trimesh.Trimesh()."""
    n = len(am["pos"])
    if n == 0:
        m = trimesh.Trimesh()
        if vis == "texture":
            # the same (empty) material as the other operands: concatenating different materials packs
            # them into an atlas and rewrites every uv, which is not a re-indexing question
            m.visual = trimesh.visual.TextureVisuals(uv=np.zeros((0, 2)))
        return m
    if made == "masked":
        if am["faces"]:
            raise MachineryError("only an operand without faces is made by masking")
        ghost = dict(am, faces=[[0, 0, n - 1]])
        m = build(trimesh, ghost, vis, hasn, False, rs, foff=MAXTAG - 1, voff=voff)
        m.update_faces(np.array([False]))
        if len(m.faces) != 0 or len(m.vertices) != n:
            raise MachineryError("masking the only face away did not leave the vertices")
        if hasn:                                # the stored normals went with the face array: store them again
            m.vertex_normals = NORMS[np.array(am["nc"], dtype=np.int64)]
        return m
    V = np.zeros((n, 3), dtype=np.float64)
    for s, p in enumerate(am["pos"]):
        if p == 0:
            V[s] = NONFINITE[(am["nf_kind"] + s) % len(NONFINITE)]
        else:
            # slots of one position id agree within the merge tolerance, not bit for bit
            V[s] = np.array(XYZ[p]) + (rs.uniform(-2e-9, 2e-9, 3) if rs.rand() < 0.6 else 0.0)
    F = np.array(am["faces"], dtype=np.int64).reshape(-1, 3)
    m = trimesh.Trimesh(vertices=V, faces=F, process=False)
    if len(m.vertices) != n or np.asarray(m.faces).tolist() != F.tolist():
        raise MachineryError("Trimesh(process=False) did not keep the input arrays")
    ft = np.arange(len(F)) + foff
    vt = np.arange(n) + voff
    if vis == "face" and len(F) == 0:
        vis = "none"                            # no face to colour
    if vis == "face":
        m.visual.face_colors = FCOL[ft]
    elif vis == "vertex":
        m.visual.vertex_colors = VCOL[vt]
    elif vis == "texture":
        m.visual = trimesh.visual.TextureVisuals(uv=UVS[np.array(am["uvc"], dtype=np.int64)])
    if vis != "none" and m.visual.kind != vis:
        raise MachineryError(f"could not attach {vis} visuals")
    m.face_attributes["fid"] = ft.copy()
    m.vertex_attributes["vid"] = vt.copy()
    if hasn:
        m.vertex_normals = NORMS[np.array(am["nc"], dtype=np.int64)]
        if m._cache["vertex_normals"] is None:
            raise MachineryError("vertex normals were not stored")
    if pre and len(F) > 0:
        # derived values read before the operation: a stale copy would be carried across it
        m.face_normals
        m.triangles
        m.referenced_vertices
        m.edges_unique
        m.area_faces
        if vis in ("none", "face", "vertex"):
            m.visual.face_colors
            m.visual.vertex_colors
    return m


def project(r, vis, hasn):
    """a returned mesh -> abstract post-state"""
    V = np.asarray(r.vertices, dtype=np.float64).reshape(-1, 3)
    F = np.asarray(r.faces)
    if F.size and F.dtype.kind not in "iu":
        raise TypeError("faces are not integers")
    F = F.astype(np.int64).reshape(-1, 3)
    out = {"ppos": decode_positions(V), "faces": F.tolist(), "kind": str(r.visual.kind)}
    fa = r.face_attributes.get("fid")
    out["fa"] = chan(None if fa is None else [int(x) for x in np.asarray(fa).reshape(-1)])
    va = r.vertex_attributes.get("vid")
    out["va"] = chan(None if va is None else [int(x) for x in np.asarray(va).reshape(-1)])
    out["fc"], out["vc"], out["uv"], out["vn"], out["fn"] = chan(), chan(), chan(), chan(), chan()
    out["fcn"], out["vcn"] = -1, -1
    # values trimesh derives from faces and vertices together are only read from a result whose faces
    # index existing vertices and that is not empty (TLC rejects the former on the index clause; deriving
    # colours for a mesh without faces is not a re-indexing question)
    sound = len(F) > 0 and len(V) > 0 and F.min() >= 0 and F.max() < len(V)
    kind = r.visual.kind
    if kind in (None, "face", "vertex"):
        if kind == "face" or sound:
            fcol = r.visual.face_colors
            out["fcn"] = int(len(fcol))
            if vis == "face" and kind is not None:
                out["fc"] = chan(decode_colors(fcol, FCOL_KEY))
        if kind == "vertex" or sound:
            vcol = r.visual.vertex_colors
            out["vcn"] = int(len(vcol))
            if vis == "vertex" and kind is not None:
                out["vc"] = chan(decode_colors(vcol, VCOL_KEY))
    elif kind == "texture" and vis == "texture":
        uv = r.visual.uv
        if uv is not None and len(uv) > 0:
            out["uv"] = chan(decode_rows(np.asarray(uv).reshape(-1, 2), UVS, 1e-12))
    if not sound:
        return out
    if hasn:
        cached = r._cache["vertex_normals"]
        if cached is not None and np.shape(cached) == V.shape:
            out["vn"] = chan(decode_rows(cached, NORMS, 1e-12))
    fn = np.asarray(r.face_normals, dtype=np.float64)
    fn = np.where(np.isfinite(fn), fn, 0.0)
    out["fn"] = chan([[int(round(x * 1e4)) for x in row] for row in fn.reshape(-1, 3)])
    return out


# ------------------------------------------------------------------ operations
def as_mask(kind, m):
    return np.array(m, dtype=bool) if kind == "b" else np.array(m, dtype=np.int64)


def run_case(trimesh, case, rs):
    """one (mesh, operation, options): returns the record for TLC"""
    am, op, o, vis, hasn, pre = case["am"], case["op"], dict(NO_OPT, **case["o"]), case["vis"], case["hasn"], case["pre"]
    rec = {"op": op, "o": o, "vis": vis, "hasn": hasn, "pre": pre, "exc": "",
           "pos": am["pos"], "faces": am["faces"], "uvc": am["uvc"], "nc": am["nc"],
           "mk": case.get("mk", ""), "mask": case.get("mask", []), "inv": case.get("inv", []),
           "seq": case.get("seq", []), "outs": [], "cat": [], "how": case.get("how", ""),
           "k": case["k"], "nf_kind": am["nf_kind"],
           "cut": [[len(q["pos"]), len(q["faces"]), q.get("made", "")] for q in case["parts"]] if op == "concatenate" else []}
    stage = "build"
    try:
        if op == "concatenate":
            ms, foff, voff = [], 0, 0
            for j, q in enumerate(case["parts"]):
                ms.append(build(trimesh, q, vis, hasn, pre and (j == 0 or case["how"] != "add"), rs,
                                foff=foff, voff=voff, made=q.get("made", "")))
                foff += len(q["faces"])
                voff += len(q["pos"])
            stage = op
            if case["how"] == "add":
                whole = ms[0]
                for mq in ms[1:]:
                    whole = whole + mq
                res = [whole]
            elif case["how"] == "two" and len(ms) == 2:
                res = [trimesh.util.concatenate(ms[0], ms[1])]
            elif case["how"] == "two":
                res = [trimesh.util.concatenate(ms[0], ms[1:])]
            else:
                res = [trimesh.util.concatenate(ms)]
        else:
            m = build(trimesh, am, vis, hasn, pre, rs)
            stage = op
            res = [m]
            if op == "merge_vertices":
                m.merge_vertices(merge_tex=True if o["mt"] else (None, False)[case["k"] % 2],
                                 merge_norm=True if o["mn"] else (False, None)[case["k"] % 2],
                                 digits_vertex=0 if o["dv"] else (None, 8, 6)[case["k"] % 3],
                                 digits_uv=1 if o["du"] else None,
                                 digits_norm=0 if o["dn"] else None)
            elif op == "unmerge_vertices":
                m.unmerge_vertices()
            elif op == "remove_unreferenced_vertices":
                m.remove_unreferenced_vertices()
            elif op == "remove_duplicate_faces":
                if case["k"] % 2:
                    m.remove_duplicate_faces()
                else:
                    m.update_faces(m.unique_faces())
            elif op == "remove_degenerate_faces":
                if case["k"] % 2:
                    m.remove_degenerate_faces()
                else:
                    m.update_faces(m.nondegenerate_faces())
            elif op == "remove_infinite_values":
                m.remove_infinite_values()
            elif op == "update_faces":
                m.update_faces(as_mask(rec["mk"], rec["mask"]))
            elif op == "update_vertices":
                m.update_vertices(as_mask(rec["mk"], rec["mask"]))
            elif op == "update_vertices_inv":
                m.update_vertices(np.array(rec["mask"], dtype=np.int64), inverse=np.array(rec["inv"], dtype=np.int64))
            elif op == "submesh":
                fs = [as_mask(e["k"], e["m"]) if (e["k"] == "b" or case["k"] % 2) else list(e["m"]) for e in rec["seq"]]
                got = m.submesh(fs, append=o["app"], only_watertight=o["ow"], repair=o["rep"])
                res = [got] if o["app"] and not isinstance(got, (list, np.ndarray)) else list(got)
            elif op == "split":
                res = list(m.split(only_watertight=o["ow"], repair=o["rep"]))
                if not o["ow"] and not o["rep"] and len(res) > 0:
                    stage = "concatenate_parts"
                    whole = trimesh.util.concatenate(res)
                    stage = "project_concatenated_parts"
                    rec["cat"] = [project(whole, vis, False)]
            else:
                raise MachineryError("unknown operation " + op)
        stage = "project"
        rec["outs"] = [project(r, vis, hasn) for r in res]
    except MachineryError:
        raise
    except BaseException as e:  # noqa
        rec["exc"] = f"{stage}:{type(e).__name__}"[:40]
        rec["outs"], rec["cat"] = [], []
    return rec


def gen_records(chunk):
    trimesh = import_trimesh()
    logging.getLogger("trimesh").setLevel(logging.CRITICAL)
    warnings.simplefilter("ignore")
    out = []
    with np.errstate(all="ignore"):
        for cid, case in chunk:
            rs = np.random.RandomState((seed() * 7919 + cid * 31 + 5) % (2 ** 31))
            rec = run_case(trimesh, case, rs)
            rec["id"] = cid
            out.append(rec)
    return out


# ------------------------------------------------------------------ abstract meshes
def classes_for(rs, pos):
    """uv / normal class per slot: slots of one position often share it, or differ only in the fine bit"""
    uvc, nc = [], []
    for s, p in enumerate(pos):
        prev = [t for t in range(s) if pos[t] == p or (p and pos[t] and (pos[t] + 1) // 2 == (p + 1) // 2)]
        for lst in (uvc, nc):
            u = rs.rand()
            if prev and u < 0.45:
                lst.append(lst[prev[rs.randint(len(prev))]])
            elif prev and u < 0.7:
                lst.append(lst[prev[rs.randint(len(prev))]] ^ 1)
            else:
                lst.append(int(rs.randint(4)))
        # texture coordinates of a twin one or two whole repeats away (seam vertices)
        if prev and rs.rand() < 0.3:
            uvc[-1] = (uvc[prev[rs.randint(len(prev))]] + 4 * int(rs.randint(1, 3))) % 12
    return uvc, nc


def grown_faces(rs, nf, n, pos):
    faces = []
    for _ in range(nf):
        u = rs.rand()
        if faces and u < 0.40:      # attach along an existing edge
            f = faces[rs.randint(len(faces))]
            j = rs.randint(3)
            a, b = f[j], f[(j + 1) % 3]
            if rs.rand() < 0.7:
                a, b = b, a
            new = [a, b, int(rs.randint(n))]
            r = rs.randint(3)
            new = new[r:] + new[:r]
        elif faces and u < 0.55:    # repeated face: rotated / reversed copy of the same slots
            f = list(faces[rs.randint(len(faces))])
            r = rs.randint(3)
            new = f[r:] + f[:r]
            if rs.rand() < 0.4:
                new = new[::-1]
        elif faces and u < 0.65:    # the same triangle through other slots standing at the same positions
            f = faces[rs.randint(len(faces))]
            new = []
            for s in f:
                twins = [t for t in range(n) if pos[t] == pos[s]]
                new.append(int(twins[rs.randint(len(twins))]))
        elif u < 0.90:
            new = [int(x) for x in rs.choice(n, 3, replace=False)]
        else:                       # any triple, repeated slots included
            new = [int(x) for x in rs.randint(n, size=3)]
        faces.append([int(x) for x in new])
    return faces


def sample_mesh(rs, nmax, nfmax, allow_nonfinite=True):
    n = int(rs.randint(3, nmax + 1))
    nf = int(rs.randint(1, nfmax + 1))
    palette = [1, 3, 5, 7]
    if rs.rand() < 0.35:
        palette.append(9)                       # on the segment between positions 1 and 3
    k = int(rs.randint(2, min(n, len(palette)) + 1))
    used = [int(x) for x in rs.choice(palette, k, replace=False)]
    if rs.rand() < 0.4:                         # a quarter-unit twin of a used position
        used.append(used[rs.randint(len(used))] + 1)
    pos = [used[rs.randint(len(used))] for _ in range(n)]
    for j, p in enumerate(used[:n]):            # every chosen position occurs when there is room
        if p not in pos:
            pos[rs.randint(n)] = p
    if allow_nonfinite and rs.rand() < 0.25:
        pos[rs.randint(n)] = 0
    faces = grown_faces(rs, nf, n, pos)
    uvc, nc = classes_for(rs, pos)
    return {"pos": [int(p) for p in pos], "faces": faces, "uvc": uvc, "nc": nc, "nf_kind": int(rs.randint(4))}


def big_mesh(rs):
    """17..22 faces: one to three triangle strips over disjoint slots (every inner edge in exactly two
    faces, so the strips are the face-connected components), neighbouring triangles at distinct
    positions, the strips interleaved in the face array"""
    ng = int(rs.randint(1, 4))
    nf = int(rs.randint(17, 23 - 2 * (ng - 1)))
    cuts = sorted(int(x) for x in rs.choice(np.arange(3, nf - 2), ng - 1, replace=False)) if ng > 1 else []
    sizes = [b - a for a, b in zip([0] + cuts, cuts + [nf])]
    pos, faces = [], []
    for size in sizes:
        base = len(pos)
        order = [int(x) + 1 for x in rs.permutation(10)]
        pos += [order[j % 10] for j in range(size + 2)]
        for j in range(size):
            f = [base + j, base + j + 1, base + j + 2] if j % 2 == 0 else [base + j + 1, base + j, base + j + 2]
            q = rs.randint(3)
            faces.append(f[q:] + f[:q])
    if rs.rand() < 0.3:                         # an unreferenced slot in the middle
        at = int(rs.randint(len(pos)))
        pos.insert(at, int(rs.randint(1, 11)))
        faces = [[s + (s >= at) for s in f] for f in faces]
    faces = [faces[j] for j in rs.permutation(len(faces))]
    uvc, nc = classes_for(rs, pos)
    return {"pos": pos, "faces": faces, "uvc": uvc, "nc": nc, "nf_kind": 0}


def exhaustive_meshes(rs, nfmax, patterns_all):
    """every mesh of <= nfmax faces over three slots x duplicate pattern of the three positions"""
    pats = [[1, 1, 1], [1, 1, 3], [1, 3, 1], [1, 3, 3], [1, 3, 5]]
    triples = [list(t) for t in itertools.product(range(3), repeat=3)]
    k = 0
    for nf in range(1, nfmax + 1):
        for fs in itertools.product(triples, repeat=nf):
            for pi, pat in enumerate(pats):
                if not patterns_all and nf > 1 and (k + pi) % len(pats):
                    continue                    # larger arrays meet the patterns in rotation
                uvc, nc = classes_for(rs, pat)
                yield {"pos": list(pat), "faces": [list(f) for f in fs], "uvc": uvc, "nc": nc, "nf_kind": 0}
            k += 1


# ------------------------------------------------------------------ operation plans
def rand_bool_mask(rs, n):
    return [int(x) for x in rs.randint(2, size=n)]


def rand_index_mask(rs, n, repeat):
    if repeat:
        return [int(x) for x in rs.randint(n, size=rs.randint(1, n + 3))]
    k = rs.randint(0 if n > 1 else 1, n + 1)
    idx = [int(x) for x in rs.choice(n, k, replace=False)]
    return sorted(idx) if rs.rand() < 0.4 else idx


def vertex_masks(rs, am):
    """(kind, mask): half of them keep every referenced slot (pure re-indexing), half are arbitrary"""
    n = len(am["pos"])
    ref = sorted({s for f in am["faces"] for s in f})
    unref = [s for s in range(n) if s not in ref]
    out = []
    keep = [1 if (s in ref or rs.rand() < 0.4) else 0 for s in range(n)]
    out.append(("b", keep))
    out.append(("b", rand_bool_mask(rs, n)))
    idx = ref + [s for s in unref if rs.rand() < 0.5]
    order = [int(x) for x in rs.permutation(len(idx))]
    out.append(("i", [idx[j] for j in order]))
    rep = [idx[j] for j in order] + [int(idx[rs.randint(len(idx))]) for _ in range(rs.randint(1, 3))]
    out.append(("i", [rep[j] for j in rs.permutation(len(rep))]))
    m = rand_index_mask(rs, n, False)
    if m:
        out.append(("i", m))
    return out


def inverse_plan(rs, am):
    """mask = chosen representatives (any order), inverse = slot -> row of a representative at its position"""
    n = len(am["pos"])
    pos = am["pos"]
    ref = sorted({s for f in am["faces"] for s in f})
    rep = {}
    for s in ref:
        twins = [t for t in range(n) if pos[t] == pos[s] and pos[s] != 0] or [s]
        same = [rep[t] for t in ref if t in rep and pos[t] == pos[s] and pos[s] != 0]
        rep[s] = same[0] if (same and rs.rand() < 0.7) else int(twins[rs.randint(len(twins))])
    chosen = sorted(set(rep.values()))
    extra = [s for s in range(n) if s not in chosen and rs.rand() < 0.3]
    mask = chosen + extra
    mask = [mask[j] for j in rs.permutation(len(mask))]
    inv = [mask.index(rep[s]) if s in rep else 0 for s in range(n)]
    return [int(x) for x in mask], [int(x) for x in inv]


def face_sequences(rs, nf):
    out = []
    for _ in range(rs.randint(1, 4)):
        u = rs.rand()
        if u < 0.3:
            out.append({"k": "b", "m": rand_bool_mask(rs, nf)})
        elif u < 0.65:
            out.append({"k": "i", "m": rand_index_mask(rs, nf, False)})
        elif u < 0.9:
            out.append({"k": "i", "m": rand_index_mask(rs, nf, True)})
        else:
            out.append({"k": "i", "m": []})
    if rs.rand() < 0.25:
        out.append({"k": "i", "m": list(range(nf))})        # the whole mesh as one entry
    return out


def adder(am, k):
    """collects the operation runs of one abstract mesh; visual / normal / pre-read variants rotate"""
    runs = []
    state = [k]

    def add(op, o=None, **kw):
        j = state[0]
        state[0] += 1
        # merging pays attention to uv and stored normals: let it meet them more often
        vis = VISUALS[j % 4] if op != "merge_vertices" else ("texture", "texture", "vertex", "none", "face")[j % 5]
        case = {"am": am, "op": op, "o": o or {}, "vis": vis, "hasn": (j // 4) % 2 == 0, "pre": (j // 2) % 3 == 0, "k": j}
        case.update(kw)
        runs.append(case)

    return runs, add, state


def plan_big(rs, k, am):
    """meshes of more than 16 faces: the sorting routines under split / merge / unique switch algorithm there"""
    nf = len(am["faces"])
    runs, add, _ = adder(am, k)
    add("split", {"ow": False, "rep": False})
    add("split", {"ow": bool(rs.rand() < 0.5), "rep": False})
    add("merge_vertices", {"mt": False, "mn": False, "dv": bool(rs.rand() < 0.3)})
    add("merge_vertices", {"mt": True, "mn": True})
    for op in ("unmerge_vertices", "remove_unreferenced_vertices", "remove_duplicate_faces", "remove_degenerate_faces"):
        add(op)
    add("update_faces", mk="b", mask=rand_bool_mask(rs, nf))
    add("update_faces", mk="i", mask=rand_index_mask(rs, nf, True))
    vm = vertex_masks(rs, am)
    add("update_vertices", mk=vm[0][0], mask=vm[0][1])
    add("update_vertices", mk=vm[2][0], mask=vm[2][1])
    mask, inv = inverse_plan(rs, am)
    add("update_vertices_inv", mk="i", mask=mask, inv=inv)
    add("submesh", {"app": True}, seq=face_sequences(rs, nf)[:2])
    add("submesh", {"app": False}, seq=face_sequences(rs, nf)[:2])
    return runs


def plan_for(rs, k, am, partner, tier):
    """the operation runs of one abstract mesh"""
    nf = len(am["faces"])
    n = len(am["pos"])
    runs, add, state = adder(am, k)
    # quick tier: the three-slot meshes of the exhaustive family meet the operations, masks and option
    # combinations in rotation (about half of the plan each); every other mesh gets the whole plan
    light = tier == "quick" and n <= 3 and nf <= 2
    turn = [k]

    def take(period=2):
        turn[0] += 1
        return not light or turn[0] % period == 0

    for mt, mn in itertools.product((False, True), repeat=2):
        if take(4):
            add("merge_vertices", {"mt": mt, "mn": mn, "dv": bool(rs.rand() < 0.3), "du": bool(rs.rand() < 0.3),
                                   "dn": bool(rs.rand() < 0.3)})
    for op in ("unmerge_vertices", "remove_unreferenced_vertices", "remove_duplicate_faces",
               "remove_degenerate_faces", "remove_infinite_values"):
        if take():
            add(op)
    fm = [("b", rand_bool_mask(rs, nf)), ("i", rand_index_mask(rs, nf, False)), ("i", rand_index_mask(rs, nf, True))]
    if nf <= 2:
        fm += [("b", list(b)) for b in itertools.product((0, 1), repeat=nf)]
    else:
        fm.append(("b", rand_bool_mask(rs, nf)))
    for kind, mask in fm:
        if take():
            add("update_faces", mk=kind, mask=mask)
    for kind, mask in vertex_masks(rs, am):
        if take():
            add("update_vertices", mk=kind, mask=mask)
    mask, inv = inverse_plan(rs, am)
    if take():
        add("update_vertices_inv", mk="i", mask=mask, inv=inv)
    for app, ow in itertools.product((True, False), (False, True)):
        if take(4):
            add("submesh", {"app": app, "ow": ow, "rep": bool(rs.rand() < 0.25)}, seq=face_sequences(rs, nf))
    if take():
        add("split", {"ow": False, "rep": False})
    if take():
        add("split", {"ow": True, "rep": False})
    if rs.rand() < 0.3 and not light:
        add("split", {"ow": False, "rep": True})
    # concatenation: the record carries the inputs stacked into one original
    if take():
        runs.append(concat_case(state, [am, partner]))
    # ... with an operand that has vertices but no faces (made directly, or left over when every face was
    # masked away) or nothing at all, in first / middle / last place
    if take():
        u = rs.rand()
        bare = {"pos": [int(p) for p in rs.choice([1, 3, 5, 7, 9], rs.randint(1, 4))], "faces": [], "nf_kind": 0,
                "made": "masked" if rs.rand() < 0.5 else ""}
        bare["uvc"], bare["nc"] = classes_for(rs, bare["pos"])
        none = {"pos": [], "faces": [], "uvc": [], "nc": [], "nf_kind": 0}
        c = none if u < 0.2 else bare
        order = ([c, am], [am, c, partner], [am, partner, c], [c, am, partner], [am, c], [bare, none, am])[(k + turn[0]) % 6]
        runs.append(concat_case(state, order))
    return runs


def concat_case(state, parts):
    j = state[0]
    state[0] += 1
    both = {"pos": [], "uvc": [], "nc": [], "faces": [], "nf_kind": parts[0]["nf_kind"]}
    for q in parts:
        off = len(both["pos"])
        both["faces"] += [[s + off for s in f] for f in q["faces"]]
        for key in ("pos", "uvc", "nc"):
            both[key] = both[key] + q[key]
    return {"am": both, "op": "concatenate", "o": {}, "vis": VISUALS[j % 4], "hasn": (j // 4) % 2 == 0,
            "pre": (j // 2) % 3 == 0, "k": j, "parts": list(parts), "how": ("list", "add", "two")[j % 3]}


def work_items(tier):
    rs = np.random.RandomState(seed() + 707)
    meshes = []
    if tier == "thorough":
        meshes += [("exh", m) for m in exhaustive_meshes(rs, 2, True)]
        meshes += [("rnd", sample_mesh(rs, 6, 4)) for _ in range(12000)]
        meshes += [("mid", sample_mesh(rs, 8, 6)) for _ in range(1000)]
        meshes += [("big", big_mesh(rs)) for _ in range(1500)]
    else:
        meshes += [("exh", m) for m in exhaustive_meshes(rs, 2, False)]
        meshes += [("rnd", sample_mesh(rs, 6, 4)) for _ in range(380)]
        meshes += [("mid", sample_mesh(rs, 8, 6)) for _ in range(50)]
        meshes += [("big", big_mesh(rs)) for _ in range(40)]
    cases = []
    fam = {}
    for k, (family, am) in enumerate(meshes):
        if family == "big":
            runs = plan_big(rs, k, am)
        else:
            partner = sample_mesh(rs, 4, 2, allow_nonfinite=rs.rand() < 0.3)
            runs = plan_for(rs, k, am, partner, tier)
        fam[family] = fam.get(family, 0) + 1
        for r in runs:
            r["family"] = family
        cases += runs
    return cases, fam


# ------------------------------------------------------------------ deviations (predicates on the input)
def dropped_referenced(c):
    n = len(c["pos"])
    if c["op"] == "remove_infinite_values":
        kept = {s for s in range(n) if c["pos"][s] != 0}
    elif c["op"] == "update_vertices":
        kept = {s for s in range(n) if c["mask"][s]} if c["mk"] == "b" else set(c["mask"])
    else:
        return False
    return any(s not in kept for f in c["faces"] for s in f)


def deviation_of(c, clause):
    """known defect explaining a rejection of record c, decided on the input and the operation"""
    if c["op"] in ("submesh", "split") and c["vis"] == "face" and clause == "face_color" \
            and c["outs"] and all(o["kind"] == "vertex" for o in c["outs"]):
        return "FaceSubsetTurnsFaceColorsIntoVertexColors"
    if c["op"] == "split" and len(c["faces"]) >= 2 and clause == "relative_order":
        # connected_components groups the face labels with numpy's default sort, which is not stable
        return "SplitScramblesFaceOrderInsideParts"
    if c["op"] == "remove_infinite_values" and dropped_referenced(c) \
            and clause in ("surviving_face_set", "faces_index_existing_vertices"):
        return "RemoveInfiniteValuesKeepsDanglingFaces"
    if c["op"] == "update_vertices" and dropped_referenced(c) \
            and clause in ("surviving_face_set", "faces_index_existing_vertices"):
        return "UpdateVerticesKeepsDanglingFaces"
    return None


def replay_cases(path):
    """the cases of a replay file written by an earlier run, rebuilt from the recorded inputs"""
    import json
    out = []
    for v in json.load(open(path))["violations"]:
        d = v["detail"]
        am = {"pos": d["pos"], "faces": d["faces"], "uvc": d["uvc"], "nc": d["nc"], "nf_kind": d["nf_kind"]}
        case = {"am": am, "op": d["op"], "o": d["o"], "vis": d["vis"], "hasn": d["hasn"], "pre": d["pre"], "k": d["k"],
                "mk": d["mk"], "mask": d["mask"], "inv": d["inv"], "seq": d["seq"], "how": d["how"], "family": "replay"}
        if d["op"] == "concatenate":
            parts, v0, f0 = [], 0, 0
            for nq, nfq, made in d["cut"]:
                parts.append({"pos": d["pos"][v0:v0 + nq], "uvc": d["uvc"][v0:v0 + nq], "nc": d["nc"][v0:v0 + nq],
                              "faces": [[x - v0 for x in f] for f in d["faces"][f0:f0 + nfq]],
                              "nf_kind": d["nf_kind"], "made": made})
                v0 += nq
                f0 += nfq
            case["parts"] = parts
        out.append(case)
    return out


def input_stats(cases):
    st = {"duplicated_position": 0, "unreferenced_slot": 0, "repeated_face_slot_set": 0, "repeated_slot_in_face": 0,
          "non_finite_slot": 0, "quarter_unit_twin": 0, "collinear_position_used": 0, "geometric_duplicate_face": 0}
    seen = set()
    for c in cases:
        key = (tuple(c["pos"]), tuple(map(tuple, c["faces"])))
        if key in seen:
            continue
        seen.add(key)
        pos, fs = c["pos"], c["faces"]
        fin = [p for p in pos if p]
        st["duplicated_position"] += len(set(fin)) < len(fin)
        st["unreferenced_slot"] += len({s for f in fs for s in f}) < len(pos)
        st["repeated_face_slot_set"] += len({frozenset(f) for f in fs}) < len(fs)
        st["repeated_slot_in_face"] += any(len(set(f)) < 3 for f in fs)
        st["non_finite_slot"] += 0 in pos
        st["quarter_unit_twin"] += any(p % 2 == 0 and p - 1 in fin for p in fin)
        st["collinear_position_used"] += 9 in fin
        geo = [tuple(sorted(pos[s] for s in f)) for f in fs]
        st["geometric_duplicate_face"] += len(set(geo)) < len(geo)
    st = {k: int(v) for k, v in st.items()}
    st["distinct_abstract_meshes"] = len(seen)
    return st


def check_clause_names():
    text = open(os.path.join(SPEC_DIR, "Reindex.tla")).read()
    text = text[text.index("Clause(c) =="):]
    lits = re.findall(r'THEN \(?(?:IF .*? THEN )?"([a-z_]+)"', text) + re.findall(r'ELSE "([a-z_]+)"', text)
    if len(lits) < 20 or max(map(len, lits)) > 44:
        raise MachineryError("a clause name in Reindex.tla is missing or too long for one TLC output line")


def main(argv):
    tier = tier_from_args(argv)
    V = Verdict(PROP, tier)
    import_trimesh()
    check_clause_names()
    replay = "--replay" in argv
    if replay:
        cases = replay_cases(argv[argv.index("--replay") + 1])
        fam = {"replay": len(cases)}
    else:
        cases, fam = work_items(tier)
    if len(cases) < (1 if replay else 5000):
        raise MachineryError("too few cases enumerated")
    items = list(enumerate(cases))
    round_size = 64000
    # 16 single-worker TLC shards run at once: keep each JVM small (the default heap limit is a quarter of
    # the machine's memory per JVM); tlc.run hands the environment on to the JVM
    os.environ.setdefault("JAVA_TOOL_OPTIONS", "-Xmx2500m")
    states, wall, total, nrej = 0, 0.0, 0, 0
    byop, byvis, byclause, bydev, raised, unattributed = {}, {}, {}, {}, {}, {}
    stats, samples = {}, []
    exercised = {"faces_dropped": 0, "vertices_merged": 0, "several_parts": 0, "parts_dropped_not_watertight": 0,
                 "face_color_channel": 0, "vertex_color_channel": 0, "uv_channel": 0, "vertex_normal_channel": 0,
                 "face_attribute_channel": 0, "vertex_attribute_channel": 0, "hole_filled": 0,
                 "meshes_of_more_than_16_faces": 0}
    for r0 in range(0, len(items), round_size):
        part = items[r0:r0 + round_size]
        res = pmap(gen_records, part, chunk=max(40, min(600, len(part) // 96 + 1)))
        recs = [c for r in res for c in r]
        if len(recs) != len(part):
            raise MachineryError("lost records")
        slim = [{k: v for k, v in c.items() if k not in ("pre", "how", "k", "nf_kind", "cut")} for c in recs]
        rejects, st, w = tlc.validate_batches("c07", "Reindex", slim, CFG, timeout=2400)
        states += st
        wall += w
        total += len(recs)
        byid = {c["id"]: c for c in recs}
        for cid, clause in sorted(rejects.items()):
            c = byid[cid]
            nrej += 1
            dev = deviation_of(c, clause)
            byclause[clause] = byclause.get(clause, 0) + 1
            if dev:
                bydev[dev] = bydev.get(dev, 0) + 1
            else:
                unattributed[f"{c['op']}:{clause}"] = unattributed.get(f"{c['op']}:{clause}", 0) + 1
            detail = {k: v for k, v in c.items() if k != "id"}
            detail["family"] = cases[cid]["family"]
            V.violation(f"{c['op']}:{clause}", detail, dev)
        for c in recs:
            byop[c["op"]] = byop.get(c["op"], 0) + 1
            byvis[c["vis"]] = byvis.get(c["vis"], 0) + 1
            if c["exc"]:
                raised[c["exc"]] = raised.get(c["exc"], 0) + 1
                continue
            outs = c["outs"]
            nf_out = sum(len(o["faces"]) for o in outs)
            exercised["faces_dropped"] += c["op"] != "submesh" and nf_out < len(c["faces"])
            exercised["vertices_merged"] += c["op"] == "merge_vertices" and bool(outs) and \
                len(outs[0]["ppos"]) < len({s for f in c["faces"] for s in f})
            exercised["several_parts"] += len(outs) > 1
            exercised["parts_dropped_not_watertight"] += bool(c["o"]["ow"] and not c["o"]["app"] and c["op"] == "split" and not outs)
            exercised["meshes_of_more_than_16_faces"] += len(c["faces"]) > 16
            exercised["hole_filled"] += c["op"] == "split" and nf_out > len(c["faces"])
            for name, key in (("face_color_channel", "fc"), ("vertex_color_channel", "vc"), ("uv_channel", "uv"),
                              ("vertex_normal_channel", "vn"), ("face_attribute_channel", "fa"),
                              ("vertex_attribute_channel", "va")):
                exercised[name] += any(o[key]["has"] and len(o[key]["v"]) > 0 for o in outs)
        for k, v in input_stats(recs).items():
            stats[k] = stats.get(k, 0) + v
        samples += [recs[len(recs) // 5], recs[len(recs) // 2], recs[-1]]
    exercised = {k: int(v) for k, v in exercised.items()}
    if not replay and (min(exercised["faces_dropped"], exercised["vertices_merged"], exercised["several_parts"],
           exercised["face_color_channel"], exercised["vertex_color_channel"], exercised["uv_channel"],
           exercised["vertex_normal_channel"], exercised["face_attribute_channel"],
           exercised["vertex_attribute_channel"], exercised["meshes_of_more_than_16_faces"]) < 50 or min(stats.values()) < 20 or len(byop) < 12):
        raise MachineryError(f"enumeration nearly empty: {exercised} {stats} {byop}")
    cov = {
        "states": states, "transitions": states,
        "traces_validated_against_impl": total,
        "abstract_meshes_per_family": fam,
        "records_per_operation": byop,
        "records_per_visual": byvis,
        "inputs": stats,
        "exercised": exercised,
        "exceptions_observed": raised,
        "rejected": nrej,
        "rejected_per_clause": byclause,
        "rejected_per_deviation": bydev,
        "rejected_without_deviation": unattributed,
        "exhaustive": False,
        "exhaustive_scope": "every mesh of one face over three slots x the five duplicate patterns of their positions; "
                      "two-face meshes over three slots " + ("x all five patterns, whole operation plan" if tier == "thorough"
                                                                    else "with patterns and operations in rotation"),
        "tlc_wall_s": round(wall, 1),
        "samples": samples[:4],
    }
    return V.finish("model_checking", cov, assumptions=[
        "small scope: <= 4 faces over <= 6 vertex slots over <= 5 lattice positions (4 in general position, one on a "
        "segment) with quarter-unit twins and one NaN/inf slot; plus meshes of <= 6 faces over <= 8 slots and of "
        "17..22 faces over <= 25 slots (numpy sorts change algorithm with the array length)",
        "slots of one position id differ by < 2e-9 (inside tol.merge); quarter-unit twins merge only at digits_vertex=0",
        "option values: digits_vertex in {None, 8, 6, 0}, digits_uv in {None, 1}, digits_norm in {None, 0}; "
        "merge_tex / merge_norm in {None, False, True}; only_watertight, append, repair in {False, True}",
        "not constrained: unreferenced vertices after merge / face masking / submesh, the representative of a merged "
        "group, faces with a non-finite corner under remove_degenerate_faces, attributes and normals an operation "
        "drops, faces appended by hole filling, corner order inside a face beyond its cyclic order, empty integer "
        "vertex masks (update_vertices returns early on them)",
    ])


if __name__ == "__main__":
    try:
        sys.exit(main(sys.argv[1:]))
    except MachineryError as e:
        print("MACHINERY-ERROR:", e)
        sys.exit(2)
