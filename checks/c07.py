"""C07 - re-indexing operations never move triangles or misalign attached data.

Reference semantics: spec/Reindex.tla.  Every re-indexing operation is a relation between an
abstract pre-state (vertex slots with position ids, faces as slot triples, uv / normal classes)
and the observed post-state; TLC decides for every recorded (pre, operation, options, post)
whether the relation holds and names the failing clause.

code -> spec: Python enumerates abstract meshes (every mesh of one or two faces over three slots
and every duplicate pattern of their positions, seeded meshes of up to 4 - 6 faces with duplicated
and unreferenced slots, repeated / reversed / degenerate / collinear faces and a NaN / inf slot,
and interleaved triangle strips of 17 - 22 faces, where numpy's sorts behave differently),
builds trimesh.Trimesh(process=False) with identity tags attached (face attribute and face colour
= original face index, vertex attribute and vertex colour = original slot, uv / stored vertex
normal = class of the slot), runs one operation with one option combination, projects every
returned mesh back to abstract form (position id of each vertex looked up from its coordinates,
tags decoded from colours / attributes / uv / normals) and records.  Python computes no expected
value.  A rejection is attributed to a known defect by a predicate on the input and the operation,
restricted to the clause that defect breaks (for the face_subset defect also to results that came
back with vertex colours); everything else is an unexplained violation.

Added by the coverage audit (the enumeration used to reach the anchored code through one entry point, one
mask type and one fresh object per record):
* process - Trimesh.process(validate, merge_tex, merge_norm) on a mesh and through the constructor (with and
  without face normals handed in, as the STL loader does); it runs the merge under the cache lock, which is the
  only place where assigned vertex normals survive a merge, so the normal channel is really exercised there;
* masks as int8..int64 / uint8..uint64 arrays and plain lists; split engines default / scipy / networkx;
  concatenation through a Scene; identity attributes stored as 2-D float arrays next to entries that are not
  per-row data;
* histories - two operations on one object with reads of derived values in between (second one recorded,
  judged on the state re-read from the object and freshly tagged);
* presence - an in-place operation must leave every attached channel attached (the alignment clauses are
  vacuous for a channel that vanished); the assigned-normal clause comes last so it never hides another one.
`--ops a,b` restricts a run to some operations (development aid, guards off).
"""
import itertools
import logging
import os
import re
import sys
import warnings

import numpy as np

from harness import tlc
from harness.common import (SPEC_DIR, MachineryError, Verdict, import_trimesh, pmap, seed,
                            tier_from_args)

PROP = "C07"
CFG = "INIT Init\nNEXT Next\nINVARIANT Report\nINVARIANT RefSane\nCHECK_DEADLOCK FALSE\n"
VISUALS = ("none", "face", "vertex", "texture")
NO_OPT = {"mt": False, "mn": False, "dv": False, "du": False, "dn": False,
          "app": False, "ow": False, "rep": False, "val": False}
# how an integer / boolean mask is handed over (the statement says "all boolean and integer masks")
INT_KINDS = ("int64", "int32", "uint8", "uint32", "uint64", "list", "int16", "uint16")
BOOL_KINDS = ("bool", "list")
ENGINES = (None, "scipy", "networkx")
# derived values read before an operation (a stale copy would be carried across it)
PRE_READS = ("face_normals", "triangles", "referenced_vertices", "edges_unique", "area_faces", "face_adjacency",
             "is_winding_consistent", "vertex_faces", "face_angles")


# ------------------------------------------------------------------ tag encodings
def position_table():
    """fine position id (1-based) -> coordinates, read from the specification's own table"""
    text = open(os.path.join(SPEC_DIR, "Reindex.tla")).read()
    m = re.search(r"^Lattice4 == <<(.*)>>\s*$", text, re.M)
    s = re.search(r"^Sub4 == <<\s*(\d+),\s*(\d+),\s*(\d+)\s*>>\s*$", text, re.M)
    if not m or not s:
        raise MachineryError("position table not found in Reindex.tla")
    rows = [tuple(int(x) for x in r) for r in re.findall(r"<<\s*(-?\d+),\s*(-?\d+),\s*(-?\d+)\s*>>", m.group(1))]
    sub = tuple(int(x) for x in s.groups())
    if len(rows) != 5:
        raise MachineryError("unexpected position table")
    out = [None]
    for r in rows:
        for b in (0, 1):
            out.append(tuple((r[k] + b * sub[k]) / 4.0 for k in range(3)))
    return out


XYZ = position_table()
XYZ_ARR = np.array(XYZ[1:], dtype=np.float64)
MAXTAG = 32
FCOL = np.array([[(17 * t + 3) % 256, (200 - 7 * t) % 256, (5 + 29 * t) % 256, 255] for t in range(MAXTAG)], dtype=np.uint8)
VCOL = np.array([[(90 + 13 * t) % 256, (31 * t + 7) % 256, (250 - 9 * t) % 256, 255] for t in range(MAXTAG)], dtype=np.uint8)
FCOL_KEY = {tuple(int(x) for x in c): k for k, c in enumerate(FCOL)}
VCOL_KEY = {tuple(int(x) for x in c): k for k, c in enumerate(VCOL)}
# uv / normal classes 0..3: class div 2 is what is left at coarse digits
# classes 4..11 are classes 0..3 moved by whole texture repeats (seam columns, tiled coordinates): different
# texture coordinates all the same; class 4 + b = class b + (1, 0) and 8 + b = class b + (2, 0) for b in 0..1,
# 4 + b = class b + (0, 1) and 8 + b = class b + (0, -1) for b in 2..3
_UV0 = [[0.2 * (u // 2) + 0.004 * (u % 2), 0.1 * (u // 2) + 0.02] for u in range(4)]
_SHIFT = {4: ((1, 0), (0, 1)), 8: ((2, 0), (0, -1))}
UVS = np.array(_UV0 + [[_UV0[b][0] + _SHIFT[g][b // 2][0], _UV0[b][1] + _SHIFT[g][b // 2][1]]
                       for g in (4, 8) for b in range(4)], dtype=np.float64)
_T = 0.1
NORMS = np.array([[1, 0, 0], [np.cos(_T), np.sin(_T), 0], [0, 0, 1], [0, np.sin(_T), np.cos(_T)]], dtype=np.float64)
NONFINITE = ([np.nan, 0.5, 0.5], [np.inf, 0.5, 0.5], [0.5, -np.inf, 0.5], [np.nan, np.nan, np.nan])
if len(FCOL_KEY) != MAXTAG or len(VCOL_KEY) != MAXTAG or set(FCOL_KEY) & set(VCOL_KEY):
    raise MachineryError("tag colours are not distinct")


def chan(values=None):
    return {"has": values is not None, "v": [] if values is None else values}


def decode_rows(arr, table, tol):
    """row -> index of the equal row of `table`, -1 if there is none"""
    arr = np.asarray(arr, dtype=np.float64)
    out = []
    for row in arr:
        if not np.isfinite(row).all():
            out.append(-1)
            continue
        d = np.abs(table - row).max(axis=1)
        k = int(d.argmin())
        out.append(k if d[k] <= tol else -1)
    return out


def decode_positions(V):
    out = []
    for row in np.asarray(V, dtype=np.float64):
        if not np.isfinite(row).all():
            out.append(0)
            continue
        d = np.abs(XYZ_ARR - row).max(axis=1)
        k = int(d.argmin())
        out.append(k + 1 if d[k] < 1e-6 else -1)
    return out


def decode_colors(arr, key):
    return [key.get(tuple(int(x) for x in row), -1) for row in np.asarray(arr)]


# ------------------------------------------------------------------ concrete meshes
def tag_array(tags, form):
    """the identity attribute as the user may store it: a plain integer vector, or one column of a 2-D float array"""
    if form & 1:
        return np.column_stack([tags.astype(np.float64), np.full(len(tags), 0.5)])
    return tags.astype(np.int64).copy()


def tag_values(arr):
    vals = np.asarray(arr)
    if vals.size == 0:
        return []
    if vals.ndim > 1:
        vals = vals.reshape(len(vals), -1)[:, 0]
    return [int(round(float(x))) for x in vals]


def build(trimesh, am, vis, hasn, pre, rs, foff=0, voff=0, made="", form=0):
    """abstract mesh -> Trimesh(process=False) with identity tags attached.  An abstract mesh without faces
    is made directly or (made = "masked") by masking away the only face of a mesh; one without slots is
    trimesh.Trimesh()."""
    n = len(am["pos"])
    if n == 0:
        m = trimesh.Trimesh()
        if vis == "texture":
            # the same (empty) material as the other operands: concatenating different materials packs
            # them into an atlas and rewrites every uv, which is not a re-indexing question
            m.visual = trimesh.visual.TextureVisuals(uv=np.zeros((0, 2)))
        return m
    if made == "masked":
        if am["faces"]:
            raise MachineryError("only an operand without faces is made by masking")
        ghost = dict(am, faces=[[0, 0, n - 1]])
        m = build(trimesh, ghost, vis, hasn, False, rs, foff=MAXTAG - 1, voff=voff)
        m.update_faces(np.array([False]))
        if len(m.faces) != 0 or len(m.vertices) != n:
            raise MachineryError("masking the only face away did not leave the vertices")
        if hasn:                                # the stored normals went with the face array: store them again
            m.vertex_normals = NORMS[np.array(am["nc"], dtype=np.int64)]
        return m
    V, F = arrays(am, rs)
    m = trimesh.Trimesh(vertices=V, faces=F, process=False)
    if len(m.vertices) != n or np.asarray(m.faces).tolist() != F.tolist():
        raise MachineryError("Trimesh(process=False) did not keep the input arrays")
    attach(trimesh, m, am, vis, hasn, foff, voff, form)
    if pre:
        read_derived(m, vis)
    return m


def arrays(am, rs):
    n = len(am["pos"])
    V = np.zeros((n, 3), dtype=np.float64)
    for s, p in enumerate(am["pos"]):
        if p == 0:
            V[s] = NONFINITE[(am["nf_kind"] + s) % len(NONFINITE)]
        else:
            # slots of one position id agree within the merge tolerance, not bit for bit
            V[s] = np.array(XYZ[p]) + (rs.uniform(-2e-9, 2e-9, 3) if rs.rand() < 0.6 else 0.0)
    return V, np.array(am["faces"], dtype=np.int64).reshape(-1, 3)


def attach(trimesh, m, am, vis, hasn, foff=0, voff=0, form=0):
    """identity tags of the abstract mesh `am` on the mesh object m (fresh, or left by an earlier operation)"""
    nf, n = len(am["faces"]), len(am["pos"])
    ft = np.arange(nf) + foff
    vt = np.arange(n) + voff
    if vis == "face" and nf == 0:
        vis = "none"                            # no face to colour
    if vis == "face":
        m.visual.face_colors = FCOL[ft]
    elif vis == "vertex":
        m.visual.vertex_colors = VCOL[vt]
    elif vis == "texture":
        m.visual = trimesh.visual.TextureVisuals(uv=UVS[np.array(am["uvc"], dtype=np.int64)])
        if form & 2:
            # a second per-vertex channel next to the uv rows (the glTF loader stores COLOR_0 of a textured
            # primitive this way)
            m.visual.vertex_attributes["tag"] = vt.astype(np.int64).copy()
    if vis != "none" and m.visual.kind != vis:
        raise MachineryError(f"could not attach {vis} visuals")
    m.face_attributes["fid"] = tag_array(ft, form)
    m.vertex_attributes["vid"] = tag_array(vt, form)
    if form & 1:
        # entries that are not one-row-per-element data must be left alone by every operation
        m.face_attributes["scale"] = 2.5
        m.face_attributes["other"] = np.arange(nf + 2)
        m.vertex_attributes["scale"] = 2.5
        m.vertex_attributes["other"] = np.arange(n + 2)
    if hasn:
        m.vertex_normals = NORMS[np.array(am["nc"], dtype=np.int64)]
        if m._cache["vertex_normals"] is None:
            raise MachineryError("vertex normals were not stored")


def read_derived(m, vis):
    if len(m.faces) == 0:
        return
    for name in PRE_READS:
        getattr(m, name)
    if vis in ("none", "face", "vertex"):
        m.visual.face_colors
        m.visual.vertex_colors


def build_by_constructor(trimesh, am, vis, hasn, rs, o, k, with_face_normals, form=0):
    """the same tagged mesh handed to the constructor with processing on (what every loader does): the
    constructor stores visuals, normals and attributes and then calls process()"""
    V, F = arrays(am, rs)
    ft, vt = np.arange(len(F)), np.arange(len(V))
    kw = {"vertices": V, "faces": F, "process": True, "validate": bool(o["val"]),
          "merge_tex": True if o["mt"] else (None, False)[k % 2], "merge_norm": True if o["mn"] else (False, None)[k % 2],
          "face_attributes": {"fid": tag_array(ft, form)}, "vertex_attributes": {"vid": tag_array(vt, form)}}
    if vis == "face":
        kw["face_colors"] = FCOL[ft]
    elif vis == "vertex":
        kw["vertex_colors"] = VCOL[vt]
    elif vis == "texture":
        kw["visual"] = trimesh.visual.TextureVisuals(uv=UVS[np.array(am["uvc"], dtype=np.int64)])
        if form & 2:
            kw["visual"].vertex_attributes["tag"] = vt.astype(np.int64).copy()
    if hasn:
        kw["vertex_normals"] = NORMS[np.array(am["nc"], dtype=np.int64)]
    if with_face_normals:                       # a file format that stores them (STL)
        kw["face_normals"] = np.array(trimesh.Trimesh(vertices=V.copy(), faces=F.copy(), process=False).face_normals)
    return trimesh.Trimesh(**kw)


def project(r, vis, hasn, sign_free=False):
    """a returned mesh -> abstract post-state.  sign_free: process(validate=True) may turn an inside-out
    body around (fix_normals -> invert), which negates the assigned vertex normals with the winding: a
    negated normal is still the normal of its class there"""
    V = np.asarray(r.vertices, dtype=np.float64).reshape(-1, 3)
    F = np.asarray(r.faces)
    if F.size and F.dtype.kind not in "iu":
        raise TypeError("faces are not integers")
    F = F.astype(np.int64).reshape(-1, 3)
    out = {"ppos": decode_positions(V), "faces": F.tolist(), "kind": str(r.visual.kind)}
    fa = r.face_attributes.get("fid")
    out["fa"] = chan(None if fa is None else tag_values(fa))
    va = r.vertex_attributes.get("vid")
    out["va"] = chan(None if va is None else tag_values(va))
    out["fc"], out["vc"], out["uv"], out["vn"], out["fn"] = chan(), chan(), chan(), chan(), chan()
    # xa: a second per-vertex channel kept by a texture visual next to uv; dfc / dvc: the colour kind the
    # library derives from the stored one, read through the public accessor
    out["xa"], out["dfc"], out["dvc"] = chan(), chan(), chan()
    out["fcn"], out["vcn"] = -1, -1
    # values trimesh derives from faces and vertices together are only read from a result whose faces
    # index existing vertices and that is not empty (TLC rejects the former on the index clause; deriving
    # colours for a mesh without faces is not a re-indexing question)
    sound = len(F) > 0 and len(V) > 0 and F.min() >= 0 and F.max() < len(V)
    kind = r.visual.kind
    if kind in (None, "face", "vertex"):
        if kind == "face" or sound:
            fcol = r.visual.face_colors
            out["fcn"] = int(len(fcol))
            if vis == "face" and kind is not None:
                out["fc"] = chan(decode_colors(fcol, FCOL_KEY))
            elif vis == "vertex" and kind == "vertex" and sound:
                out["dfc"] = chan([[int(x) for x in row] for row in np.asarray(fcol).reshape(-1, 4)])
        if kind == "vertex" or sound:
            vcol = r.visual.vertex_colors
            out["vcn"] = int(len(vcol))
            if vis == "vertex" and kind is not None:
                out["vc"] = chan(decode_colors(vcol, VCOL_KEY))
            elif vis == "face" and kind == "face" and sound:
                out["dvc"] = chan([[int(x) for x in row] for row in np.asarray(vcol).reshape(-1, 4)])
    elif kind == "texture" and vis == "texture":
        uv = r.visual.uv
        if uv is not None and len(uv) > 0:
            out["uv"] = chan(decode_rows(np.asarray(uv).reshape(-1, 2), UVS, 1e-12))
        extra = r.visual.vertex_attributes.get("tag")
        if extra is not None and len(extra) > 0:
            out["xa"] = chan(tag_values(extra))
    if not sound:
        return out
    if hasn:
        cached = r._cache["vertex_normals"]
        if cached is not None and np.shape(cached) == V.shape:
            got = decode_rows(cached, NORMS, 1e-12)
            if sign_free:
                neg = decode_rows(-np.asarray(cached, dtype=np.float64), NORMS, 1e-12)
                got = [g if g >= 0 else h for g, h in zip(got, neg)]
            out["vn"] = chan(got)
    fn = np.asarray(r.face_normals, dtype=np.float64)
    fn = np.where(np.isfinite(fn), fn, 0.0)
    out["fn"] = chan([[int(round(x * 1e4)) for x in row] for row in fn.reshape(-1, 3)])
    return out


# ------------------------------------------------------------------ operations
def as_mask(kind, m, how=""):
    """the mask as the caller hands it over: numpy array of some boolean / integer type, or a plain list"""
    if kind == "b":
        return [bool(x) for x in m] if how == "list" else np.array(m, dtype=bool)
    if how == "list" and len(m) > 0:
        return [int(x) for x in m]
    dt = np.dtype(how) if how and how != "list" else np.dtype(np.int64)
    if len(m) and max(m) > np.iinfo(dt).max:
        dt = np.dtype(np.int64)
    return np.array(m, dtype=dt)


IN_PLACE = ("merge_vertices", "unmerge_vertices", "remove_unreferenced_vertices", "remove_duplicate_faces",
            "remove_degenerate_faces", "remove_infinite_values", "update_faces", "update_vertices",
            "update_vertices_inv", "process")


def apply_in_place(m, op, o, k, mk="", mask=(), inv=(), mdt=""):
    if op == "merge_vertices":
        m.merge_vertices(merge_tex=True if o["mt"] else (None, False)[k % 2],
                         merge_norm=True if o["mn"] else (False, None)[k % 2],
                         digits_vertex=0 if o["dv"] else (None, 8, 6)[k % 3],
                         digits_uv=1 if o["du"] else None,
                         digits_norm=0 if o["dn"] else None)
    elif op == "process":
        m.process(validate=bool(o["val"]), merge_tex=True if o["mt"] else (None, False)[k % 2],
                  merge_norm=True if o["mn"] else (False, None)[k % 2])
    elif op == "unmerge_vertices":
        m.unmerge_vertices()
    elif op == "remove_unreferenced_vertices":
        m.remove_unreferenced_vertices()
    elif op == "remove_duplicate_faces":
        if k % 2:
            m.remove_duplicate_faces()
        else:
            m.update_faces(m.unique_faces())
    elif op == "remove_degenerate_faces":
        if k % 2:
            m.remove_degenerate_faces()
        else:
            m.update_faces(m.nondegenerate_faces())
    elif op == "remove_infinite_values":
        m.remove_infinite_values()
    elif op == "update_faces":
        m.update_faces(as_mask(mk, mask, mdt))
    elif op == "update_vertices":
        m.update_vertices(as_mask(mk, mask, mdt))
    elif op == "update_vertices_inv":
        m.update_vertices(as_mask("i", mask, mdt), inverse=np.array(inv, dtype=np.int64))
    else:
        raise MachineryError("unknown operation " + op)


def abstract_after(m, am0, vis, hasn):
    """the abstract mesh a mesh object stands for after an earlier (unrecorded) operation: positions and faces
    as they are, uv / normal classes handed down through the vertex tag; None when the object cannot serve
    as a pre-state (no face left, a vertex at an unknown position, faces pointing outside, tags lost)"""
    V = np.asarray(m.vertices, dtype=np.float64).reshape(-1, 3)
    F = np.asarray(m.faces, dtype=np.int64).reshape(-1, 3)
    vid = m.vertex_attributes.get("vid")
    if len(F) == 0 or len(V) == 0 or len(F) >= MAXTAG or len(V) >= MAXTAG or F.min() < 0 or F.max() >= len(V):
        return None
    if vid is None or len(vid) != len(V):
        return None
    vid = tag_values(vid)
    if min(vid) < 0 or max(vid) >= len(am0["pos"]):
        return None
    pos = decode_positions(V)
    if -1 in pos:
        return None
    return {"pos": pos, "faces": F.tolist(), "uvc": [am0["uvc"][int(s)] for s in vid], "nc": [am0["nc"][int(s)] for s in vid],
            "nf_kind": am0["nf_kind"]}


def component_count(faces):
    """face-connected components (through edges used exactly twice, by two faces); only to keep the split
    records inside the scope of the reference (at most seven), never for an expected value"""
    use = {}
    for t, f in enumerate(faces):
        for j in range(3):
            use.setdefault((min(f[j], f[(j + 1) % 3]), max(f[j], f[(j + 1) % 3])), []).append(t)
    root = list(range(len(faces)))

    def find(x):
        while root[x] != x:
            root[x] = root[root[x]]
            x = root[x]
        return x
    for ts in use.values():
        if len(ts) == 2 and ts[0] != ts[1]:
            root[find(ts[0])] = find(ts[1])
    return len({find(t) for t in range(len(faces))})


def fill_parameters(rs, am, case, rec):
    """masks of an operation whose input is only known at run time (after an earlier operation)"""
    nf = len(am["faces"])
    op = case["op"]
    if "mask" in case:                           # replay of a recorded run
        return
    if op == "update_faces":
        rec["mk"], rec["mask"] = [("b", rand_bool_mask(rs, nf)), ("i", rand_index_mask(rs, nf, False)),
                                  ("i", rand_index_mask(rs, nf, True)), ("i", same_length_mask(rs, nf))][case["k"] % 4]
    elif op == "update_vertices":
        vm = vertex_masks(rs, am)
        rec["mk"], rec["mask"] = vm[case["k"] % len(vm)]
    elif op == "update_vertices_inv":
        rec["mk"] = "i"
        rec["mask"], rec["inv"] = inverse_plan(rs, am)
    elif op == "submesh":
        rec["seq"] = face_sequences(rs, nf)


def run_case(trimesh, case, rs):
    """one (mesh, operation, options): returns the record for TLC"""
    am, op, o, vis, hasn, pre = case["am"], case["op"], dict(NO_OPT, **case["o"]), case["vis"], case["hasn"], case["pre"]
    first = case.get("first")
    rec = {"op": op, "o": o, "vis": vis, "hasn": hasn, "pre": pre, "exc": "",
           "pos": am["pos"], "faces": am["faces"], "uvc": am["uvc"], "nc": am["nc"],
           "mk": case.get("mk", ""), "mask": case.get("mask", []), "inv": case.get("inv", []),
           "seq": case.get("seq", []), "outs": [], "cat": [], "how": case.get("how", ""),
           "k": case["k"], "nf_kind": am["nf_kind"], "mdt": case.get("mdt", ""), "eng": case.get("eng", 0),
           "first": first or {}, "am0": am if first else {}, "skipped": "",
           "carry": not (op == "concatenate" and case.get("how") == "scene"),
           "cut": [[len(q["pos"]), len(q["faces"]), q.get("made", "")] for q in case["parts"]] if op == "concatenate" else []}
    stage = "build"
    form = (case["k"] // 5) % 2 + 2 * ((case["k"] // 3) % 2)
    rec["form"] = form
    try:
        if op == "concatenate":
            ms, foff, voff = [], 0, 0
            for j, q in enumerate(case["parts"]):
                ms.append(build(trimesh, q, vis, hasn, pre and (j == 0 or case["how"] != "add"), rs,
                                foff=foff, voff=voff, made=q.get("made", "")))
                foff += len(q["faces"])
                voff += len(q["pos"])
            stage = op
            if case["how"] == "add":
                whole = ms[0]
                for mq in ms[1:]:
                    whole = whole + mq
                res = [whole]
            elif case["how"] == "scene":
                # the meshes as the geometry of a scene (identity placements), flattened into one mesh
                if case["k"] % 3 == 0:
                    res = [trimesh.Scene(ms).dump(concatenate=True)]
                elif case["k"] % 3 == 1 or len(ms) < 3:
                    res = [trimesh.util.concatenate([trimesh.Scene(ms)])]
                else:
                    res = [trimesh.util.concatenate([trimesh.Scene(ms[:-1]), ms[-1]])]
            elif case["how"] == "two" and len(ms) == 2:
                res = [trimesh.util.concatenate(ms[0], ms[1])]
            elif case["how"] == "two":
                res = [trimesh.util.concatenate(ms[0], ms[1:])]
            else:
                res = [trimesh.util.concatenate(ms)]
        elif op == "process" and case["how"] in ("ctor", "ctor_fn"):
            stage = op
            res = [build_by_constructor(trimesh, am, vis, hasn, rs, o, case["k"], case["how"] == "ctor_fn", form)]
        else:
            if first:
                # history: an earlier operation and reads of derived values on the same object; the recorded
                # operation starts from whatever that left (judged on the state re-read from the object)
                m = build(trimesh, am, vis, hasn, pre, rs, form=form)
                try:
                    apply_in_place(m, first["op"], dict(NO_OPT, **first["o"]), first["k"], first.get("mk", ""),
                                   first.get("mask", []), first.get("inv", []))
                except Exception:                # that operation on that input is a record of its own elsewhere
                    rec["skipped"] = "first operation raised"
                    return rec
                am = abstract_after(m, am, vis, hasn)
                if am is None:
                    rec["skipped"] = "first operation left no usable mesh"
                    return rec
                if op == "split" and component_count(am["faces"]) > 7:
                    rec["skipped"] = "more than seven components to split"
                    return rec
                attach(trimesh, m, am, vis, hasn, form=form)
                read_derived(m, vis)
                rec.update(pos=am["pos"], faces=am["faces"], uvc=am["uvc"], nc=am["nc"])
                fill_parameters(rs, am, case, rec)
            else:
                m = build(trimesh, am, vis, hasn, pre, rs, form=form)
            stage = op
            res = [m]
            if op in IN_PLACE:
                apply_in_place(m, op, o, case["k"], rec["mk"], rec["mask"], rec["inv"], rec["mdt"])
            elif op == "submesh":
                sdt = ("int64", "int32", "uint32", "uint8")[(case["k"] // 2) % 4]
                fs = [as_mask(e["k"], e["m"], sdt if e["k"] == "i" else "") if (e["k"] == "b" or case["k"] % 2) else list(e["m"])
                      for e in rec["seq"]]
                got = m.submesh(fs, append=o["app"], only_watertight=o["ow"], repair=o["rep"])
                res = [got] if o["app"] and not isinstance(got, (list, np.ndarray)) else list(got)
            elif op == "split":
                kw = {"engine": ENGINES[rec["eng"]]} if rec["eng"] else {}
                res = list(m.split(only_watertight=o["ow"], repair=o["rep"], **kw))
                if not o["ow"] and not o["rep"] and len(res) > 0:
                    stage = "concatenate_parts"
                    whole = trimesh.util.concatenate(res)
                    stage = "project_concatenated_parts"
                    rec["cat"] = [project(whole, vis, False)]
            else:
                raise MachineryError("unknown operation " + op)
        stage = "project"
        # (a Scene concatenates copies of its geometry: which of them still carry assigned normals is C17's question)
        rec["outs"] = [project(r, vis, hasn and rec["carry"], sign_free=(op == "process" and bool(o["val"]))) for r in res]
    except MachineryError:
        raise
    except BaseException as e:  # noqa
        rec["exc"] = f"{stage}:{type(e).__name__}"[:40]
        rec["outs"], rec["cat"] = [], []
    return rec


def gen_records(chunk):
    trimesh = import_trimesh()
    logging.getLogger("trimesh").setLevel(logging.CRITICAL)
    warnings.simplefilter("ignore")
    out = []
    with np.errstate(all="ignore"):
        for cid, case in chunk:
            rs = np.random.RandomState((seed() * 7919 + cid * 31 + 5) % (2 ** 31))
            rec = run_case(trimesh, case, rs)
            rec["id"] = cid
            out.append(rec)
    return out


# ------------------------------------------------------------------ abstract meshes
def classes_for(rs, pos):
    """uv / normal class per slot: slots of one position often share it, or differ only in the fine bit"""
    uvc, nc = [], []
    for s, p in enumerate(pos):
        prev = [t for t in range(s) if pos[t] == p or (p and pos[t] and (pos[t] + 1) // 2 == (p + 1) // 2)]
        for lst in (uvc, nc):
            u = rs.rand()
            if prev and u < 0.45:
                lst.append(lst[prev[rs.randint(len(prev))]])
            elif prev and u < 0.7:
                lst.append(lst[prev[rs.randint(len(prev))]] ^ 1)
            else:
                lst.append(int(rs.randint(4)))
        # texture coordinates of a twin one or two whole repeats away (seam vertices)
        if prev and rs.rand() < 0.3:
            uvc[-1] = (uvc[prev[rs.randint(len(prev))]] + 4 * int(rs.randint(1, 3))) % 12
    return uvc, nc


def grown_faces(rs, nf, n, pos):
    faces = []
    for _ in range(nf):
        u = rs.rand()
        if faces and u < 0.40:      # attach along an existing edge
            f = faces[rs.randint(len(faces))]
            j = rs.randint(3)
            a, b = f[j], f[(j + 1) % 3]
            if rs.rand() < 0.7:
                a, b = b, a
            new = [a, b, int(rs.randint(n))]
            r = rs.randint(3)
            new = new[r:] + new[:r]
        elif faces and u < 0.55:    # repeated face: rotated / reversed copy of the same slots
            f = list(faces[rs.randint(len(faces))])
            r = rs.randint(3)
            new = f[r:] + f[:r]
            if rs.rand() < 0.4:
                new = new[::-1]
        elif faces and u < 0.65:    # the same triangle through other slots standing at the same positions
            f = faces[rs.randint(len(faces))]
            new = []
            for s in f:
                twins = [t for t in range(n) if pos[t] == pos[s]]
                new.append(int(twins[rs.randint(len(twins))]))
        elif u < 0.90:
            new = [int(x) for x in rs.choice(n, 3, replace=False)]
        else:                       # any triple, repeated slots included
            new = [int(x) for x in rs.randint(n, size=3)]
        faces.append([int(x) for x in new])
    return faces


def sample_mesh(rs, nmax, nfmax, allow_nonfinite=True):
    n = int(rs.randint(3, nmax + 1))
    nf = int(rs.randint(1, nfmax + 1))
    palette = [1, 3, 5, 7]
    if rs.rand() < 0.35:
        palette.append(9)                       # on the segment between positions 1 and 3
    k = int(rs.randint(2, min(n, len(palette)) + 1))
    used = [int(x) for x in rs.choice(palette, k, replace=False)]
    if rs.rand() < 0.4:                         # a quarter-unit twin of a used position
        used.append(used[rs.randint(len(used))] + 1)
    pos = [used[rs.randint(len(used))] for _ in range(n)]
    for j, p in enumerate(used[:n]):            # every chosen position occurs when there is room
        if p not in pos:
            pos[rs.randint(n)] = p
    if allow_nonfinite and rs.rand() < 0.25:
        pos[rs.randint(n)] = 0
    faces = grown_faces(rs, nf, n, pos)
    uvc, nc = classes_for(rs, pos)
    return {"pos": [int(p) for p in pos], "faces": faces, "uvc": uvc, "nc": nc, "nf_kind": int(rs.randint(4))}


def big_mesh(rs):
    """17..22 faces: one to three triangle strips over disjoint slots (every inner edge in exactly two
    faces, so the strips are the face-connected components), neighbouring triangles at distinct
    positions, the strips interleaved in the face array"""
    ng = int(rs.randint(1, 4))
    nf = int(rs.randint(17, 23 - 2 * (ng - 1)))
    cuts = sorted(int(x) for x in rs.choice(np.arange(3, nf - 2), ng - 1, replace=False)) if ng > 1 else []
    sizes = [b - a for a, b in zip([0] + cuts, cuts + [nf])]
    pos, faces = [], []
    for size in sizes:
        base = len(pos)
        order = [int(x) + 1 for x in rs.permutation(10)]
        pos += [order[j % 10] for j in range(size + 2)]
        for j in range(size):
            f = [base + j, base + j + 1, base + j + 2] if j % 2 == 0 else [base + j + 1, base + j, base + j + 2]
            q = rs.randint(3)
            faces.append(f[q:] + f[:q])
    if rs.rand() < 0.3:                         # an unreferenced slot in the middle
        at = int(rs.randint(len(pos)))
        pos.insert(at, int(rs.randint(1, 11)))
        faces = [[s + (s >= at) for s in f] for f in faces]
    faces = [faces[j] for j in rs.permutation(len(faces))]
    uvc, nc = classes_for(rs, pos)
    return {"pos": pos, "faces": faces, "uvc": uvc, "nc": nc, "nf_kind": 0}


def exhaustive_meshes(rs, nfmax, patterns_all):
    """every mesh of <= nfmax faces over three slots x duplicate pattern of the three positions"""
    pats = [[1, 1, 1], [1, 1, 3], [1, 3, 1], [1, 3, 3], [1, 3, 5]]
    triples = [list(t) for t in itertools.product(range(3), repeat=3)]
    k = 0
    for nf in range(1, nfmax + 1):
        for fs in itertools.product(triples, repeat=nf):
            for pi, pat in enumerate(pats):
                if not patterns_all and nf > 1 and (k + pi) % len(pats):
                    continue                    # larger arrays meet the patterns in rotation
                uvc, nc = classes_for(rs, pat)
                yield {"pos": list(pat), "faces": [list(f) for f in fs], "uvc": uvc, "nc": nc, "nf_kind": 0}
            k += 1


# ------------------------------------------------------------------ operation plans
def rand_bool_mask(rs, n):
    return [int(x) for x in rs.randint(2, size=n)]


def rand_index_mask(rs, n, repeat):
    if repeat:
        return [int(x) for x in rs.randint(n, size=rs.randint(1, n + 3))]
    k = rs.randint(0 if n > 1 else 1, n + 1)
    idx = [int(x) for x in rs.choice(n, k, replace=False)]
    return sorted(idx) if rs.rand() < 0.4 else idx


def same_length_mask(rs, n):
    """an index mask with as many entries as there are elements: a permutation, or a permutation in which one
    element is repeated and another one dropped (the element count stays, the elements do not)"""
    m = [int(x) for x in rs.permutation(n)]
    if n > 1 and rs.rand() < 0.5:
        i, j = rs.choice(n, 2, replace=False)
        m[i] = m[j]
    return m


def vertex_masks(rs, am):
    """(kind, mask): half of them keep every referenced slot (pure re-indexing), half are arbitrary"""
    n = len(am["pos"])
    ref = sorted({s for f in am["faces"] for s in f})
    unref = [s for s in range(n) if s not in ref]
    out = []
    keep = [1 if (s in ref or rs.rand() < 0.4) else 0 for s in range(n)]
    out.append(("b", keep))
    out.append(("b", rand_bool_mask(rs, n)))
    idx = ref + [s for s in unref if rs.rand() < 0.5]
    order = [int(x) for x in rs.permutation(len(idx))]
    out.append(("i", [idx[j] for j in order]))
    rep = [idx[j] for j in order] + [int(idx[rs.randint(len(idx))]) for _ in range(rs.randint(1, 3))]
    out.append(("i", [rep[j] for j in rs.permutation(len(rep))]))
    m = rand_index_mask(rs, n, False) if rs.rand() < 0.5 else [int(x) for x in rs.permutation(n)]
    if m:
        out.append(("i", m))
    return out


def inverse_plan(rs, am):
    """mask = chosen representatives (any order), inverse = slot -> row of a representative at its position"""
    n = len(am["pos"])
    pos = am["pos"]
    ref = sorted({s for f in am["faces"] for s in f})
    rep = {}
    for s in ref:
        twins = [t for t in range(n) if pos[t] == pos[s] and pos[s] != 0] or [s]
        same = [rep[t] for t in ref if t in rep and pos[t] == pos[s] and pos[s] != 0]
        rep[s] = same[0] if (same and rs.rand() < 0.7) else int(twins[rs.randint(len(twins))])
    chosen = sorted(set(rep.values()))
    extra = [s for s in range(n) if s not in chosen and rs.rand() < 0.3]
    mask = chosen + extra
    mask = [mask[j] for j in rs.permutation(len(mask))]
    inv = [mask.index(rep[s]) if s in rep else 0 for s in range(n)]
    return [int(x) for x in mask], [int(x) for x in inv]


def face_sequences(rs, nf):
    out = []
    for _ in range(rs.randint(1, 4)):
        u = rs.rand()
        if u < 0.3:
            out.append({"k": "b", "m": rand_bool_mask(rs, nf)})
        elif u < 0.65:
            out.append({"k": "i", "m": rand_index_mask(rs, nf, False)})
        elif u < 0.9:
            out.append({"k": "i", "m": rand_index_mask(rs, nf, True)})
        else:
            out.append({"k": "i", "m": []})
    if rs.rand() < 0.25:
        out.append({"k": "i", "m": list(range(nf))})        # the whole mesh as one entry
    return out


def adder(am, k):
    """collects the operation runs of one abstract mesh; visual / normal / pre-read variants rotate"""
    runs = []
    state = [k]

    def add(op, o=None, **kw):
        j = state[0]
        state[0] += 1
        # merging pays attention to uv and stored normals: let it meet them more often
        vis = VISUALS[j % 4] if op != "merge_vertices" else ("texture", "texture", "vertex", "none", "face")[j % 5]
        case = {"am": am, "op": op, "o": o or {}, "vis": vis, "hasn": (j // 4) % 2 == 0, "pre": (j // 2) % 3 == 0, "k": j}
        case.update(kw)
        if op in ("update_faces", "update_vertices", "update_vertices_inv") and "first" not in case:
            # every second mask arrives as int64 / bool array, the others as another integer type or a list
            kinds = BOOL_KINDS if case.get("mk") == "b" else INT_KINDS
            case["mdt"] = kinds[0] if (j // 3) % 2 == 0 else kinds[1 + (j // 6) % (len(kinds) - 1)]
        if op == "split":
            case["eng"] = (j // 2) % len(ENGINES)
        if op == "process" and "first" not in case:
            case["how"] = ("call", "ctor", "call", "ctor_fn")[(j // 3) % 4]
            if case["how"] != "call":
                case["pre"] = False
        runs.append(case)

    return runs, add, state


def plan_big(rs, k, am):
    """meshes of more than 16 faces: the sorting routines under split / merge / unique switch algorithm there"""
    nf = len(am["faces"])
    runs, add, _ = adder(am, k)
    add("split", {"ow": False, "rep": False})
    add("split", {"ow": bool(rs.rand() < 0.5), "rep": False})
    add("merge_vertices", {"mt": False, "mn": False, "dv": bool(rs.rand() < 0.3)})
    add("merge_vertices", {"mt": True, "mn": True})
    for op in ("unmerge_vertices", "remove_unreferenced_vertices", "remove_duplicate_faces", "remove_degenerate_faces"):
        add(op)
    add("update_faces", mk="b", mask=rand_bool_mask(rs, nf))
    add("update_faces", mk="i", mask=rand_index_mask(rs, nf, True) if rs.rand() < 0.5 else same_length_mask(rs, nf))
    vm = vertex_masks(rs, am)
    add("update_vertices", mk=vm[0][0], mask=vm[0][1])
    add("update_vertices", mk=vm[2][0], mask=vm[2][1])
    mask, inv = inverse_plan(rs, am)
    add("update_vertices_inv", mk="i", mask=mask, inv=inv)
    add("submesh", {"app": True}, seq=face_sequences(rs, nf)[:2])
    add("submesh", {"app": False}, seq=face_sequences(rs, nf)[:2])
    add("process", {"val": False, "mt": bool(rs.rand() < 0.5), "mn": bool(rs.rand() < 0.5)})
    add("process", {"val": True, "mt": bool(rs.rand() < 0.5), "mn": bool(rs.rand() < 0.5)})
    history_runs(rs, am, add, 2, big=True)
    return runs


# weighted towards first operations that change the topology and second operations that consume derived values
# (face adjacency, triangles, areas, normals) an earlier operation may have left behind
FIRST_OPS = ("merge_vertices", "merge_vertices", "merge_vertices", "process", "process", "process", "update_faces",
             "update_faces", "remove_unreferenced_vertices", "remove_duplicate_faces", "remove_degenerate_faces",
             "remove_infinite_values", "update_vertices", "unmerge_vertices")
SECOND_OPS = ("split", "split", "split", "process", "process", "submesh", "submesh", "merge_vertices", "update_faces",
              "update_vertices", "unmerge_vertices", "update_vertices_inv", "remove_unreferenced_vertices",
              "remove_duplicate_faces", "remove_degenerate_faces", "remove_degenerate_faces")


def history_runs(rs, am, add, count, big=False):
    """two operations on one object with reads of derived values in between; the second one is recorded"""
    nf = len(am["faces"])
    for _ in range(count):
        f = FIRST_OPS[rs.randint(len(FIRST_OPS) - (1 if big else 0))]
        first = {"op": f, "o": {}, "k": int(rs.randint(6))}
        if f == "merge_vertices":
            first["o"] = {"mt": bool(rs.rand() < 0.5), "mn": bool(rs.rand() < 0.5), "dv": bool(rs.rand() < 0.2)}
        elif f == "process":
            first["o"] = {"val": bool(rs.rand() < 0.5), "mt": bool(rs.rand() < 0.5), "mn": bool(rs.rand() < 0.5)}
        elif f == "update_faces":
            keep = rand_bool_mask(rs, nf)
            keep[rs.randint(nf)] = 1
            first.update(mk="b", mask=keep) if rs.rand() < 0.5 else first.update(mk="i", mask=rand_index_mask(rs, nf, True))
        elif f == "update_vertices":
            first["mk"], first["mask"] = vertex_masks(rs, am)[0]
        s_op = SECOND_OPS[rs.randint(len(SECOND_OPS))]
        o = {}
        if s_op == "merge_vertices":
            o = {"mt": bool(rs.rand() < 0.5), "mn": bool(rs.rand() < 0.5), "dv": bool(rs.rand() < 0.2)}
        elif s_op == "process":
            o = {"val": bool(rs.rand() < 0.5), "mt": bool(rs.rand() < 0.5), "mn": bool(rs.rand() < 0.5)}
        elif s_op == "submesh":
            o = {"app": bool(rs.rand() < 0.5), "ow": False, "rep": False}
        elif s_op == "split":
            o = {"ow": False, "rep": False}
        add(s_op, o, first=first, how="call")


def plan_for(rs, k, am, partner, tier):
    """the operation runs of one abstract mesh"""
    nf = len(am["faces"])
    n = len(am["pos"])
    runs, add, state = adder(am, k)
    # quick tier: the three-slot meshes of the exhaustive family meet the operations, masks and option
    # combinations in rotation (about half of the plan each); every other mesh gets the whole plan
    light = tier == "quick" and n <= 3 and nf <= 2
    turn = [k]

    def take(period=2):
        turn[0] += 1
        return not light or turn[0] % period == 0

    for mt, mn in itertools.product((False, True), repeat=2):
        if take(4):
            add("merge_vertices", {"mt": mt, "mn": mn, "dv": bool(rs.rand() < 0.3), "du": bool(rs.rand() < 0.3),
                                   "dn": bool(rs.rand() < 0.3)})
    for op in ("unmerge_vertices", "remove_unreferenced_vertices", "remove_duplicate_faces",
               "remove_degenerate_faces", "remove_infinite_values"):
        if take():
            add(op)
    fm = [("i", same_length_mask(rs, nf)), ("i", rand_index_mask(rs, nf, False)), ("i", rand_index_mask(rs, nf, True))]
    if nf <= 2:
        fm += [("b", list(b)) for b in itertools.product((0, 1), repeat=nf)]
    else:
        fm.append(("b", rand_bool_mask(rs, nf)))
    for kind, mask in fm:
        if take():
            add("update_faces", mk=kind, mask=mask)
    for kind, mask in vertex_masks(rs, am):
        if take():
            add("update_vertices", mk=kind, mask=mask)
    mask, inv = inverse_plan(rs, am)
    if take():
        add("update_vertices_inv", mk="i", mask=mask, inv=inv)
    for app, ow in itertools.product((True, False), (False, True)):
        if take(4):
            add("submesh", {"app": app, "ow": ow, "rep": bool(rs.rand() < 0.25)}, seq=face_sequences(rs, nf))
    if take():
        add("split", {"ow": False, "rep": False})
    if take():
        add("split", {"ow": True, "rep": False})
    if rs.rand() < 0.3 and not light:
        add("split", {"ow": False, "rep": True})
    # the constructor's own path: process() = drop non-finite, merge; with validate also repeated / degenerate faces
    for val, (mt, mn) in zip((False, True, True, False), ((False, False), (False, True), (True, False), (True, True))):
        if take(4):
            add("process", {"val": val, "mt": mt, "mn": mn})
    if not light:
        history_runs(rs, am, add, 4)
    # concatenation: the record carries the inputs stacked into one original
    if take():
        runs.append(concat_case(state, [am, partner]))
    # ... with an operand that has vertices but no faces (made directly, or left over when every face was
    # masked away) or nothing at all, in first / middle / last place
    if take():
        u = rs.rand()
        bare = {"pos": [int(p) for p in rs.choice([1, 3, 5, 7, 9], rs.randint(1, 4))], "faces": [], "nf_kind": 0,
                "made": "masked" if rs.rand() < 0.5 else ""}
        bare["uvc"], bare["nc"] = classes_for(rs, bare["pos"])
        none = {"pos": [], "faces": [], "uvc": [], "nc": [], "nf_kind": 0}
        c = none if u < 0.2 else bare
        order = ([c, am], [am, c, partner], [am, partner, c], [c, am, partner], [am, c], [bare, none, am])[(k + turn[0]) % 6]
        runs.append(concat_case(state, order))
    return runs


def concat_case(state, parts):
    j = state[0]
    state[0] += 1
    both = {"pos": [], "uvc": [], "nc": [], "faces": [], "nf_kind": parts[0]["nf_kind"]}
    for q in parts:
        off = len(both["pos"])
        both["faces"] += [[s + off for s in f] for f in q["faces"]]
        for key in ("pos", "uvc", "nc"):
            both[key] = both[key] + q[key]
    return {"am": both, "op": "concatenate", "o": {}, "vis": VISUALS[j % 4], "hasn": (j // 4) % 2 == 0,
            "pre": (j // 2) % 3 == 0, "k": j, "parts": list(parts), "how": ("list", "add", "two", "scene")[j % 4]}


def work_items(tier):
    rs = np.random.RandomState(seed() + 707)
    meshes = []
    if tier == "thorough":
        meshes += [("exh", m) for m in exhaustive_meshes(rs, 2, True)]
        meshes += [("rnd", sample_mesh(rs, 6, 4)) for _ in range(12000)]
        meshes += [("mid", sample_mesh(rs, 8, 6)) for _ in range(1000)]
        meshes += [("big", big_mesh(rs)) for _ in range(1500)]
    else:
        meshes += [("exh", m) for m in exhaustive_meshes(rs, 2, False)]
        meshes += [("rnd", sample_mesh(rs, 6, 4)) for _ in range(380)]
        meshes += [("mid", sample_mesh(rs, 8, 6)) for _ in range(50)]
        meshes += [("big", big_mesh(rs)) for _ in range(40)]
    cases = []
    fam = {}
    for k, (family, am) in enumerate(meshes):
        if family == "big":
            runs = plan_big(rs, k, am)
        else:
            partner = sample_mesh(rs, 4, 2, allow_nonfinite=rs.rand() < 0.3)
            runs = plan_for(rs, k, am, partner, tier)
        fam[family] = fam.get(family, 0) + 1
        for r in runs:
            r["family"] = family
        cases += runs
    return cases, fam


# ------------------------------------------------------------------ deviations (predicates on the input)
def dropped_referenced(c):
    n = len(c["pos"])
    if c["op"] == "remove_infinite_values":
        kept = {s for s in range(n) if c["pos"][s] != 0}
    elif c["op"] == "update_vertices":
        kept = {s for s in range(n) if c["mask"][s]} if c["mk"] == "b" else set(c["mask"])
    else:
        return False
    return any(s not in kept for f in c["faces"] for s in f)


def deviation_of(c, clause):
    """known defect explaining a rejection of record c, decided on the input and the operation"""
    if c["op"] in ("submesh", "split") and c["vis"] == "face" and clause == "face_color" \
            and c["outs"] and all(o["kind"] == "vertex" for o in c["outs"]):
        return "FaceSubsetTurnsFaceColorsIntoVertexColors"
    if c["op"] == "split" and len(c["faces"]) >= 2 and clause == "relative_order" and ENGINES[c["eng"]] != "networkx":
        # connected_components groups the face labels with numpy's default sort, which is not stable
        return "SplitScramblesFaceOrderInsideParts"
    if c["op"] == "remove_infinite_values" and dropped_referenced(c) \
            and clause in ("surviving_face_set", "faces_index_existing_vertices"):
        return "RemoveInfiniteValuesKeepsDanglingFaces"
    if c["op"] == "update_vertices" and c["mk"] == "i" and c["mdt"].startswith("uint") \
            and clause != "stored_vertex_normals_dropped":
        # only signed integer masks get the faces re-indexed (mask.dtype.kind == "i")
        return "UnsignedVertexMaskLeavesFacesUnreindexed"
    if c["op"] == "update_vertices" and dropped_referenced(c) \
            and clause in ("surviving_face_set", "faces_index_existing_vertices"):
        return "UpdateVerticesKeepsDanglingFaces"
    if c["op"] == "process" and c["o"]["val"] and (c["pre"] or c["first"] or c["how"] == "ctor_fn") \
            and clause in ("face_normal", "raised_process:IndexError", "raised_process:ValueError",
                           "raised_project:IndexError", "raised_project:ValueError"):
        # validation masks and reverses faces while the cache is locked: values computed (or handed in) for
        # the faces before are used and kept
        return "ProcessValidateEditsFacesUnderCacheLock"
    if c["op"] == "update_vertices_inv" and c["vis"] == "vertex" and clause == "derived_face_color" \
            and (c["pre"] or c["first"]) and c["mask"] == list(range(len(c["pos"]))):
        # every vertex kept in place (the stored vertex colours do not change, so the visual's cache stays
        # valid) while the inverse re-points faces: face colours generated before are returned for the new faces
        return "GeneratedFaceColorsSurviveFaceReindex"
    if c["op"] == "split" and ENGINES[c["eng"]] == "networkx" and clause == "relative_order":
        # the networkx engine returns every component in the iteration order of a Python set
        return "NetworkxComponentsUnordered"
    if c["op"] == "concatenate" and c["how"] == "add" and c["vis"] == "face" and clause == "visual_data_dropped" \
            and len(c["cut"]) > 2 and c["cut"][0][1] == 0 and c["cut"][1][1] == 0:
        # (a + b) without any face has face colours of shape (0, 5) (to_rgba pads an empty (0, 4) array), so
        # adding a coloured mesh to it fails inside the visuals and the result falls back to default colours
        return "EmptyFaceColorsGrowFifthColumn"
    if c["op"] == "process" and c["o"]["val"] and c["hasn"] and c["outs"] and c["outs"][0]["faces"] != c["faces"] \
            and (clause == "stored_vertex_normals_dropped" or
                 (not c["o"]["mn"] and clause in ("vertex_attribute_at_corner", "vertex_color_at_corner",
                                                  "texture_uv_at_corner", "vertex_data_from_other_position"))):
        # validation masks / reverses faces before the cache lock: the assigned normals are gone before the merge,
        # which then also merges vertices that merge_norm=False should have kept apart
        return "StoredVertexNormalsDiscardedWhenFacesChange"
    if clause == "stored_vertex_normals_dropped" and c["hasn"] and c["op"] in IN_PLACE and c["outs"] \
            and (c["outs"][0]["faces"] != c["faces"] or c["op"] == "unmerge_vertices") and c["op"] != "process":
        # assigned vertex normals live in the mesh cache: any change of the face array discards them
        # (process() runs under the cache lock and keeps them)
        return "StoredVertexNormalsDiscardedWhenFacesChange"
    return None


def replay_cases(path):
    """the cases of a replay file written by an earlier run, rebuilt from the recorded inputs"""
    import json
    out = []
    for v in json.load(open(path))["violations"]:
        d = v["detail"]
        am = {"pos": d["pos"], "faces": d["faces"], "uvc": d["uvc"], "nc": d["nc"], "nf_kind": d["nf_kind"]}
        case = {"am": am, "op": d["op"], "o": d["o"], "vis": d["vis"], "hasn": d["hasn"], "pre": d["pre"], "k": d["k"],
                "mk": d["mk"], "mask": d["mask"], "inv": d["inv"], "seq": d["seq"], "how": d["how"], "family": "replay",
                "mdt": d.get("mdt", ""), "eng": d.get("eng", 0)}
        if d.get("first"):
            case["first"], case["am"] = d["first"], d["am0"]
        if d["op"] == "concatenate":
            parts, v0, f0 = [], 0, 0
            for nq, nfq, made in d["cut"]:
                parts.append({"pos": d["pos"][v0:v0 + nq], "uvc": d["uvc"][v0:v0 + nq], "nc": d["nc"][v0:v0 + nq],
                              "faces": [[x - v0 for x in f] for f in d["faces"][f0:f0 + nfq]],
                              "nf_kind": d["nf_kind"], "made": made})
                v0 += nq
                f0 += nfq
            case["parts"] = parts
        out.append(case)
    return out


def input_stats(cases):
    st = {"duplicated_position": 0, "unreferenced_slot": 0, "repeated_face_slot_set": 0, "repeated_slot_in_face": 0,
          "non_finite_slot": 0, "quarter_unit_twin": 0, "collinear_position_used": 0, "geometric_duplicate_face": 0}
    seen = set()
    for c in cases:
        key = (tuple(c["pos"]), tuple(map(tuple, c["faces"])))
        if key in seen:
            continue
        seen.add(key)
        pos, fs = c["pos"], c["faces"]
        fin = [p for p in pos if p]
        st["duplicated_position"] += len(set(fin)) < len(fin)
        st["unreferenced_slot"] += len({s for f in fs for s in f}) < len(pos)
        st["repeated_face_slot_set"] += len({frozenset(f) for f in fs}) < len(fs)
        st["repeated_slot_in_face"] += any(len(set(f)) < 3 for f in fs)
        st["non_finite_slot"] += 0 in pos
        st["quarter_unit_twin"] += any(p % 2 == 0 and p - 1 in fin for p in fin)
        st["collinear_position_used"] += 9 in fin
        geo = [tuple(sorted(pos[s] for s in f)) for f in fs]
        st["geometric_duplicate_face"] += len(set(geo)) < len(geo)
    st = {k: int(v) for k, v in st.items()}
    st["distinct_abstract_meshes"] = len(seen)
    return st


ENTRY_MUST = ("process:call", "process:ctor", "process:ctor_fn", "update_faces:uint8", "update_faces:list",
              "update_vertices:uint32", "update_vertices:uint64", "update_vertices:int32", "update_vertices:list",
              "update_vertices_inv:uint32", "split:scipy", "split:networkx", "concatenate:scene", "concatenate:add",
              "second:process", "second:merge_vertices", "second:split", "first:update_faces", "first:process")


def entry_keys(c):
    out = []
    if c["op"] in ("process", "concatenate"):
        out.append(f"{c['op']}:{c['how']}")
    if c["mdt"]:
        out.append(f"{c['op']}:{c['mdt']}")
    if c["op"] == "split":
        out.append(f"split:{ENGINES[c['eng']] or 'default'}")
    if c["first"]:
        out += [f"first:{c['first']['op']}", f"second:{c['op']}"]
    return out


def check_clause_names():
    text = open(os.path.join(SPEC_DIR, "Reindex.tla")).read()
    text = text[text.index("Clause(c) =="):]
    lits = re.findall(r'THEN \(?(?:IF .*? THEN )?"([a-z_]+)"', text) + re.findall(r'ELSE "([a-z_]+)"', text)
    if len(lits) < 20 or max(map(len, lits)) > 44:
        raise MachineryError("a clause name in Reindex.tla is missing or too long for one TLC output line")


def main(argv):
    tier = tier_from_args(argv)
    V = Verdict(PROP, tier)
    import_trimesh()
    check_clause_names()
    replay = "--replay" in argv
    if replay:
        cases = replay_cases(argv[argv.index("--replay") + 1])
        fam = {"replay": len(cases)}
    else:
        cases, fam = work_items(tier)
    if "--ops" in argv:
        # development aid: only these operations (the emptiness guards are off, as for a replay)
        want = set(argv[argv.index("--ops") + 1].split(","))
        cases = [c for c in cases if c["op"] in want]
        replay = True
    if len(cases) < (1 if replay else 5000):
        raise MachineryError("too few cases enumerated")
    items = list(enumerate(cases))
    round_size = 64000
    # 16 single-worker TLC shards run at once: keep each JVM small (the default heap limit is a quarter of
    # the machine's memory per JVM); tlc.run hands the environment on to the JVM
    os.environ.setdefault("JAVA_TOOL_OPTIONS", "-Xmx2500m")
    states, wall, total, nrej = 0, 0.0, 0, 0
    byop, byvis, byclause, bydev, raised, unattributed = {}, {}, {}, {}, {}, {}
    stats, samples, skipped = {}, [], {}
    entry = {}                                   # how the anchored code was reached (entry point / argument kind)
    exercised = {"faces_dropped": 0, "vertices_merged": 0, "several_parts": 0, "parts_dropped_not_watertight": 0,
                 "face_color_channel": 0, "vertex_color_channel": 0, "uv_channel": 0, "vertex_normal_channel": 0,
                 "face_attribute_channel": 0, "vertex_attribute_channel": 0, "hole_filled": 0,
                 "meshes_of_more_than_16_faces": 0, "process_validate_dropped_faces": 0,
                 "process_merged_with_stored_normals": 0, "process_after_reads": 0,
                 "normals_kept_across_changed_faces": 0, "history_second_operation": 0, "unsigned_vertex_mask": 0,
                 "networkx_split_several_parts": 0, "scene_concatenation": 0, "two_dimensional_float_attributes": 0,
                 "derived_colors_after_same_length_mask": 0, "derived_colors_read": 0,
                 "texture_extra_channel_submesh_split": 0, "texture_extra_channel_kept": 0}
    for r0 in range(0, len(items), round_size):
        part = items[r0:r0 + round_size]
        res = pmap(gen_records, part, chunk=max(40, min(600, len(part) // 96 + 1)))
        recs = [c for r in res for c in r]
        if len(recs) != len(part):
            raise MachineryError("lost records")
        for c in recs:
            if c["skipped"]:
                skipped[c["skipped"]] = skipped.get(c["skipped"], 0) + 1
        recs = [c for c in recs if not c["skipped"]]
        slim = [{k: v for k, v in c.items() if k not in ("pre", "how", "k", "nf_kind", "cut", "mdt", "eng", "first", "am0",
                                                        "skipped", "form")} for c in recs]
        rejects, st, w = tlc.validate_batches("c07", "Reindex", slim, CFG, timeout=2400)
        states += st
        wall += w
        total += len(recs)
        byid = {c["id"]: c for c in recs}
        for cid, clause in sorted(rejects.items()):
            c = byid[cid]
            nrej += 1
            dev = deviation_of(c, clause)
            byclause[clause] = byclause.get(clause, 0) + 1
            if dev:
                bydev[dev] = bydev.get(dev, 0) + 1
            else:
                unattributed[f"{c['op']}:{clause}"] = unattributed.get(f"{c['op']}:{clause}", 0) + 1
            detail = {k: v for k, v in c.items() if k != "id"}
            detail["family"] = cases[cid]["family"]
            V.violation(f"{c['op']}:{clause}", detail, dev)
        for c in recs:
            byop[c["op"]] = byop.get(c["op"], 0) + 1
            byvis[c["vis"]] = byvis.get(c["vis"], 0) + 1
            for key in entry_keys(c):
                entry[key] = entry.get(key, 0) + 1
            if c["exc"]:
                raised[c["exc"]] = raised.get(c["exc"], 0) + 1
                continue
            outs = c["outs"]
            nf_out = sum(len(o["faces"]) for o in outs)
            exercised["faces_dropped"] += c["op"] != "submesh" and nf_out < len(c["faces"])
            exercised["vertices_merged"] += c["op"] == "merge_vertices" and bool(outs) and \
                len(outs[0]["ppos"]) < len({s for f in c["faces"] for s in f})
            exercised["several_parts"] += len(outs) > 1
            exercised["parts_dropped_not_watertight"] += bool(c["o"]["ow"] and not c["o"]["app"] and c["op"] == "split" and not outs)
            exercised["meshes_of_more_than_16_faces"] += len(c["faces"]) > 16
            exercised["hole_filled"] += c["op"] == "split" and nf_out > len(c["faces"])
            vn_kept = bool(outs) and outs[0]["vn"]["has"] and len(outs[0]["vn"]["v"]) > 0
            if c["op"] == "process":
                exercised["process_validate_dropped_faces"] += bool(c["o"]["val"]) and nf_out < len(c["faces"])
                exercised["process_merged_with_stored_normals"] += vn_kept and len(outs[0]["ppos"]) < len(c["pos"])
                exercised["process_after_reads"] += bool(c["pre"] or c["first"])
            exercised["normals_kept_across_changed_faces"] += vn_kept and c["op"] in IN_PLACE and outs[0]["faces"] != c["faces"]
            exercised["history_second_operation"] += bool(c["first"])
            exercised["unsigned_vertex_mask"] += c["op"] == "update_vertices" and c["mdt"].startswith("uint")
            exercised["networkx_split_several_parts"] += c["op"] == "split" and ENGINES[c["eng"]] == "networkx" and len(outs) > 1
            exercised["scene_concatenation"] += c["op"] == "concatenate" and c["how"] == "scene"
            derived = bool(outs) and (outs[0]["dfc"]["has"] or outs[0]["dvc"]["has"])
            exercised["derived_colors_after_same_length_mask"] += derived and bool(c["pre"] or c["first"]) and (
                (c["op"] == "update_faces" and c["mk"] == "i" and len(c["mask"]) == len(c["faces"]) and c["mask"] != list(range(len(c["faces"]))))
                or (c["op"] in ("update_vertices", "update_vertices_inv") and c["mk"] == "i" and len(c["mask"]) == len(c["pos"])
                    and c["mask"] != list(range(len(c["pos"])))))
            exercised["derived_colors_read"] += derived
            exercised["texture_extra_channel_submesh_split"] += bool(c["form"] & 2) and c["vis"] == "texture" and \
                c["op"] in ("submesh", "split") and bool(outs)
            exercised["texture_extra_channel_kept"] += any(o["xa"]["has"] for o in outs)
            exercised["two_dimensional_float_attributes"] += c["form"] & 1 and c["op"] in IN_PLACE and bool(outs) \
                and outs[0]["fa"]["has"] and len(outs[0]["fa"]["v"]) > 0
            for name, key in (("face_color_channel", "fc"), ("vertex_color_channel", "vc"), ("uv_channel", "uv"),
                              ("vertex_normal_channel", "vn"), ("face_attribute_channel", "fa"),
                              ("vertex_attribute_channel", "va")):
                exercised[name] += any(o[key]["has"] and len(o[key]["v"]) > 0 for o in outs)
        for k, v in input_stats(recs).items():
            stats[k] = stats.get(k, 0) + v
        samples += [recs[len(recs) // 5], recs[len(recs) // 2], recs[-1]]
    exercised = {k: int(v) for k, v in exercised.items()}
    if not replay and (min(exercised["faces_dropped"], exercised["vertices_merged"], exercised["several_parts"],
           exercised["face_color_channel"], exercised["vertex_color_channel"], exercised["uv_channel"],
           exercised["vertex_normal_channel"], exercised["face_attribute_channel"],
           exercised["vertex_attribute_channel"], exercised["meshes_of_more_than_16_faces"]) < 50 or min(stats.values()) < 20 or len(byop) < 13):
        raise MachineryError(f"enumeration nearly empty: {exercised} {stats} {byop}")
    # the families added by the coverage audit (process / constructor, histories, mask kinds, engines, scenes)
    thin = {k: exercised[k] for k in ("process_validate_dropped_faces", "process_merged_with_stored_normals",
                                      "process_after_reads", "history_second_operation", "unsigned_vertex_mask",
                                      "networkx_split_several_parts", "scene_concatenation",
                                      "two_dimensional_float_attributes", "derived_colors_after_same_length_mask",
                                      "derived_colors_read", "texture_extra_channel_submesh_split",
                                      "texture_extra_channel_kept") if exercised[k] < 40}
    if not replay and (thin or byop.get("process", 0) < 500 or sum(skipped.values()) > 0.6 * max(1, exercised["history_second_operation"])
                       or min(entry.get(k, 0) for k in ENTRY_MUST) < 25):
        raise MachineryError(f"an audited family is nearly empty: {thin} skipped={skipped} entry={entry}")
    cov = {
        "states": states, "transitions": states,
        "traces_validated_against_impl": total,
        "abstract_meshes_per_family": fam,
        "records_per_operation": byop,
        "records_per_visual": byvis,
        "inputs": stats,
        "exercised": exercised,
        "records_per_entry": entry,
        "history_cases_skipped": skipped,
        "exceptions_observed": raised,
        "rejected": nrej,
        "rejected_per_clause": byclause,
        "rejected_per_deviation": bydev,
        "rejected_without_deviation": unattributed,
        "exhaustive": False,
        "exhaustive_scope": "every mesh of one face over three slots x the five duplicate patterns of their positions; "
                      "two-face meshes over three slots " + ("x all five patterns, whole operation plan" if tier == "thorough"
                                                                    else "with patterns and operations in rotation"),
        "tlc_wall_s": round(wall, 1),
        "samples": samples[:4],
    }
    return V.finish("model_checking", cov, assumptions=[
        "small scope: <= 4 faces over <= 6 vertex slots over <= 5 lattice positions (4 in general position, one on a "
        "segment) with quarter-unit twins and one NaN/inf slot; plus meshes of <= 6 faces over <= 8 slots and of "
        "17..22 faces over <= 25 slots (numpy sorts change algorithm with the array length)",
        "slots of one position id differ by < 2e-9 (inside tol.merge); quarter-unit twins merge only at digits_vertex=0",
        "option values: digits_vertex in {None, 8, 6, 0}, digits_uv in {None, 1}, digits_norm in {None, 0}; "
        "merge_tex / merge_norm in {None, False, True}; only_watertight, append, repair in {False, True}; "
        "process(validate in {False, True}) called on a mesh or reached through the constructor (with and without "
        "face normals handed in); masks as bool / int8..int64 / uint8..uint64 arrays and plain lists; "
        "split engines default / scipy / networkx; concatenation through +, util.concatenate and a Scene",
        "histories: derived values read before the operation; two operations on one object with reads between "
        "(the second is judged on the state re-read from the object and freshly tagged)",
        "presence: in-place operations must keep attached channels (attributes, colours, uv, assigned vertex "
        "normals); submesh / split / concatenate are only required to keep the visual channel (and concatenate "
        "the assigned vertex normals) - attributes and vertex normals they do not copy are not demanded",
        "not constrained: unreferenced vertices after merge / face masking / submesh, the representative of a merged "
        "group, faces with a non-finite corner under remove_degenerate_faces, attributes and normals an operation "
        "drops, faces appended by hole filling, corner order inside a face beyond its cyclic order, empty integer "
        "vertex masks (update_vertices returns early on them)",
    ])


if __name__ == "__main__":
    try:
        sys.exit(main(sys.argv[1:]))
    except MachineryError as e:
        print("MACHINERY-ERROR:", e)
        sys.exit(2)
