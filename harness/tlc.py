"""Thin TLC runner: copies the spec modules into a scratch dir, writes the cfg, runs
TLC under a timeout, and parses counts, coverage and PrintT'd JSON."""
import json
import os
import re
import shutil
import subprocess
import time

from .common import NCPU, SPEC_DIR, MachineryError, workdir

JAR = "/opt/veriftools/tla/tla2tools.jar:/opt/veriftools/tla/CommunityModules-deps.jar"


class TLCResult:
    def __init__(self):
        self.stdout = ""
        self.generated = 0
        self.distinct = 0
        self.depth = 0
        self.printed = []  # parsed JSON values printed via PrintT(ToJson(..))
        self.tuples = []  # raw PrintT'd TLA tuples (strings) e.g. <<"REJECT", 3, "x">>
        self.violated = None  # name of violated invariant/property, if any
        self.error = None
        self.coverage = {}  # action -> (distinct, total)
        self.wall = 0.0
        self.ok = False


def prepare(name, files=None, fresh=True):
    """Scratch directory with all spec modules copied in."""
    d = workdir(name, fresh=fresh)
    for f in os.listdir(SPEC_DIR):
        if f.endswith(".tla"):
            shutil.copy(os.path.join(SPEC_DIR, f), d)
    for fn, text in (files or {}).items():
        with open(os.path.join(d, fn), "w") as fh:
            fh.write(text)
    return d


_tuple_re = re.compile(r"^<<.*>>$")


def parse_output(res, out):
    res.stdout = out
    # TLC pretty-prints values longer than 80 characters over several lines: re-join tuples
    joined, acc = [], None
    for line in out.splitlines():
        st = line.strip()
        if acc is not None:
            acc += " " + st
            if st.endswith(">>"):
                joined.append(acc)
                acc = None
            continue
        if st.startswith("<<") and not st.endswith(">>"):
            acc = st
            continue
        joined.append(line)
    if acc is not None:
        joined.append(acc)
    for line in joined:
        s = line.strip()
        if s.startswith('"') and s.endswith('"') and len(s) > 1:
            try:
                v = json.loads(s)
                if isinstance(v, str) and v[:1] in "[{":
                    res.printed.append(json.loads(v))
                else:
                    res.printed.append(v)
            except Exception:
                pass
        elif _tuple_re.match(s):
            res.tuples.append(s)
        m = re.match(r"^(\d+) states generated, (\d+) distinct states found", s)
        if m:
            res.generated, res.distinct = int(m.group(1)), int(m.group(2))
        m = re.match(r"^The depth of the complete state graph search is (\d+)", s)
        if m:
            res.depth = int(m.group(1))
        m = re.match(r"^Error: Invariant (\S+) is violated", s)
        if m:
            res.violated = m.group(1)
        m = re.match(r"^Error: Action property (\S+) is violated", s)
        if m:
            res.violated = m.group(1)
        if s.startswith("Error: Temporal properties were violated"):
            res.violated = res.violated or "temporal"
        if s.startswith("Error:") and res.error is None and "is violated" not in s:
            res.error = s
        m = re.match(r"^<(\w+) line \d+, col \d+ to line \d+, col \d+ of module (\w+)>: (\d+):(\d+)", s)
        if m:
            res.coverage[m.group(1)] = (int(m.group(3)), int(m.group(4)))
    # simulation mode reports differently
    m = re.search(r"The number of states generated: (\d+)", out)
    if m and not res.generated:
        res.generated = int(m.group(1))
    return res


def run(workdir_path, module, cfg_text, workers=None, timeout=1800, simulate=None,
        depth=None, seed=None, coverage=False, extra=None, env=None, deadlock=False,
        java_opts=None):
    """Run TLC on `module` (name without .tla) inside workdir_path."""
    res = TLCResult()
    cfg = os.path.join(workdir_path, module + ".cfg")
    with open(cfg, "w") as f:
        f.write(cfg_text)
    meta = os.path.join(workdir_path, "meta_" + module + "_" + str(int(time.time() * 1000) % 10**9))
    # MemStateQueue: plain in-memory FIFO (breadth-first order kept).  TLC 1.8's default DiskStateQueue fails
    # on some of these specs with "Error: when writing the disk (StatePoolWriter.run) ... fcnRcd is null"
    jo = list(java_opts or [])
    if not any(o.startswith("-Xmx") for o in jo) and "-Xmx" not in os.environ.get("JAVA_TOOL_OPTIONS", ""):
        # the JVM default (a quarter of RAM per process) lets 16 parallel shards exhaust the machine
        jo.append("-Xmx3g" if (workers or NCPU) == 1 else "-Xmx12g")
    cmd = ["java", "-XX:+UseParallelGC", "-Xss16m", "-Dtlc2.tool.queue.IStateQueue=MemStateQueue"] + jo + ["-cp", JAR, "tlc2.TLC",
           "-metadir", meta, "-noGenerateSpecTE", "-config", module + ".cfg",
           "-workers", str(workers or NCPU)]
    if coverage:
        cmd += ["-coverage", "1"]
    if simulate:
        cmd += ["-simulate", simulate]
    if depth:
        cmd += ["-depth", str(depth)]
    if seed is not None:
        cmd += ["-seed", str(seed)]
    if deadlock:
        cmd += ["-deadlock"]
    cmd += (extra or []) + [module + ".tla"]
    e = dict(os.environ)
    e.update(env or {})
    t0 = time.time()
    try:
        p = subprocess.run(cmd, cwd=workdir_path, capture_output=True, text=True,
                           timeout=timeout, env=e)
        out = p.stdout + p.stderr
        rc = p.returncode
    except subprocess.TimeoutExpired as ex:
        out = (ex.stdout or b"").decode(errors="replace") if isinstance(ex.stdout, bytes) else (ex.stdout or "")
        rc = -9
        res.error = "timeout"
    res.wall = time.time() - t0
    parse_output(res, out)
    res.rc = rc
    res.ok = rc == 0 and res.violated is None and res.error is None
    shutil.rmtree(meta, ignore_errors=True)
    return res


def must(res, what):
    """Raise MachineryError unless the TLC run finished cleanly."""
    if not res.ok:
        tail = "\n".join(res.stdout.splitlines()[-40:])
        raise MachineryError(f"TLC run '{what}' failed (rc={res.rc}, violated={res.violated}, "
                             f"error={res.error})\n{tail}")
    return res


def parse_reject(t):
    """<<"REJECT", 12, "clause">> -> (12, "clause")"""
    m = re.match(r'^<<\s*"REJECT",\s*(-?\d+),\s*"([^"]*)"\s*(?:,\s*(.*?))?\s*>>$', t)
    if not m:
        return None
    return int(m.group(1)), m.group(2), m.group(3)


def validate_batches(name, module, cases, cfg_text, shards=None, timeout=1800, fname="cases.ndjson"):
    """Batch trace validation (code -> spec): write `cases` (list of JSON-able dicts,
    each with integer field 'id') as ndjson shards, run one single-worker TLC per shard in
    parallel on `module`, and collect the REJECT tuples.  Returns (rejects, states, wall)
    where rejects = {case id: clause}."""
    from concurrent.futures import ThreadPoolExecutor

    shards = shards or NCPU
    shards = max(1, min(shards, len(cases) // 50 + 1))
    dirs = []
    for s in range(shards):
        chunk = cases[s::shards]
        d = prepare(f"{name}/shard{s}")
        with open(os.path.join(d, fname), "w") as f:
            for c in chunk:
                f.write(json.dumps(c, separators=(",", ":")) + "\n")
        dirs.append((d, len(chunk)))

    def one(dn):
        d, n = dn
        if n == 0:
            return None
        return run(d, module, cfg_text, workers=1, timeout=timeout)

    t0 = time.time()
    with ThreadPoolExecutor(max_workers=shards) as ex:
        results = list(ex.map(one, dirs))
    rejects = {}
    states = 0
    for (d, n), r in zip(dirs, results):
        if r is None:
            continue
        must(r, f"{name} batch validation")
        if r.distinct < n:
            raise MachineryError(f"{name}: TLC consumed {r.distinct} of {n} cases\n" + r.stdout[-2000:])
        states += r.distinct
        for t in r.tuples:
            pr = parse_reject(t)
            if pr:
                rejects[pr[0]] = pr[1] if pr[2] is None else f"{pr[1]} {pr[2]}"
    return rejects, states, time.time() - t0
