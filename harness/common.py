"""Shared plumbing for the trimesh TLA+ conformance checks.

Verdict rule (DESIGN 2.3): a VIOLATION is printed only when an observation of the
real code contradicts the property-level specification and is not explained by a
known finding.  Machinery failures exit 2 and never print VIOLATION.
"""
import json
import os
import shutil
import sys
import time

VERIF = os.path.dirname(os.path.dirname(os.path.abspath(__file__)))
SPEC_DIR = os.path.join(VERIF, "spec")
WORK = os.path.join(VERIF, ".work")
EVIDENCE = os.path.join(VERIF, "evidence")
REPLAYS = os.path.join(VERIF, "replays")
KNOWN = os.path.join(VERIF, "known_findings.jsonl")
NCPU = min(16, os.cpu_count() or 1)


def repo_dir():
    return os.environ.get("VERIF_REPO", "/repo")


def import_trimesh():
    """Import trimesh from the working tree under test (never from a stale copy)."""
    repo = repo_dir()
    if repo not in sys.path:
        sys.path.insert(0, repo)
    import trimesh

    got = os.path.dirname(os.path.dirname(os.path.abspath(trimesh.__file__)))
    if os.path.realpath(got) != os.path.realpath(repo):
        raise MachineryError(f"trimesh imported from {got}, expected {repo}")
    return trimesh


class MachineryError(Exception):
    pass


def seed():
    try:
        return int(os.environ.get("VERIF_SEED", "0"))
    except ValueError:
        return 0


_created = []


def workdir(name, fresh=True):
    """Scratch directory private to this process (concurrent runs of the same check must not share
    TLC metadirs); removed again when the process exits."""
    import atexit
    top = name.split("/")[0] + "-%d" % os.getpid()
    d = os.path.join(WORK, top, *name.split("/")[1:])
    if fresh and os.path.isdir(d):
        shutil.rmtree(d, ignore_errors=True)
    os.makedirs(d, exist_ok=True)
    root = os.path.join(WORK, top)
    if root not in _created:
        _created.append(root)
        if len(_created) == 1:
            atexit.register(lambda: [shutil.rmtree(x, ignore_errors=True) for x in _created])
    return d


def load_known(prop):
    """Known findings for a property: list of dicts (status 'open' only)."""
    out = []
    if os.path.exists(KNOWN):
        for line in open(KNOWN):
            line = line.strip()
            if not line or line.startswith("#") or line.startswith("fixed:"):
                continue
            rec = json.loads(line)
            if rec.get("property") == prop and rec.get("status", "open") == "open":
                out.append(rec)
    return out


LAST_VERDICT = None  # the Verdict of the running check (harness/runner.py reports its violations if the run ends in a machinery error)


class Verdict:
    """Collects observations; separates violations from known findings."""

    def __init__(self, prop, tier):
        global LAST_VERDICT
        LAST_VERDICT = self
        self.prop = prop
        self.tier = tier
        self.known = {k["id"]: k for k in load_known(prop)}
        self.known_hits = {}
        self.violations = []
        self.t0 = time.time()
        self.notes = {}

    def known_finding(self, kid, what):
        """Record an observation explained by the listed known finding `kid`.
        If `kid` is not listed this is a violation instead."""
        if kid in self.known:
            self.known_hits.setdefault(kid, []).append(what)
            return True
        return False

    def violation(self, clause, detail, deviation=None):
        """An observation of the real code contradicting the spec."""
        if deviation is not None and self.known_finding(deviation, detail):
            return
        self.violations.append({"clause": clause, "detail": detail, "deviation": deviation})

    def _stratified(self, per):
        seen, out = {}, []
        for v in self.violations:
            seen[v["clause"]] = seen.get(v["clause"], 0) + 1
            if seen[v["clause"]] <= per:
                out.append(v)
        return out[:400]

    def finish(self, level, coverage, assumptions=None, extra=None):
        os.makedirs(EVIDENCE, exist_ok=True)
        os.makedirs(REPLAYS, exist_ok=True)
        wall = time.time() - self.t0
        for kid, hits in sorted(self.known_hits.items()):
            k = self.known[kid]
            print(
                f"KNOWN-FINDING: property={self.prop} {kid}: {k.get('description','')} "
                f"[{len(hits)} observation(s), e.g. {json.dumps(hits[0], default=str)[:300]}]"
            )
        cov = dict(coverage)
        cov["known_finding_observations"] = {k: len(v) for k, v in self.known_hits.items()}
        ev = {
            "property_id": self.prop,
            "tier": self.tier,
            "seed": seed(),
            "level": level,
            "coverage": cov,
            "assumptions": assumptions or [],
            "wall_s": round(wall, 2),
            "violations": len(self.violations),
        }
        if extra:
            ev.update(extra)
        rc = 0
        if self.violations:
            rp = os.path.join(REPLAYS, f"{self.prop}_{self.tier}_{seed()}.json")
            with open(rp, "w") as f:
                json.dump(
                    {"property": self.prop, "tier": self.tier, "seed": seed(),
                     "violations": self._stratified(25)},
                    f, indent=1, default=str)
            ev["coverage"]["violation_samples"] = self.violations[:5]
            hist = {}
            for v in self.violations:
                hist[v["clause"]] = hist.get(v["clause"], 0) + 1
            ev["coverage"]["violation_clauses"] = hist
            print("  violation clauses:", json.dumps(hist))
            for v in self.violations[:4]:
                print(f"  violated clause={v['clause']} detail={json.dumps(v['detail'], default=str)[:400]}")
            print(f"VIOLATION property={self.prop} replay={rp}")
            rc = 1
        evdir = EVIDENCE if self.prop.startswith("C") else os.path.join(VERIF, "evidence_extra")
        if os.path.realpath(repo_dir()) != "/repo":
            # a run against a scratch tree (seeded / benign change) must not replace the evidence of /repo
            evdir = os.path.join(WORK, "evidence_other_tree")
        os.makedirs(evdir, exist_ok=True)  # X.. ids: components specified beyond the listed properties
        with open(os.path.join(evdir, f"{self.prop}.json"), "w") as f:
            json.dump(ev, f, indent=1, default=str)
        print(
            f"{self.prop} tier={self.tier} violations={len(self.violations)} "
            f"known={sum(len(v) for v in self.known_hits.values())} wall={wall:.1f}s"
        )
        return rc


def _run_chunk(fc):
    """One chunk in a pool worker; collect garbage afterwards (workers live for the whole map and the
    meshes / scenes a chunk builds reference each other in cycles)."""
    import gc
    func, chunk = fc
    try:
        return func(chunk)
    finally:
        gc.collect()


def pmap(func, items, nproc=None, chunk=None):
    """Run func(list_of_items) over chunks in a fork pool; returns list of per-chunk results."""
    import multiprocessing as mp

    nproc = nproc or NCPU
    items = list(items)
    if not items:
        return []
    if chunk is None:
        chunk = max(1, min(2000, len(items) // (nproc * 4) + 1))
    chunks = [items[i:i + chunk] for i in range(0, len(items), chunk)]
    if nproc == 1 or len(chunks) == 1:
        return [func(c) for c in chunks]
    ctx = mp.get_context("fork")
    # ProcessPoolExecutor (not Pool.map): a worker killed by the OOM killer must end the run with a
    # machinery error instead of leaving the parent waiting for ever
    from concurrent.futures import ProcessPoolExecutor
    from concurrent.futures.process import BrokenProcessPool
    try:
        with ProcessPoolExecutor(max_workers=nproc, mp_context=ctx) as pool:
            return list(pool.map(_run_chunk, [(func, c) for c in chunks]))
    except BrokenProcessPool as e:
        raise MachineryError("a worker process died (killed / out of memory?): %r" % (e,))


def tier_from_args(argv):
    tier = os.environ.get("VERIF_TIER", "quick")
    if "--tier" in argv:
        tier = argv[argv.index("--tier") + 1]
    return tier if tier in ("quick", "thorough") else "quick"
