"""pytest plugin (loaded with `-p verif_recorder`, only when TRIMESH_VERIF=1): records every
SceneGraph.get together with the projected abstract state of the graph at that moment
(parent map and one interned token per edge matrix) as ndjson, so that TLC can say which
edges, in which order and inverted or not, the answer must be the product of.
The wrappers are add-only and installed from outside; nothing in /repo is modified."""
import json
import os

import numpy as np

_out = None
_tokens = {}
_mats = []
_names = {}
_count = 0
MAX_NODES = 40
MAX_EVENTS = 20000


def _tok(M):
    M = np.ascontiguousarray(np.asarray(M, dtype=np.float64))
    key = M.tobytes()
    t = _tokens.get(key)
    if t is None:
        t = "m%d" % len(_mats)
        _tokens[key] = t
        _mats.append(M.tolist())
    return t


def _name(n):
    k = (type(n).__name__, repr(n))
    if k not in _names:
        _names[k] = "n%d" % len(_names)
    return _names[k]


def install():
    global _out
    path = os.environ.get("TRIMESH_VERIF_TRACE")
    if not path or os.environ.get("TRIMESH_VERIF") != "1":
        return
    from trimesh.scene import transforms as T
    _out = open(path, "w")
    real_get = T.SceneGraph.get

    def get(self, frame_to, frame_from=None):
        global _count
        exc = None
        res = None
        try:
            res = real_get(self, frame_to, frame_from)
            return res
        except BaseException as e:  # noqa
            exc = type(e).__name__
            raise
        finally:
            try:
                forest = self.transforms
                parents = dict(forest.parents)
                if _count < MAX_EVENTS and len(parents) <= MAX_NODES:
                    a = self.base_frame if frame_from is None else frame_from
                    ev = {"ev": "get", "a": _name(a), "b": _name(frame_to), "exc": exc or "",
                          "parents": [[_name(c), _name(p)] for c, p in parents.items()],
                          "present": sorted({_name(x) for x in forest.node_data.keys()} | {_name(a), _name(frame_to)}),
                          "edges": {}}
                    for c, p in parents.items():
                        d = forest.edge_data.get((p, c), {})
                        ev["edges"][_name(c)] = _tok(d["matrix"]) if "matrix" in d else "I"
                    if res is not None:
                        ev["res"] = np.asarray(res[0], dtype=np.float64).tolist()
                    _out.write(json.dumps(ev) + "\n")
                    _count += 1
            except BaseException:
                pass
    T.SceneGraph.get = get


def pytest_configure(config):
    install()


def pytest_unconfigure(config):
    if _out is not None:
        _out.write(json.dumps({"ev": "tokens", "mats": _mats}) + "\n")
        _out.close()
