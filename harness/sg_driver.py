"""Random driver over SceneGraph with arbitrary float matrices, run under the recorder
(harness/verif_recorder.py) so that every get is logged with the projected state."""
import os
import sys

import numpy as np


def main(seed, n_graphs, n_steps):
    sys.path.insert(0, os.path.dirname(os.path.abspath(__file__)))
    import verif_recorder
    verif_recorder.install()
    import trimesh
    from trimesh.scene.transforms import SceneGraph
    from trimesh import transformations as tf
    rs = np.random.RandomState(seed)
    names = ["world", "a", "b", "c", "d", "e", 7, ("t", 1)]

    def rand_matrix():
        k = rs.randint(5)
        if k == 0:
            return tf.random_rotation_matrix(rs.rand(3), translate=False) if False else tf.rotation_matrix(rs.uniform(-3, 3), rs.normal(size=3))
        if k == 1:
            return tf.translation_matrix(rs.uniform(-5, 5, size=3))
        M = tf.rotation_matrix(rs.uniform(-3, 3), rs.normal(size=3))
        M[:3, 3] = rs.uniform(-10, 10, size=3)
        if k == 3:
            M[:3, :3] *= rs.choice([0.5, 2.0, 25.4])
        if k == 4:
            M = np.eye(4)
        return M

    for _ in range(n_graphs):
        g = SceneGraph(base_frame="world")
        shadow = {}      # the driver's own parent map: cycle avoidance must not depend on the code under test

        def ancestors(x):
            out = set()
            while x in shadow and x not in out:
                out.add(x)
                x = shadow[x]
            out.add(x)
            return out
        for _ in range(n_steps):
            op = rs.randint(10)
            u, v = names[rs.randint(len(names))], names[rs.randint(1, len(names))]
            try:
                if op < 4:
                    if u != v and v not in ancestors(u):
                        shadow[v] = u
                        form = rs.randint(3)
                        M = rand_matrix()
                        if form == 0:
                            g.update(frame_to=v, frame_from=u, matrix=M)
                        elif form == 1:
                            g.update(frame_to=v, frame_from=u, translation=M[:3, 3].copy())
                        else:
                            q = tf.quaternion_from_matrix(M / np.cbrt(abs(np.linalg.det(M[:3, :3]))) if abs(np.linalg.det(M[:3, :3])) > 0 else M)
                            g.update(frame_to=v, frame_from=u, quaternion=q, translation=M[:3, 3].copy())
                elif op == 4:
                    g.transforms.remove_node(v)
                    shadow = {c: p_ for c, p_ in shadow.items() if c != v and p_ != v}
                elif op == 5:
                    g.base_frame = names[rs.randint(len(names))]
                else:
                    nodes = list(g.transforms.node_data.keys())
                    if len(nodes) >= 1:
                        a = nodes[rs.randint(len(nodes))]
                        b = nodes[rs.randint(len(nodes))]
                        if rs.randint(3) == 0:
                            g.get(b)
                        else:
                            g.get(b, a)
            except (ValueError, KeyError):
                pass
    verif_recorder.pytest_unconfigure(None)


if __name__ == "__main__":
    main(int(sys.argv[1]), int(sys.argv[2]), int(sys.argv[3]))
