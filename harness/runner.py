"""Entry point of every check: `python -m harness.runner <module> [args]` (used by bin/check).

Runs checks.<module>.main(argv) and makes the exit status total:
  0 / 1   what the check returned (1 goes with a VIOLATION line printed by Verdict.finish)
  2       machinery failure (MachineryError, or an exception whose innermost non-third-party frame
          is the harness' own code)
  1       an exception that the library under test raised in a call the harness did not guard - e.g. a
          seeded change that makes a READ raise after a mutator.  That is an observation of the tree
          under test contradicting the property (every check passes on the unchanged tree without
          such a raise), so it is reported as a VIOLATION with the traceback as the replay file,
          not as a broken check.
"""
import importlib
import json
import os
import re
import sys
import time
import traceback

from harness.common import EVIDENCE, REPLAYS, VERIF, WORK, MachineryError, repo_dir, seed, tier_from_args


def _frames(e):
    """File names of the frames of e, outermost first, remote (worker) frames last."""
    files = [f.filename for f in traceback.extract_tb(e.__traceback__)]
    seen = set()
    c = e
    while c is not None and id(c) not in seen:
        seen.add(id(c))
        tb = getattr(c, "tb", None)  # concurrent.futures / multiprocessing _RemoteTraceback
        if isinstance(tb, str):
            files += re.findall(r'File "([^"]+)", line \d+', tb)
        c = c.__cause__ or c.__context__
    return files


def _blame(e):
    lib = os.path.join(os.path.realpath(repo_dir()), "trimesh") + os.sep
    own = os.path.realpath(VERIF) + os.sep
    for f in reversed(_frames(e)):
        r = os.path.realpath(f)
        if r.startswith(lib):
            return "library"
        if r.startswith(own):
            return "harness"
    return "harness"


def main():
    mod, argv = sys.argv[1], sys.argv[2:]
    prop = mod.upper()
    t0 = time.time()
    try:
        m = importlib.import_module("checks." + mod)
        return m.main(argv)
    except MachineryError as e:
        from harness import common
        V = common.LAST_VERDICT
        if V is not None and V.violations:
            # a guard against vacuity (or a later machinery step) failed AFTER observations of the real code
            # had already contradicted the spec: those observations stand on their own (verdict rule), and
            # a tree that breaks the property badly enough to empty an enumeration must not look "broken check"
            print("MACHINERY-ERROR (after %d violations were recorded; reporting them):" % len(V.violations), str(e)[:500])
            return V.finish("model_checking", {"states": 0, "transitions": 0, "traces_validated_against_impl": len(V.violations),
                                               "samples": [V.violations[0]],
                                               "explanation": "the run ended in a machinery error after these violations had been recorded: " + str(e)[:300]})
        print("MACHINERY-ERROR:", e)
        return 2
    except Exception as e:  # noqa
        text = "".join(traceback.format_exception(type(e), e, e.__traceback__))
        c = e
        while c is not None:
            tb = getattr(c, "tb", None)
            if isinstance(tb, str):
                text += "\n" + tb
            c = c.__cause__
        if _blame(e) != "library":
            print("MACHINERY-ERROR: unexpected exception in the harness\n" + text[-3000:])
            return 2
        tier = tier_from_args(argv)
        os.makedirs(REPLAYS, exist_ok=True)
        rp = os.path.join(REPLAYS, f"{prop}_{tier}_{seed()}.json")
        detail = {"clause": "library_raised_in_a_call_the_check_expects_to_succeed", "exception": repr(e)[:300], "traceback": text[-6000:]}
        with open(rp, "w") as f:
            json.dump({"property": prop, "tier": tier, "seed": seed(), "violations": [detail]}, f, indent=1)
        evdir = EVIDENCE if prop.startswith("C") else os.path.join(VERIF, "evidence_extra")
        if os.path.realpath(repo_dir()) != "/repo":
            evdir = os.path.join(WORK, "evidence_other_tree")
        os.makedirs(evdir, exist_ok=True)
        with open(os.path.join(evdir, prop + ".json"), "w") as f:
            json.dump({"property_id": prop, "tier": tier, "seed": seed(), "level": "model_checking",
                       "coverage": {"states": 0, "transitions": 0, "traces_validated_against_impl": 0, "samples": [detail],
                                    "explanation": "the run ended when the library under test raised in an unguarded call"},
                       "assumptions": [], "wall_s": round(time.time() - t0, 2), "violations": 1}, f, indent=1)
        print("  violation clauses:", json.dumps({detail["clause"]: 1}))
        print("  " + text.strip().splitlines()[-1][:300])
        print(f"VIOLATION property={prop} replay={rp}")
        print(f"{prop} tier={tier} violations=1 known=0 wall={time.time() - t0:.1f}s")
        return 1


if __name__ == "__main__":
    sys.exit(main())
