------------------------------- MODULE Loader -------------------------------
(***************************************************************************)
(* Life-cycle of trimesh.load / load_mesh / load_scene / load_path on an   *)
(* arbitrary byte string (property C20), the fault sequences applied to a  *)
(* valid file (the validator of recorded load traces is LoaderTrace.tla).   *)
(*                                                                         *)
(* Part 1 - life-cycle state machine, one action per step of load_scene:   *)
(*   ParseArgs   (opens the file itself when given a path)                 *)
(*   Dispatch    (by file type: mesh / path / compressed / voxel loader)   *)
(*   ParseStep   (the loader's loop: consumes input, progress measure)     *)
(*   LoaderRaise (any ordinary exception inside the loader)                *)
(*   FinallyClose(the try/finally that closes what ParseArgs opened)       *)
(*   PostProcess (building geometry objects from the parsed kwargs)        *)
(*   Return / Raise                                                        *)
(* Safety  : at the end a handle the loader opened is closed, and the      *)
(*           outcome is a return or an ordinary exception.                 *)
(* Liveness: the load terminates (every parser loop consumes input).       *)
(* `ClosesOnAllPaths = FALSE` models an entry point without the finally    *)
(* (load_path called directly, as found in 4.6.5).                         *)
(*                                                                         *)
(* Part 2 - fault sequences over an abstract file layout (a sequence of    *)
(* fields: header, counts, records, terminator): truncate, corrupt a field *)
(* with a value class, swap two chunks, duplicate a chunk, splice foreign  *)
(* bytes.  TLC enumerates every sequence of at most MaxFaults faults and   *)
(* emits it; the harness maps it onto the bytes of every seed file.        *)
(***************************************************************************)
EXTENDS Integers, Sequences, FiniteSets, TLC, Json

CONSTANTS Entries,           \* {"load", "load_mesh", "load_scene", "load_path"}
          ClosesOnAllPaths,  \* TRUE: every entry point closes what it opened
          MaxInput,          \* abstract input length (parser progress measure)
          NFields, MaxFaults, Classes

VARIABLES phase, entry, byPath, opened, handle, remaining, outcome, faults

vars == <<phase, entry, byPath, opened, handle, remaining, outcome, faults>>

Init == /\ phase = "start" /\ entry \in Entries /\ byPath \in BOOLEAN
        /\ opened = FALSE /\ handle = "none" /\ remaining \in 0..MaxInput
        /\ outcome = "none" /\ faults = <<>>

ParseArgs == /\ phase = "start"
             /\ phase' = "parsed"
             /\ opened' = byPath
             /\ handle' = IF byPath THEN "open" ELSE "none"
             /\ UNCHANGED <<entry, byPath, remaining, outcome, faults>>

\* unknown file type: NotImplementedError / ValueError before any loader runs
DispatchFail == /\ phase = "parsed" /\ phase' = "failed"
                /\ UNCHANGED <<entry, byPath, opened, handle, remaining, outcome, faults>>
Dispatch == /\ phase = "parsed" /\ phase' = "loading"
            /\ UNCHANGED <<entry, byPath, opened, handle, remaining, outcome, faults>>

\* one iteration of a loader loop: strictly consumes input
ParseStep == /\ phase = "loading" /\ remaining > 0
             /\ remaining' = remaining - 1
             /\ UNCHANGED <<phase, entry, byPath, opened, handle, outcome, faults>>
LoaderDone == /\ phase = "loading" /\ remaining = 0 /\ phase' = "loaded"
              /\ UNCHANGED <<entry, byPath, opened, handle, remaining, outcome, faults>>
LoaderRaise == /\ phase = "loading" /\ phase' = "failed"
               /\ UNCHANGED <<entry, byPath, opened, handle, remaining, outcome, faults>>

\* the finally block (taken on both paths)
HasFinally == ClosesOnAllPaths \/ entry # "load_path"
FinallyClose == /\ phase \in {"loaded", "failed"}
                /\ handle' = IF HasFinally /\ opened THEN "closed" ELSE handle
                /\ phase' = IF phase = "loaded" THEN "post" ELSE "raising"
                /\ UNCHANGED <<entry, byPath, opened, remaining, outcome, faults>>

PostOk == /\ phase = "post" /\ phase' = "done" /\ outcome' = "return"
          /\ UNCHANGED <<entry, byPath, opened, handle, remaining, faults>>
PostRaise == /\ phase = "post" /\ phase' = "done" /\ outcome' = "exception"
             /\ UNCHANGED <<entry, byPath, opened, handle, remaining, faults>>
Raise == /\ phase = "raising" /\ phase' = "done" /\ outcome' = "exception"
         /\ UNCHANGED <<entry, byPath, opened, handle, remaining, faults>>

Finished == phase = "done" /\ UNCHANGED vars        \* terminal stuttering
Next == ParseArgs \/ Dispatch \/ DispatchFail \/ ParseStep \/ LoaderDone \/ LoaderRaise
        \/ FinallyClose \/ PostOk \/ PostRaise \/ Raise \/ Finished
Spec == Init /\ [][Next]_vars /\ WF_vars(Next)

HandleClosedAtEnd == phase = "done" => (opened => handle = "closed")
OutcomeOrdinary == phase = "done" => outcome \in {"return", "exception"}
Terminates == <>(phase = "done")

\* ------------------------------------------------------ part 2: fault sequences
Fault == [op : {"truncate_at"}, f : 1..NFields]
         \cup [op : {"truncate_in"}, f : 1..NFields]
         \cup [op : {"corrupt"}, f : 1..NFields, c : Classes]
         \cup [op : {"swap"}, f : 1..(NFields - 1)]
         \cup [op : {"duplicate"}, f : 1..NFields]
         \cup [op : {"splice"}, f : 1..NFields]
         \cup [op : {"drop"}, f : 1..NFields]
FInit == /\ faults = <<>> /\ phase = "start" /\ entry = "load" /\ byPath = FALSE /\ opened = FALSE
         /\ handle = "none" /\ remaining = 0 /\ outcome = "none"
FNext == /\ Len(faults) < MaxFaults
         /\ \E x \in Fault : faults' = Append(faults, x)
         /\ UNCHANGED <<phase, entry, byPath, opened, handle, remaining, outcome>>
EmitFaults == (Len(faults) >= 1) => PrintT(ToJson(faults))

Entries4 == {"load", "load_mesh", "load_scene", "load_path"}
Classes4 == {"zero", "max", "negative", "random"}
=============================================================================
