------------------------------- MODULE Loader -------------------------------
(***************************************************************************)
(* Life-cycle of trimesh.load / load_mesh / load_scene / load_path on an   *)
(* arbitrary byte string (property C20), the fault sequences applied to a  *)
(* valid file (the validator of recorded load traces is LoaderTrace.tla).   *)
(*                                                                         *)
(* Part 1 - life-cycle state machine, one action per step of load_scene:   *)
(*   ParseArgs   (opens the file itself when given a path)                 *)
(*   Dispatch    (by file type: mesh / path / compressed / voxel loader)   *)
(*   ParseStep   (the loader's loop: consumes input, progress measure)     *)
(*   LoaderRaise (any ordinary exception inside the loader)                *)
(*   FinallyClose(the try/finally that closes what ParseArgs opened)       *)
(*   PostProcess (building geometry objects from the parsed kwargs)        *)
(*   Return / Raise                                                        *)
(* Safety  : at the end a handle the loader opened is closed, and the      *)
(*           outcome is a return or an ordinary exception.                 *)
(* Liveness: the load terminates (every parser loop consumes input).       *)
(* `ClosesOnAllPaths = FALSE` models an entry point without the finally    *)
(* (load_path called directly, as found in 4.6.5).                         *)
(*                                                                         *)
(* Memory  : a loader reads a count field from the header, compares the    *)
(*           length it implies with the bytes really present and only then *)
(*           allocates count * record size.  MemoryProportional: what was  *)
(*           asked of the allocator is bounded by the input.  `LengthCheck`*)
(*           = "wrapping" models the comparison done in fixed-width        *)
(*           arithmetic (binary STL in 4.6.5: uint32 face_count * 50), and *)
(*           "none" an array sized by a count nothing was compared with    *)
(*           (glTF accessor without a bufferView), "declared" a count      *)
(*           compared with another field of the same header; TLC reports   *)
(*           all three.                                                    *)
(*                                                                         *)
(* Part 2 - fault sequences over an abstract file layout (a sequence of    *)
(* fields: header, counts, records, terminator): truncate, corrupt a field *)
(* with a value class, swap two chunks, duplicate a chunk, splice foreign  *)
(* bytes.  TLC enumerates every sequence of at most MaxFaults faults and   *)
(* emits it; the harness maps it onto the bytes of every seed file.        *)
(*                                                                         *)
(* Part 3 - value classes for one numeric field (CountClasses,             *)
(* RealClasses, StructClasses).  An integer class is symbolic:             *)
(*   value = (+/-) mul * (base + delta + 2^pow),  base in {0, n}           *)
(* with n the present value of the field.  The exponents are derived here: *)
(* a length check `count * size = len` done in w-bit arithmetic is passed  *)
(* by exactly the counts n + k * 2^(w - v2(size)) (v2 = number of trailing *)
(* zero bits), so for every width and record size in use the class         *)
(* n + 2^(w - v2(size)) is emitted, next to the sign and width boundaries. *)
(***************************************************************************)
EXTENDS Integers, Sequences, FiniteSets, TLC, Json

CONSTANTS Entries,           \* {"load", "load_mesh", "load_scene", "load_path"}
          ClosesOnAllPaths,  \* TRUE: every entry point closes what it opened
          MaxInput,          \* abstract input length (parser progress measure)
          NFields, MaxFaults, Classes,
          LengthCheck        \* "exact" | "wrapping" | "none": how the header count is compared with the input

VARIABLES phase, entry, byPath, opened, handle, remaining, outcome, faults,
          count,             \* the count field as found in the (possibly corrupted) header
          alloc,             \* units asked of the allocator so far
          size               \* records really present in the input (remaining counts down from it)

vars == <<phase, entry, byPath, opened, handle, remaining, outcome, faults, count, alloc, size>>

RecSize == 2                 \* model units per record
Modulus == 8                 \* the fixed-width arithmetic of a "wrapping" length check
CountMax == 2 * Modulus - 1

Init == /\ phase = "start" /\ entry \in Entries /\ byPath \in BOOLEAN
        /\ opened = FALSE /\ handle = "none" /\ remaining \in 0..MaxInput
        /\ outcome = "none" /\ faults = <<>>
        /\ count \in 0..CountMax /\ alloc = 0 /\ size = remaining

ParseArgs == /\ phase = "start"
             /\ phase' = "parsed"
             /\ opened' = byPath
             /\ handle' = IF byPath THEN "open" ELSE "none"
             /\ UNCHANGED <<entry, byPath, remaining, outcome, faults, count, alloc, size>>

\* unknown file type: NotImplementedError / ValueError before any loader runs
DispatchFail == /\ phase = "parsed" /\ phase' = "failed"
                /\ UNCHANGED <<entry, byPath, opened, handle, remaining, outcome, faults, count, alloc, size>>
Dispatch == /\ phase = "parsed" /\ phase' = "header"
            /\ UNCHANGED <<entry, byPath, opened, handle, remaining, outcome, faults, count, alloc, size>>

\* the header: the length implied by the count field is compared with what is present, then the
\* arrays sized by the count are allocated
LengthOK == CASE LengthCheck = "exact"    -> count * RecSize = size * RecSize
              [] LengthCheck = "wrapping" -> (count * RecSize) % Modulus = (size * RecSize) % Modulus
              \* compared with another field of the same header (a declared total length) instead of with
              \* what is really there: some value of that field lets every count pass
              [] LengthCheck = "declared" -> \E d \in 0..(CountMax * RecSize) : count * RecSize <= d
              [] OTHER                    -> TRUE
HeaderOk == /\ phase = "header" /\ LengthOK
            /\ alloc' = count * RecSize /\ phase' = "loading"
            /\ UNCHANGED <<entry, byPath, opened, handle, remaining, outcome, faults, count, size>>
HeaderBad == /\ phase = "header" /\ ~LengthOK /\ phase' = "failed"
             /\ UNCHANGED <<entry, byPath, opened, handle, remaining, outcome, faults, count, alloc, size>>

\* one iteration of a loader loop: strictly consumes input
ParseStep == /\ phase = "loading" /\ remaining > 0
             /\ remaining' = remaining - 1
             /\ UNCHANGED <<phase, entry, byPath, opened, handle, outcome, faults, count, alloc, size>>
LoaderDone == /\ phase = "loading" /\ remaining = 0 /\ phase' = "loaded"
              /\ UNCHANGED <<entry, byPath, opened, handle, remaining, outcome, faults, count, alloc, size>>
LoaderRaise == /\ phase \in {"header", "loading"} /\ phase' = "failed"
               /\ UNCHANGED <<entry, byPath, opened, handle, remaining, outcome, faults, count, alloc, size>>

\* the finally block (taken on both paths)
HasFinally == ClosesOnAllPaths \/ entry # "load_path"
FinallyClose == /\ phase \in {"loaded", "failed"}
                /\ handle' = IF HasFinally /\ opened THEN "closed" ELSE handle
                /\ phase' = IF phase = "loaded" THEN "post" ELSE "raising"
                /\ UNCHANGED <<entry, byPath, opened, remaining, outcome, faults, count, alloc, size>>

PostOk == /\ phase = "post" /\ phase' = "done" /\ outcome' = "return"
          /\ UNCHANGED <<entry, byPath, opened, handle, remaining, faults, count, alloc, size>>
PostRaise == /\ phase = "post" /\ phase' = "done" /\ outcome' = "exception"
             /\ UNCHANGED <<entry, byPath, opened, handle, remaining, faults, count, alloc, size>>
Raise == /\ phase = "raising" /\ phase' = "done" /\ outcome' = "exception"
         /\ UNCHANGED <<entry, byPath, opened, handle, remaining, faults, count, alloc, size>>

Finished == phase = "done" /\ UNCHANGED vars        \* terminal stuttering
Next == ParseArgs \/ Dispatch \/ DispatchFail \/ HeaderOk \/ HeaderBad \/ ParseStep \/ LoaderDone \/ LoaderRaise
        \/ FinallyClose \/ PostOk \/ PostRaise \/ Raise \/ Finished
Spec == Init /\ [][Next]_vars /\ WF_vars(Next)

HandleClosedAtEnd == phase = "done" => (opened => handle = "closed")
OutcomeOrdinary == phase = "done" => outcome \in {"return", "exception"}
Terminates == <>(phase = "done")
\* never more asked of the allocator than a fixed multiple of what the input holds
MemFactor == 1
MemoryProportional == alloc <= MemFactor * size * RecSize

\* ------------------------------------------------------ part 2: fault sequences
Fault == [op : {"truncate_at"}, f : 1..NFields]
         \cup [op : {"truncate_in"}, f : 1..NFields]
         \cup [op : {"corrupt"}, f : 1..NFields, c : Classes]
         \cup [op : {"swap"}, f : 1..(NFields - 1)]
         \cup [op : {"duplicate"}, f : 1..NFields]
         \cup [op : {"splice"}, f : 1..NFields]
         \cup [op : {"drop"}, f : 1..NFields]
FInit == /\ faults = <<>> /\ phase = "start" /\ entry = "load" /\ byPath = FALSE /\ opened = FALSE
         /\ handle = "none" /\ remaining = 0 /\ outcome = "none" /\ count = 0 /\ alloc = 0 /\ size = 0
FNext == /\ Len(faults) < MaxFaults
         /\ \E x \in Fault : faults' = Append(faults, x)
         /\ UNCHANGED <<phase, entry, byPath, opened, handle, remaining, outcome, count, alloc, size>>
EmitFaults == (Len(faults) >= 1) => PrintT(ToJson(faults))

\* ------------------------------------------------------ part 3: value classes of a numeric field
RECURSIVE V2(_)
V2(s) == IF s % 2 = 1 THEN 0 ELSE 1 + V2(s \div 2)
Widths == {8, 16, 32, 64}
RecordSizes == {1, 2, 3, 4, 6, 8, 12, 16, 36, 50}       \* item sizes the loaders multiply counts by
WrapPows == {w - V2(s) : w \in Widths, s \in RecordSizes}
SignPows == {w - 1 : w \in Widths}
Pows == WrapPows \cup SignPows \cup Widths \cup {53, 100}
IntClass == [base : {"zero", "n"}, delta : {-1, 0, 1}, pow : {0} \cup Pows, mul : {1, 2, 3}, neg : BOOLEAN]
CountClasses ==
    {c \in IntClass : c.pow = 0 /\ c.mul = 1 /\ ~c.neg}                                   \* 0, 1, -1, n-1, n, n+1
    \cup {c \in IntClass : c.base = "n" /\ c.delta = 0 /\ c.pow = 0 /\ c.mul > 1}          \* 2n, 3n, -2n, -3n
    \cup {c \in IntClass : c.base = "zero" /\ c.delta \in {-1, 0} /\ c.pow > 0 /\ c.mul = 1 /\ ~c.neg}   \* 2^k - 1, 2^k
    \cup {c \in IntClass : c.base = "n" /\ c.delta = 0 /\ c.pow > 0 /\ c.mul = 1 /\ ~c.neg}           \* n + 2^k
    \cup {c \in IntClass : c.delta \in {0, 1} /\ c.pow \in SignPows /\ c.mul = 1 /\ c.neg}          \* -2^k, -2^k - 1, -(n + 2^k)
    \cup {c \in IntClass : c.base = "n" /\ c.delta = 0 /\ c.pow = 0 /\ c.mul = 1 /\ c.neg}           \* -n
\* two adjacent fields corrupted together (a bound taken from one corruptible field for the other): both large
PairClasses == {c \in CountClasses : c.base = "zero" /\ ~c.neg /\ c.mul = 1 /\ c.delta \in {-1, 0} /\ c.pow \in {29, 30, 31, 32}}
RealClasses == {"nan", "inf", "neginf", "huge", "tiny", "negzero", "max", "broken", "hex", "long", "int", "empty"}
StructClasses == {"delete", "null", "empty_list", "empty_dict", "string", "real", "true", "nested", "neg", "big"}
\* the wrap class of the STL defect (uint32 count * 50-byte records) must be among them
ASSUME [base |-> "n", delta |-> 0, pow |-> 31, mul |-> 1, neg |-> FALSE] \in CountClasses
\* (state-level on purpose: TLC evaluates constant-level definitions, PrintT included, at start-up of every run)
EmitClasses == (Len(faults) = 0) => PrintT(ToJson([ints |-> CountClasses, reals |-> RealClasses, structs |-> StructClasses,
                                                pairs |-> PairClasses \X PairClasses]))

Entries4 == {"load", "load_mesh", "load_scene", "load_path"}
Classes4 == {"zero", "max", "negative", "random"}
=============================================================================
