----------------------------- MODULE ScenePlace -----------------------------
(***************************************************************************)
(* Scene-level quantities as explicit placement of every instance          *)
(* (property C10), and a batch validator of recorded scene histories.      *)
(*                                                                         *)
(* A scene configuration is a forest of frames (parent index per node,     *)
(* 0 = the base frame), an exact affine edge transform per node (integer   *)
(* 3x3 linear part: rotation from the cube group times an integer uniform  *)
(* scale, and an integer translation), an optional geometry per node, and  *)
(* a table of geometries (integer vertices, triangles as 1-based index     *)
(* triples, empty for point clouds).                                       *)
(*   World(n)  = product of the edge transforms from the base to n         *)
(*   Placed    = for every node with geometry, that geometry moved by      *)
(*               World(n)                                                  *)
(* Every scene quantity is a function of Placed.  Operations (copy,        *)
(* scaled, rezero, apply_transform, add, subscene, dump/to_mesh, geometry  *)
(* and graph edits) are specified by their effect on Placed.               *)
(***************************************************************************)
EXTENDS Integers, Sequences, FiniteSets, TLC, Json

Cases == ndJsonDeserialize("cases.ndjson")
VARIABLE i

\* ---------------------------------------------------------- exact affine maps
\* an affine map is a record [l |-> 3x3 integer matrix as <<row,row,row>>, t |-> <<x,y,z>>]
IdL == <<<<1, 0, 0>>, <<0, 1, 0>>, <<0, 0, 1>>>>
IdA == [l |-> IdL, t |-> <<0, 0, 0>>]
Dot(r, v) == r[1] * v[1] + r[2] * v[2] + r[3] * v[3]
MulLV(L, v) == <<Dot(L[1], v), Dot(L[2], v), Dot(L[3], v)>>
Col(L, j) == <<L[1][j], L[2][j], L[3][j]>>
MulLL(A, B) == [r \in 1..3 |-> <<Dot(A[r], Col(B, 1)), Dot(A[r], Col(B, 2)), Dot(A[r], Col(B, 3))>>]
AddV(a, b) == <<a[1] + b[1], a[2] + b[2], a[3] + b[3]>>
Apply(A, p) == AddV(MulLV(A.l, p), A.t)
Compose(A, B) == [l |-> MulLL(A.l, B.l), t |-> AddV(MulLV(A.l, B.t), A.t)]      \* A after B
Det(L) == L[1][1] * (L[2][2] * L[3][3] - L[2][3] * L[3][2])
        - L[1][2] * (L[2][1] * L[3][3] - L[2][3] * L[3][1])
        + L[1][3] * (L[2][1] * L[3][2] - L[2][2] * L[3][1])
Abs(x) == IF x < 0 THEN -x ELSE x
FromRec(e) == [l |-> e.l, t |-> e.t]

\* ------------------------------------------------------------- configuration
\* cfg: [parent |-> seq of parent index (0 = base), edge |-> seq of affine records, geom |-> seq of
\*       geometry index (0 = none)], geoms: seq of [v |-> seq of points, f |-> seq of index triples]
\* transform of node n expressed in the frame of its ancestor `root` (0 = the base frame)
RECURSIVE WorldK(_, _, _, _)
WorldK(cfg, n, root, k) == IF n = root \/ n = 0 \/ k = 0 THEN IdA
                           ELSE Compose(WorldK(cfg, cfg.parent[n], root, k - 1), FromRec(cfg.edge[n]))
WorldFrom(cfg, n, root) == WorldK(cfg, n, root, Len(cfg.parent) + 1)
World(cfg, n) == WorldFrom(cfg, n, 0)
Nodes(cfg) == 1..Len(cfg.parent)
Inst(cfg) == {n \in Nodes(cfg) : cfg.geom[n] # 0}
RECURSIVE IsDescK(_, _, _, _)
IsDescK(cfg, n, a, k) == IF n = 0 \/ k = 0 THEN FALSE
                         ELSE IF cfg.parent[n] = a THEN TRUE ELSE IsDescK(cfg, cfg.parent[n], a, k - 1)
IsDesc(cfg, n, a) == IsDescK(cfg, n, a, Len(cfg.parent) + 1)

\* placement: set of <<node, world transform>> ; an outer map M is applied on top (scaled / apply_transform)
PlacedPts(cfg, geoms, M, S, root) ==
    UNION {{Apply(Compose(M, WorldFrom(cfg, n, root)), geoms[cfg.geom[n]].v[k]) : k \in 1..Len(geoms[cfg.geom[n]].v)} : n \in S}
MinC(P, c) == CHOOSE m \in {p[c] : p \in P} : \A p \in P : m <= p[c]
MaxC(P, c) == CHOOSE m \in {p[c] : p \in P} : \A p \in P : m >= p[c]
BoundsOf(P) == <<<<MinC(P, 1), MinC(P, 2), MinC(P, 3)>>, <<MaxC(P, 1), MaxC(P, 2), MaxC(P, 3)>>>>

\* a triangle up to cyclic rotation, keeping orientation: its set of directed edges
TriKey(a, b, c) == {<<a, b>>, <<b, c>>, <<c, a>>}
\* bag of placed triangles as a function key -> multiplicity
PlacedTriSeq(cfg, geoms, M, S, root) ==
    LET RECURSIVE Ser(_)
        Ser(T) == IF T = {} THEN <<>>
                  ELSE LET n == CHOOSE n \in T : TRUE
                           g == geoms[cfg.geom[n]]
                           W == Compose(M, WorldFrom(cfg, n, root))
                       IN [k \in 1..Len(g.f) |-> TriKey(Apply(W, g.v[g.f[k][1]]), Apply(W, g.v[g.f[k][2]]),
                                                       Apply(W, g.v[g.f[k][3]]))] \o Ser(T \ {n})
    IN Ser(S)
BagOf(s) == [x \in {s[k] : k \in 1..Len(s)} |-> Cardinality({k \in 1..Len(s) : s[k] = x})]
ObsTriSeq(tris) == [k \in 1..Len(tris) |-> TriKey(tris[k][1], tris[k][2], tris[k][3])]

\* six times the signed volume of a closed triangle list (sum of determinants with the origin)
Det3(a, b, c) == Det(<<a, b, c>>)
RECURSIVE SumVol(_, _)
SumVol(g, k) == IF k = 0 THEN 0
                ELSE Det3(g.v[g.f[k][1]], g.v[g.f[k][2]], g.v[g.f[k][3]]) + SumVol(g, k - 1)
Vol6(g) == SumVol(g, Len(g.f))
RECURSIVE SumInst(_, _, _, _, _)
SumInst(cfg, geoms, M, S, root) ==
    IF S = {} THEN 0
    ELSE LET n == CHOOSE n \in S : TRUE
         IN Abs(Det(Compose(M, WorldFrom(cfg, n, root)).l)) * Vol6(geoms[cfg.geom[n]]) + SumInst(cfg, geoms, M, S \ {n}, root)
\* area of a similarity image scales with the square of the uniform scale; geometries carry twice
\* their own area as an integer `a2` (all their faces are axis aligned), 0 when it is not an integer
ScaleSq(L) == Dot(L[1], L[1])      \* rows of s*R have squared norm s^2
RECURSIVE SumArea(_, _, _, _, _)
SumArea(cfg, geoms, M, S, root) ==
    IF S = {} THEN 0
    ELSE LET n == CHOOSE n \in S : TRUE
         IN ScaleSq(Compose(M, WorldFrom(cfg, n, root)).l) * geoms[cfg.geom[n]].a2 + SumArea(cfg, geoms, M, S \ {n}, root)

\* ------------------------------------------------------------------ validator
\* c.cfg / c.geoms: configuration the observation must agree with (after the edits, computed by
\*   the harness only structurally: which edge / vertex was overwritten with which integers)
\* c.m: outer affine map the operation is specified to apply to every placement
\* c.sub: 0, or the node whose strict descendants are placed relative to it (subscene)
\* c.obs: what the real scene reported
Sel(c) == IF c.sub = 0 THEN Inst(c.cfg) ELSE {n \in Inst(c.cfg) : IsDesc(c.cfg, n, c.sub)}
\* rezero moves the centre of the bounding box to the origin (coordinates are doubled by the harness so
\* that the centre is an integer point)
Outer(c) == IF c.op = "rezero"
            THEN LET B == BoundsOf(PlacedPts(c.cfg, c.geoms, IdA, Sel(c), c.sub))
                 IN [l |-> IdL, t |-> <<-((B[1][1] + B[2][1]) \div 2), -((B[1][2] + B[2][2]) \div 2), -((B[1][3] + B[2][3]) \div 2)>>]
            ELSE FromRec(c.m)
Clause(c) ==
    LET S == Sel(c)
        P == PlacedPts(c.cfg, c.geoms, Outer(c), S, c.sub)
    IN IF S = {} THEN (IF c.obs.empty THEN "ok" ELSE "expected_empty_scene")
       ELSE IF c.obs.empty THEN "unexpected_empty_scene"
       ELSE IF c.obs.bounds # BoundsOf(P) THEN "bounds"
       ELSE IF c.obs.has_tris /\ BagOf(ObsTriSeq(c.obs.tris)) # BagOf(PlacedTriSeq(c.cfg, c.geoms, Outer(c), S, c.sub)) THEN "triangles"
       ELSE IF c.obs.has_vol /\ c.obs.vol6 # SumInst(c.cfg, c.geoms, Outer(c), S, c.sub) THEN "volume"
       ELSE IF c.obs.has_area /\ c.obs.area2 # SumArea(c.cfg, c.geoms, Outer(c), S, c.sub) THEN "area"
       ELSE "ok"

Init == i = 1
Next == i < Len(Cases) /\ i' = i + 1
Report == LET c == Cases[i]  cl == IF c.exc # "" THEN "raised" ELSE Clause(c)
          IN IF cl # "ok" THEN PrintT(<<"REJECT", c.id, cl>>) ELSE TRUE
=============================================================================
